"""Loader: parse the pDESy package under analysis and build class / method / enum tables.

Nothing of the analysed package is imported or executed; only `ast.parse` is applied to its
source files.  The root of the tree under analysis is `$PDESY_SRC` (default `/repo`), so the
self-test can point the same checks at a scratch copy.
"""
import ast
import os
import re
import hashlib

from .errors import AnalysisError

SRC_ROOT = os.environ.get("PDESY_SRC", "/repo")
PKG = "pDESy"


class FuncInfo:
    def __init__(self, name, node, cls, module, parent=None):
        self.name = name
        self.node = node
        self.cls = cls  # class name or None
        self.module = module
        self.parent = parent  # enclosing FuncInfo for nested defs
        a = node.args
        self.params = [x.arg for x in a.posonlyargs + a.args]
        self.kwonly = [x.arg for x in a.kwonlyargs]
        self.vararg = a.vararg.arg if a.vararg else None
        self.kwarg = a.kwarg.arg if a.kwarg else None
        self.defaults = {}
        pos = a.posonlyargs + a.args
        for arg, d in zip(pos[len(pos) - len(a.defaults):], a.defaults):
            self.defaults[arg.arg] = d
        for arg, d in zip(a.kwonlyargs, a.kw_defaults):
            if d is not None:
                self.defaults[arg.arg] = d

    @property
    def qualname(self):
        return f"{self.cls}.{self.name}" if self.cls else self.name

    @property
    def file(self):
        return self.module.relpath

    def loc(self, node=None):
        n = node if node is not None else self.node
        return f"{self.module.relpath}:{getattr(n, 'lineno', 0)}"

    def body(self):
        """Statements without the docstring."""
        b = self.node.body
        if b and isinstance(b[0], ast.Expr) and isinstance(b[0].value, ast.Constant) and isinstance(b[0].value.value, str):
            return b[1:]
        return b

    def __repr__(self):
        return f"<Func {self.qualname}>"


class ClassInfo:
    def __init__(self, name, node, module):
        self.name = name
        self.node = node
        self.module = module
        self.bases = [b.id for b in node.bases if isinstance(b, ast.Name)] + [
            b.attr for b in node.bases if isinstance(b, ast.Attribute)
        ]
        self.methods = {}
        self.enum_members = None
        self.doc = ast.get_docstring(node) or ""
        for st in node.body:
            if isinstance(st, ast.FunctionDef):
                self.methods[st.name] = FuncInfo(st.name, st, name, module)
        if "IntEnum" in self.bases or "Enum" in self.bases:
            self.enum_members = {}
            for st in node.body:
                if isinstance(st, ast.Assign) and len(st.targets) == 1 and isinstance(st.targets[0], ast.Name):
                    try:
                        self.enum_members[st.targets[0].id] = ast.literal_eval(st.value)
                    except Exception:
                        self.enum_members[st.targets[0].id] = None


class ModuleInfo:
    def __init__(self, path, relpath, src):
        self.path = path
        self.relpath = relpath
        self.src = src
        self.lines = src.splitlines()
        self.tree = ast.parse(src, filename=path)
        self.name = os.path.splitext(os.path.basename(path))[0]
        # names bound at module level (assignments only: candidates for module-level state)
        self.toplevel_names = set()
        for st in self.tree.body:
            if isinstance(st, (ast.Assign, ast.AnnAssign, ast.AugAssign)):
                for t in (st.targets if isinstance(st, ast.Assign) else [st.target]):
                    for n in ast.walk(t):
                        if isinstance(n, ast.Name):
                            self.toplevel_names.add(n.id)


class Repo:
    def __init__(self, root=None):
        self.root = root or SRC_ROOT
        self.modules = {}
        self.classes = {}
        self.functions = {}
        self.module_functions = {}
        self._shadowed = []
        self.digest = hashlib.sha256()
        pkgdir = os.path.join(self.root, PKG)
        if not os.path.isdir(pkgdir):
            raise AnalysisError(f"package directory {pkgdir} not found")
        for dirpath, dirnames, filenames in sorted(os.walk(pkgdir)):
            dirnames[:] = sorted(d for d in dirnames if d != "__pycache__")
            for fn in sorted(filenames):
                if not fn.endswith(".py"):
                    continue
                p = os.path.join(dirpath, fn)
                src = open(p, encoding="utf-8").read()
                self.digest.update(src.encode())
                rel = os.path.relpath(p, self.root)
                try:
                    m = ModuleInfo(p, rel, src)
                except SyntaxError as e:
                    raise AnalysisError(f"cannot parse {rel}: {e}")
                self.modules[rel] = m
                for st in m.tree.body:
                    if isinstance(st, ast.ClassDef):
                        self.classes[st.name] = ClassInfo(st.name, st, m)
                    elif isinstance(st, ast.FunctionDef):
                        fi = FuncInfo(st.name, st, None, m)
                        self.module_functions[(rel, st.name)] = fi
                        if st.name in self.functions:
                            self._shadowed.append(fi)   # same name in two modules: each call resolves in its own module first
                        else:
                            self.functions[st.name] = fi
        self.enums = {n: c.enum_members for n, c in self.classes.items() if c.enum_members is not None}
        self.model_classes = sorted(n for n, c in self.classes.items() if c.enum_members is None)
        self._all_funcs = None

    # -- lookup ---------------------------------------------------------------------------
    def mro(self, cls):
        out = []
        todo = [cls]
        while todo:
            c = todo.pop(0)
            if c in out or c not in self.classes:
                continue
            out.append(c)
            todo.extend(self.classes[c].bases)
        return out

    def subclasses(self, cls):
        return [c for c in self.classes if cls in self.mro(c)]

    def lookup_method(self, cls, name):
        """Resolve a method name (possibly name-mangled `_Cls__x`) on class `cls` through the MRO."""
        m = re.match(r"^_(\w+?)(__\w+)$", name)
        for c in self.mro(cls):
            ci = self.classes[c]
            if name in ci.methods:
                return ci.methods[name]
            if m and m.group(1) == c and m.group(2) in ci.methods:
                return ci.methods[m.group(2)]
        return None

    def method(self, cls, name):
        f = self.lookup_method(cls, name)
        if f is None:
            raise AnalysisError(f"anchor vanished: method {cls}.{name} not found")
        return f

    def func(self, name):
        if name not in self.functions:
            raise AnalysisError(f"anchor vanished: function {name} not found")
        return self.functions[name]

    def function_for(self, name, module):
        """The module-level function `name` as seen from `module`: its own definition first, else the package-wide one."""
        if module is not None:
            fi = self.module_functions.get((module.relpath, name))
            if fi is not None:
                return fi
        return self.functions.get(name)

    def all_funcs(self):
        if self._all_funcs is None:
            out = []
            for c in self.classes.values():
                out.extend(c.methods.values())
            out.extend(self.functions.values())
            out.extend(self._shadowed)
            self._all_funcs = out
        return self._all_funcs

    def classes_defining(self, method_name):
        return [c for c, ci in self.classes.items() if method_name in ci.methods]

    def enum_of_member_expr(self, node):
        """`BaseTaskState.FINISHED` -> ('BaseTaskState','FINISHED') or None."""
        if isinstance(node, ast.Attribute) and isinstance(node.value, ast.Name) and node.value.id in self.enums:
            if node.attr in self.enums[node.value.id]:
                return (node.value.id, node.attr)
        return None

    def excerpt(self, relpath, lineno, n=1):
        m = self.modules.get(relpath)
        if not m:
            return ""
        return "\n".join(m.lines[max(0, lineno - 1): lineno - 1 + n])


_REPO = None


def get_repo():
    global _REPO
    if _REPO is None:
        _REPO = Repo()
    return _REPO
