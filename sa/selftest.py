"""Self-test of the checker, both ways.

(a) seeded faults: each mutant is a textual edit of one pDESy source file (old snippet -> new snippet,
    must match exactly once), applied to a scratch copy under /tmp/pdesy-sa-*/ (removed afterwards).
    The named property's check must exit 1 and mention the expected rule.
(b) benign variants: behaviour-preserving rewrites; every listed check must stay at exit 0.

Usage: /venv/bin/python -m sa.selftest [--only C07] [--with-tests] [--jobs 16] [--json out.json]
Never part of a verdict: results are informational (DESIGN.md section 7).
"""
import argparse
import concurrent.futures as cf
import json
import os
import shutil
import subprocess
import sys
import tempfile

VERIF = os.path.dirname(os.path.dirname(os.path.abspath(__file__)))
REPO = os.environ.get("PDESY_SRC", "/repo")

from .mutants import MUTANTS, BENIGN  # noqa: E402


def make_copy(edits):
    d = tempfile.mkdtemp(prefix="pdesy-sa-")
    shutil.copytree(os.path.join(REPO, "pDESy"), os.path.join(d, "pDESy"), ignore=shutil.ignore_patterns("__pycache__"))
    # Snippets are written against the ast.unparse() normal form of the sources, so that they do not depend on
    # the repo's line wrapping; the scratch copy is normalised first (itself a benign "reformat" variant).
    import ast as _ast
    for dp, _dn, fns in os.walk(os.path.join(d, "pDESy")):
        for fn in fns:
            if fn.endswith(".py"):
                fp = os.path.join(dp, fn)
                src = open(fp, encoding="utf-8").read()
                open(fp, "w", encoding="utf-8").write(_ast.unparse(_ast.parse(src)) + "\n")
    for rel, old, new in edits:
        p = os.path.join(d, rel)
        s = open(p, encoding="utf-8").read()
        every = old.startswith("EVERY:")   # an edit applied to all (>= 1) occurrences, e.g. the two sibling branches of a reader
        if every:
            old = old[len("EVERY:"):]
        if (s.count(old) < 1) if every else (s.count(old) != 1):
            shutil.rmtree(d, ignore_errors=True)
            return None, f"snippet matches {s.count(old)} times in {rel}"
        open(p, "w", encoding="utf-8").write(s.replace(old, new))
    # must still compile
    for rel, _, _ in edits:
        r = subprocess.run(["/venv/bin/python", "-c", f"import ast,sys;ast.parse(open({os.path.join(d, rel)!r}).read())"], capture_output=True, text=True)
        if r.returncode != 0:
            shutil.rmtree(d, ignore_errors=True)
            return None, "mutant does not parse: " + r.stderr[-200:]
    return d, None


def run_check(prop, src, tier="quick"):
    env = dict(os.environ, PDESY_SRC=src, VERIF_EVIDENCE_DIR=os.path.join(src, "evidence"))
    r = subprocess.run([os.path.join(VERIF, "check"), prop, "--tier", tier], capture_output=True, text=True, env=env, cwd=VERIF)
    return r.returncode, r.stdout + r.stderr


def run_tests(src):
    d = os.path.join(src, "tests")
    if not os.path.exists(d):
        shutil.copytree(os.path.join(REPO, "tests"), d, ignore=shutil.ignore_patterns("__pycache__"))
    r = subprocess.run(["/venv/bin/python", "-m", "pytest", "-q", "-x", "-p", "no:cacheprovider", "tests"], capture_output=True, text=True, cwd=src,
                       env=dict(os.environ, PYTHONPATH=src))
    tail = (r.stdout.strip().splitlines() or [""])[-1]
    return r.returncode == 0, tail


def do_mutant(m, with_tests):
    d, err = make_copy(m["edits"])
    if d is None:
        return {"id": m["id"], "status": "not-applicable", "why": err}
    try:
        res = {"id": m["id"], "prop": m["prop"], "rule": m["rule"]}
        rc, out = run_check(m["prop"], d)
        res["exit"] = rc
        hit_rule = any(l.strip().startswith("rule " + m["rule"]) or (" " + m["rule"] + " ") in l or ("_" + m["rule"] + "_") in l or (m["rule"] + ":") in l for l in out.splitlines() if "VIOLATION" in l or l.strip().startswith("rule "))
        if m.get("exit2"):
            res["status"] = "caught" if rc == 2 and ("guard " + m["rule"]) in out else ("MISSED" if rc == 0 else "caught-other-rule")
            res["first"] = next((l.strip() for l in out.splitlines() if "ANALYSIS-ERROR" in l), "")[:300]
            return res
        res["status"] = "caught" if rc == 1 and hit_rule else ("caught-other-rule" if rc == 1 else ("analysis-error" if rc == 2 else "MISSED"))
        res["first"] = next((l.strip() for l in out.splitlines() if l.strip().startswith("rule ")), out.strip().splitlines()[-1] if out.strip() else "")[:300]
        if with_tests:
            ok, tail = run_tests(d)
            res["tests_pass"] = ok
            res["tests"] = tail
        return res
    finally:
        shutil.rmtree(d, ignore_errors=True)


def do_benign(b):
    d, err = make_copy(b["edits"])
    if d is None:
        return {"id": b["id"], "status": "not-applicable", "why": err}
    try:
        bad = []
        for prop in b["props"]:
            rc, out = run_check(prop, d)
            if rc != 0:
                bad.append((prop, rc, next((l.strip() for l in out.splitlines() if l.strip().startswith("rule ") or "ANALYSIS-ERROR" in l), "")[:300]))
        return {"id": b["id"], "status": "quiet" if not bad else "FALSE-ALARM", "bad": bad}
    finally:
        shutil.rmtree(d, ignore_errors=True)


def main():
    ap = argparse.ArgumentParser()
    ap.add_argument("--only", default=None)
    ap.add_argument("--with-tests", action="store_true")
    ap.add_argument("--jobs", type=int, default=16)
    ap.add_argument("--json", default=None)
    ap.add_argument("--no-benign", action="store_true")
    a = ap.parse_args()
    muts = [m for m in MUTANTS if a.only is None or m["prop"] == a.only or m["id"].startswith(a.only)]
    bens = [] if a.no_benign else [b for b in BENIGN if a.only is None or a.only in b["props"] or b["id"].startswith(a.only)]
    # mutant runs write their evidence inside the scratch copy (VERIF_EVIDENCE_DIR), never into /verif/evidence
    with cf.ThreadPoolExecutor(a.jobs) as ex:
        results = list(ex.map(lambda m: do_mutant(m, a.with_tests), muts))
        bres = list(ex.map(do_benign, bens))
    for r in results:
        t = f" tests={'pass' if r.get('tests_pass') else 'FAIL'}" if "tests_pass" in r else ""
        print(f"{r['status']:18} {r['id']:40} {r.get('rule', ''):7}{t}  {r.get('first', r.get('why', ''))[:150]}")
    for r in bres:
        print(f"{r['status']:18} {r['id']:40} {r.get('bad', r.get('why', ''))}")
    c = {}
    for r in results:
        c[r["status"]] = c.get(r["status"], 0) + 1
    cb = {}
    for r in bres:
        cb[r["status"]] = cb.get(r["status"], 0) + 1
    print("mutants:", c, " benign:", cb)
    if a.json:
        json.dump({"mutants": results, "benign": bres}, open(a.json, "w"), indent=1)
    return 0


if __name__ == "__main__":
    sys.exit(main())
