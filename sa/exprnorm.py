"""Polynomial normal form over opaque atoms with rational coefficients.

`Poly` is a dict {monomial: Fraction}, a monomial being a sorted tuple of atom names (with
repetition for powers); the empty tuple is the constant term.  Only +, -, * and division by a
non-zero constant are inside the fragment; anything else becomes a fresh opaque atom named by
its normalised source text, so that two syntactically equal sub-terms stay equal.
"""
import ast
from fractions import Fraction


class Poly:
    __slots__ = ("terms",)

    def __init__(self, terms=None):
        self.terms = {k: v for k, v in (terms or {}).items() if v != 0}

    @staticmethod
    def const(c):
        if isinstance(c, bool):
            c = int(c)
        if isinstance(c, float):
            c = Fraction(c).limit_denominator(10**12)
        return Poly({(): Fraction(c)})

    @staticmethod
    def sym(name):
        return Poly({(name,): Fraction(1)})

    def is_const(self):
        return all(k == () for k in self.terms)

    def const_value(self):
        return self.terms.get((), Fraction(0))

    def symbols(self):
        s = set()
        for k in self.terms:
            s.update(k)
        return s

    def is_linear(self):
        return all(len(k) <= 1 for k in self.terms)

    def __add__(self, o):
        t = dict(self.terms)
        for k, v in o.terms.items():
            t[k] = t.get(k, 0) + v
        return Poly(t)

    def __neg__(self):
        return Poly({k: -v for k, v in self.terms.items()})

    def __sub__(self, o):
        return self + (-o)

    def __mul__(self, o):
        t = {}
        for k1, v1 in self.terms.items():
            for k2, v2 in o.terms.items():
                k = tuple(sorted(k1 + k2))
                t[k] = t.get(k, 0) + v1 * v2
        return Poly(t)

    def scale(self, c):
        return Poly({k: v * c for k, v in self.terms.items()})

    def __eq__(self, o):
        return isinstance(o, Poly) and self.terms == o.terms

    def __hash__(self):
        return hash(tuple(sorted(self.terms.items())))

    def subst(self, mapping):
        """Substitute atoms by Polys."""
        out = Poly()
        for k, v in self.terms.items():
            term = Poly.const(1).scale(v)
            for a in k:
                term = term * (mapping[a] if a in mapping else Poly.sym(a))
            out = out + term
        return out

    def __repr__(self):
        if not self.terms:
            return "0"
        parts = []
        for k in sorted(self.terms, key=lambda m: (len(m), m)):
            v = self.terms[k]
            c = str(v.numerator) if v.denominator == 1 else f"{v.numerator}/{v.denominator}"
            if k == ():
                parts.append(c)
            else:
                mono = "*".join(k)
                if v == 1:
                    parts.append(mono)
                elif v == -1:
                    parts.append("-" + mono)
                else:
                    parts.append(f"{c}*{mono}")
        return " + ".join(parts).replace("+ -", "- ")


def atom_text(node):
    return ast.unparse(node).replace(" ", "")


def normalise(node, env=None, atom=None):
    """AST expression -> Poly.  `env` maps Name ids / unparsed sub-expressions to Poly;
    `atom(node)` may rename opaque atoms (e.g. strip a receiver name)."""
    env = env or {}

    def go(n):
        if isinstance(n, ast.Constant) and isinstance(n.value, (int, float)) and not isinstance(n.value, bool):
            return Poly.const(n.value)
        key = atom_text(n)
        if key in env:
            return env[key]
        if isinstance(n, ast.Name) and n.id in env:
            return env[n.id]
        if isinstance(n, ast.UnaryOp) and isinstance(n.op, ast.USub):
            return -go(n.operand)
        if isinstance(n, ast.UnaryOp) and isinstance(n.op, ast.UAdd):
            return go(n.operand)
        if isinstance(n, ast.BinOp):
            if isinstance(n.op, ast.Add):
                return go(n.left) + go(n.right)
            if isinstance(n.op, ast.Sub):
                return go(n.left) - go(n.right)
            if isinstance(n.op, ast.Mult):
                return go(n.left) * go(n.right)
            if isinstance(n.op, ast.Div):
                r = go(n.right)
                if r.is_const() and r.const_value() != 0:
                    return go(n.left).scale(1 / r.const_value())
        if isinstance(n, ast.Call) and isinstance(n.func, ast.Name) and n.func.id in ("int", "float") and len(n.args) == 1 \
                and isinstance(n.args[0], ast.Constant):
            return go(n.args[0])
        name = atom(n) if atom else key
        return Poly.sym(name)

    return go(node)
