"""What BaseProject.initialize(state_info, log_info) stores, per flag combination (whole containment tree inlined).

The two flags are independent switches: `state_info` resets live state, `log_info` resets the per-step logs.  A run that is
resumed, or re-run with only one of them, relies on every *group* of attributes that must stay mutually consistent being reset
under the same combination -- both ends of a pairing, all cost lists, all logs, both sides of a placement."""
from .common import *
from . import spec

_CACHE = {}

COMBOS = [(True, True), (True, False), (False, True), (False, False)]


def init_store_sets(ctx):
    key = id(ctx.repo)
    if key in _CACHE:
        return _CACHE[key]
    from .rules.C08 import tree_method_run
    out = {}
    for s, l in COMBOS:
        f, outs = tree_method_run(ctx, "initialize", {"state_info": Const(s), "log_info": Const(l)})
        acc = {}
        for st, ex in outs:
            for e in flatten(st.trace):
                if isinstance(e, (Store, Mut)) and e.cls and not e.attr.startswith("$"):
                    acc.setdefault((ctx.types.field_owner(e.cls, e.attr) or e.cls, e.attr), e)
        out[(s, l)] = acc
    _CACHE[key] = (f, out)
    return _CACHE[key]


GROUPS = {
    "pairing": [(TASK, "allocated_worker_list"), (TASK, "allocated_facility_list"), (WORKER, "assigned_task_list"), (FACILITY, "assigned_task_list"),
                (TASK, "state"), (WORKER, "state"), (FACILITY, "state")],
    "placement": [(COMPONENT, "placed_workplace"), (WORKPLACE, "placed_component_list")],
    "cost": [(PROJECT, "cost_list"), ("BaseOrganization", "cost_list"), (TEAM, "cost_list"), (WORKPLACE, "cost_list"), (WORKER, "cost_list"), (FACILITY, "cost_list")],
    "logs": list(spec.LOGS),
}


def group_rule(ctx, rule_id, group, why):
    """For every flag combination the attributes of `group` are reset all together or not at all."""
    ctx.begin(rule_id, f"initialize(state_info, log_info): the {group} attributes are reset together under every flag combination", floor=4)
    f, sets = init_store_sets(ctx)
    members = GROUPS[group]
    for combo in COMBOS:
        S = sets[combo]
        ins = [m for m in members if m in S]
        outs = [m for m in members if m not in S]
        con = construct(f, f"{group}:state_info={combo[0]},log_info={combo[1]}")
        ctx.instance(con, cells=len(members), sample={"reset": [f"{c}.{a}" for c, a in ins], "kept": [f"{c}.{a}" for c, a in outs]})
        if ins and outs:
            minority, what = (ins, "resets") if len(ins) <= len(outs) else (outs, "does not reset")
            e = S[ins[0]]
            ctx.violation(construct(f, f"{group}-split:" + ",".join(f"{c}.{a}" for c, a in minority)), e.loc,
                          f"initialize(state_info={combo[0]}, log_info={combo[1]}) {what} {[f'{c}.{a}' for c, a in minority]} while the rest of the {group} group "
                          f"({[f'{c}.{a}' for c, a in (outs if what == 'resets' else ins)][:4]} ...) is {'kept' if what == 'resets' else 'reset'}: {why}")
    # with both flags on everything of the group is reset; with both off nothing
    missing = [m for m in members if m not in sets[(True, True)]]
    if missing:
        ctx.violation(construct(f, f"{group}-never-reset:" + ",".join(f"{c}.{a}" for c, a in missing)), f.loc(),
                      f"initialize(True, True) does not reset {[f'{c}.{a}' for c, a in missing]}")
    ctx.end()


def separation_rule(ctx, rule_id):
    """Nothing is reset by both flags (except what is reset with neither): the flags are independent switches."""
    ctx.begin(rule_id, "initialize(): what state_info resets and what log_info resets are disjoint; logs only under log_info", floor=2)
    f, sets = init_store_sets(ctx)
    tf, ft, ff = sets[(True, False)], sets[(False, True)], sets[(False, False)]
    both = sorted(k for k in tf if k in ft and k not in ff)
    ctx.instance(construct(f, "disjoint"), cells=len(tf) + len(ft), sample={"state_only": len(tf), "log_only": len(ft)})
    for k in both:
        ctx.violation(construct(f, f"reset-by-both-flags:{k[0]}.{k[1]}"), tf[k].loc,
                      f"{k[0]}.{k[1]} is reset by initialize(state_info=True, log_info=False) and also by initialize(state_info=False, log_info=True): "
                      f"a nested initialize() call receives the wrong flag, so resuming (or re-running with one flag) wipes or keeps the wrong half of the object")
    ctx.instance(construct(f, "logs-under-log_info"), cells=len(spec.LOGS))
    for k in spec.LOGS:
        if k in tf:
            ctx.violation(construct(f, f"log-reset-by-state-flag:{k[0]}.{k[1]}"), tf[k].loc, f"log {k[0]}.{k[1]} is reset by initialize(state_info=True, log_info=False)")
    ctx.end()
