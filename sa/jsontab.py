"""JSON save/load tables: exported keys with encoder shapes, keys read back with decoder shapes,
constructor parameters, and the ID -> object re-link assignments of read_simple_json.

All four tables are written down in the source; they are extracted from the syntax tree.
"""
import ast

from .common import *
from .errors import AnalysisError


def _is_self_attr(n, attr=None):
    return isinstance(n, ast.Attribute) and isinstance(n.value, ast.Name) and n.value.id == "self" and (attr is None or n.attr == attr)


def encoder_shape(v):
    """Shape of an exported value expression -> (shape, attribute read on self or None)."""
    # strip `X if self.a is not None else None`
    guard = None
    if isinstance(v, ast.IfExp) and isinstance(v.orelse, ast.Constant) and v.orelse.value is None:
        guard = v.test
        v = v.body
    if _is_self_attr(v):
        return ("identity", v.attr)
    if isinstance(v, ast.Attribute) and v.attr == "ID" and _is_self_attr(v.value):
        return ("id", v.value.attr)
    if isinstance(v, ast.Attribute) and v.attr == "__name__":
        return ("type", None)
    if isinstance(v, ast.Call):
        fn = ast.unparse(v.func)
        if fn == "int" and v.args and _is_self_attr(v.args[0]):
            return ("int-enum", v.args[0].attr)
        if fn == "float" and v.args and _is_self_attr(v.args[0]):
            return ("identity", v.args[0].attr)
        if fn == "str" and v.args and isinstance(v.args[0], ast.Call) and ast.unparse(v.args[0].func).endswith(".total_seconds") \
                and _is_self_attr(v.args[0].func.value):
            return ("seconds-str", v.args[0].func.value.attr)
        if fn.endswith(".strftime") and _is_self_attr(v.func.value):
            return ("strftime", v.func.value.attr)
        if fn.endswith(".export_dict_json_data"):
            return ("nested", None)
    if isinstance(v, ast.ListComp) and len(v.generators) == 1:
        g = v.generators[0]
        src = g.iter
        if _is_self_attr(src):
            e = v.elt
            if isinstance(e, ast.Call) and ast.unparse(e.func) == "int":
                return ("list-int-enum", src.attr)
            if isinstance(e, ast.Call) and ast.unparse(e.func) == "float":
                return ("identity", src.attr)
            if isinstance(e, ast.Attribute) and e.attr == "ID":
                return ("id-list", src.attr)
            if isinstance(e, (ast.Tuple, ast.List)) and len(e.elts) == 2 and isinstance(e.elts[0], ast.Attribute) and e.elts[0].attr == "ID":
                return ("pair-list", src.attr)
            if isinstance(e, ast.Call) and ast.unparse(e.func).endswith(".export_dict_json_data"):
                return ("nested-list", src.attr)
    return ("other:" + ast.unparse(v)[:40], None)


def decoder_shape(v):
    """Shape of a constructor-argument expression in a reader -> (shape, json key or None)."""
    def key_of(n):
        if isinstance(n, ast.Subscript) and isinstance(n.slice, ast.Constant) and isinstance(n.slice.value, str):
            return n.slice.value
        if isinstance(n, ast.Call) and isinstance(n.func, ast.Attribute) and n.func.attr == "get" and n.args and isinstance(n.args[0], ast.Constant):
            return n.args[0].value
        return None
    def or_default(n):
        """`<key read> or <literal>` -> (key, harmless): every falsy saved value (0, 0.0, "", [], an enum member whose value is 0) is
        replaced by the literal; harmless only if the literal is itself the falsy value of that kind (0 -> 0)."""
        if isinstance(n, ast.BoolOp) and isinstance(n.op, ast.Or) and len(n.values) == 2 and key_of(n.values[0]) is not None:
            try:
                d = ast.literal_eval(n.values[1])
            except (ValueError, SyntaxError):
                return key_of(n.values[0]), False
            return key_of(n.values[0]), (d == 0 and not isinstance(d, bool)) or d in ("", [], None)
        return None
    k = key_of(v)
    if k is not None:
        return ("identity", k)
    od = or_default(v)
    if od is not None:
        return ("identity" if od[1] else "falsy-to-default", od[0])
    if isinstance(v, ast.Call):
        fn = ast.unparse(v.func)
        if v.args and key_of(v.args[0]) is not None and isinstance(v.func, ast.Name):
            return ("enum:" + fn, key_of(v.args[0]))
        if v.args and or_default(v.args[0]) is not None and isinstance(v.func, ast.Name):
            od = or_default(v.args[0])
            return (("enum:" if od[1] else "enum-falsy-to-default:") + fn, od[0])
        if fn.endswith("timedelta"):
            for kw in v.keywords:
                if kw.arg == "seconds" and isinstance(kw.value, ast.Call) and ast.unparse(kw.value.func) == "float" and key_of(kw.value.args[0]):
                    return ("timedelta-seconds", key_of(kw.value.args[0]))
        if fn.endswith("strptime") and v.args and key_of(v.args[0]):
            return ("strptime", key_of(v.args[0]))
    if isinstance(v, ast.ListComp) and len(v.generators) == 1 and key_of(v.generators[0].iter) is not None:
        e = v.elt
        if isinstance(e, ast.Call) and isinstance(e.func, ast.Name):
            return ("list-enum:" + e.func.id, key_of(v.generators[0].iter))
    if isinstance(v, ast.Name):
        return ("local:" + v.id, None)
    return ("other:" + ast.unparse(v)[:40], None)


class JsonTables:
    def __init__(self, ctx):
        self.ctx = ctx
        r = ctx.repo
        self.export = {}      # class -> {key: (shape, attr, node)}
        self.export_func = {}
        self.read = {}        # class -> {param: (shape, key, node)}
        self.read_keys = {}   # class -> set of keys subscripted for that class
        self.read_site = {}   # class -> (func, call node)
        self.read_bases = {}  # class -> {variable the saved object is read through: [(key, node), ...]}  (syntactic readers only)
        self.ctor = {}        # class -> [params]
        self.relink = {}      # (class, attr) -> (shape, node)
        self.relink_conditional = {}  # (class, attr) -> enclosing If/While/Try node
        self.project_export = {}
        self.project_read = {}
        for cn in r.model_classes:
            ci = r.classes[cn]
            init = r.lookup_method(cn, "__init__")
            if init:
                self.ctor[cn] = [p for p in init.params if p != "self"]
            ex = ci.methods.get("export_dict_json_data")
            if ex:
                self.export_func[cn] = ex
                self.export[cn] = self._export_keys(cn, ex)
        self._readers()
        self._readers_by_interpretation()
        self._project()

    # -- exporters -------------------------------------------------------------------------
    def _export_keys(self, cn, func):
        keys = {}
        from .astnorm import normalise_function
        meths = {m: fi.node for m, fi in self.ctx.repo.classes[func.cls].methods.items()} if func.cls in self.ctx.repo.classes else None
        fnode = normalise_function(func.node, methods=meths, module=self._module_with_imports(func.module))   # helpers, aliases, tables and comprehensions over them written out
        for n in ast.walk(fnode):
            if isinstance(n, ast.Call) and isinstance(n.func, ast.Attribute) and n.func.attr == "update":
                for kw in n.keywords:
                    if kw.arg:
                        keys[kw.arg] = encoder_shape(kw.value) + (kw.value,)
                    elif isinstance(kw.value, ast.Dict):
                        for k, v in zip(kw.value.keys, kw.value.values):
                            if isinstance(k, ast.Constant) and isinstance(k.value, str):
                                keys[k.value] = encoder_shape(v) + (v,)
            if isinstance(n, ast.Call) and isinstance(n.func, ast.Name) and n.func.id == "dict":
                for kw in n.keywords:
                    if kw.arg:
                        keys[kw.arg] = encoder_shape(kw.value) + (kw.value,)
            if isinstance(n, ast.Dict):
                for k, v in zip(n.keys, n.values):
                    if isinstance(k, ast.Constant) and isinstance(k.value, str):
                        keys[k.value] = encoder_shape(v) + (v,)
            if isinstance(n, ast.Assign) and len(n.targets) == 1 and isinstance(n.targets[0], ast.Subscript) \
                    and isinstance(n.targets[0].slice, ast.Constant) and isinstance(n.targets[0].slice.value, str):
                keys[n.targets[0].slice.value] = encoder_shape(n.value) + (n.value,)
            if isinstance(n, ast.Call) and isinstance(n.func, ast.Attribute) and n.func.attr == "export_dict_json_data" \
                    and isinstance(n.func.value, ast.Call) and ast.unparse(n.func.value.func) == "super":
                for base in self.ctx.repo.mro(cn)[1:]:
                    b = self.ctx.repo.classes[base].methods.get("export_dict_json_data")
                    if b:
                        for k, v in self._export_keys(base, b).items():
                            keys.setdefault(k, v)
                        break
        return keys

    def _module_with_imports(self, mod):
        """The module's top level plus the package functions and literal tables it imports by name (`from ._util import helper`): for
        the macro expansion they are as good as local."""
        memo = self.__dict__.setdefault("_mwi", {})
        if id(mod) not in memo:
            body = list(mod.tree.body)
            have = {d.name for d in body if isinstance(d, ast.FunctionDef)}
            for st0 in mod.tree.body:
                if isinstance(st0, ast.ImportFrom) and st0.level >= 1:
                    for al in st0.names:
                        if al.asname is not None or al.name in have:
                            continue
                        fi = self.ctx.repo.functions.get(al.name)
                        if fi is not None:
                            body.append(fi.node)
                            have.add(al.name)
                            for d in fi.module.tree.body:   # ... and the helpers of its own module it may be written with
                                if isinstance(d, ast.FunctionDef) and d.name not in have:
                                    body.append(d)
                                    have.add(d.name)
                            continue
                        for m2 in self.ctx.repo.modules.values():
                            if m2.name == (st0.module or "").split(".")[-1]:
                                for d in m2.tree.body:
                                    if isinstance(d, ast.Assign) and any(isinstance(t, ast.Name) and t.id == al.name for t in d.targets):
                                        body.append(d)
            memo[id(mod)] = ast.Module(body=body, type_ignores=[])
        return memo[id(mod)]

    # -- readers ----------------------------------------------------------------------------
    def _readers(self):
        r = self.ctx.repo
        from .astnorm import normalise_function
        for f in r.all_funcs():
            if f.name not in ("read_json_data", "read_simple_json"):
                continue
            meths = {m: fi.node for m, fi in r.classes[f.cls].methods.items()} if f.cls in r.classes else None
            fnode = normalise_function(f.node, methods=meths, module=self._module_with_imports(f.module))   # one-line helpers (e.g. a builder of extra keyword arguments) are expanded
            # classes listed in a literal table of the function: a call through a variable may construct any of them
            table_classes = sorted({x.id for t in ast.walk(fnode) if isinstance(t, (ast.Tuple, ast.List)) for x in t.elts if isinstance(x, ast.Name) and x.id in self.ctor})
            assigns = {}
            for a in ast.walk(fnode):
                if isinstance(a, ast.Assign) and len(a.targets) == 1 and isinstance(a.targets[0], ast.Name):
                    assigns.setdefault(a.targets[0].id, []).append(a.value)

            def dict_items(v, cn):
                """keyword/value pairs of a `**expr` argument for class cn"""
                if isinstance(v, ast.Name) and len(assigns.get(v.id, [])) == 1:
                    return dict_items(assigns[v.id][0], cn)
                if isinstance(v, ast.IfExp):
                    named = {x.id for x in ast.walk(v.test) if isinstance(x, ast.Name) and x.id in self.ctor}
                    if named:
                        neg = isinstance(v.test, ast.Compare) and isinstance(v.test.ops[0], (ast.IsNot, ast.NotEq))
                        return dict_items(v.body if ((cn in named) != neg) else v.orelse, cn)
                    out = dict(dict_items(v.orelse, cn))
                    out.update(dict_items(v.body, cn))
                    return out
                if isinstance(v, ast.Dict):
                    return {k.value: val for k, val in zip(v.keys, v.values) if isinstance(k, ast.Constant) and isinstance(k.value, str)}
                if isinstance(v, ast.Call) and isinstance(v.func, ast.Name) and v.func.id == "dict":
                    return {kw.arg: kw.value for kw in v.keywords if kw.arg}
                return {}
            def own_nodes(v):
                """nodes of an argument expression, without the arguments of constructor calls nested in it (those objects read
                their own keys, from their own record)"""
                todo = [v]
                while todo:
                    x = todo.pop()
                    yield x
                    if isinstance(x, ast.Call) and isinstance(x.func, ast.Name) and x.func.id in self.ctor and x is not v and len(x.keywords) >= 3:
                        continue
                    todo.extend(ast.iter_child_nodes(x))
            for n in ast.walk(fnode):
                if not (isinstance(n, ast.Call) and isinstance(n.func, ast.Name) and n.keywords):
                    continue
                if n.func.id in self.ctor:
                    classes = [n.func.id]
                elif n.func.id in assigns and table_classes and len([k for k in n.keywords if k.arg]) >= 3:
                    classes = table_classes
                else:
                    continue
                if len(n.keywords) < 3:
                    continue  # e.g. BaseProduct(component_list=[]) : an empty shell, not a decoded object
                for cn in classes:
                    params = {}
                    keys = set()
                    kws = [(kw.arg, kw.value) for kw in n.keywords if kw.arg]
                    for kw in n.keywords:
                        if kw.arg is None:
                            kws.extend(dict_items(kw.value, cn).items())
                    bases = {}
                    for name, val in kws:
                        params[name] = decoder_shape(val) + (val,)
                        bound = {t.id for c0 in ast.walk(val) if isinstance(c0, ast.comprehension) for t in ast.walk(c0.target) if isinstance(t, ast.Name)}
                        bound |= {a0.arg for l0 in ast.walk(val) if isinstance(l0, ast.Lambda) for a0 in l0.args.args}
                        for x in own_nodes(val):
                            if isinstance(x, ast.Subscript) and isinstance(x.slice, ast.Constant) and isinstance(x.slice.value, str):
                                keys.add(x.slice.value)
                                if isinstance(x.value, ast.Name) and x.value.id not in bound:
                                    bases.setdefault(x.value.id, []).append((x.slice.value, x))
                            elif isinstance(x, ast.Call) and isinstance(x.func, ast.Attribute) and x.func.attr == "get" and isinstance(x.func.value, ast.Name) \
                                    and x.func.value.id not in bound and x.args and isinstance(x.args[0], ast.Constant) and isinstance(x.args[0].value, str):
                                bases.setdefault(x.func.value.id, []).append((x.args[0].value, x))
                    self.read_bases[cn] = bases
                    self.read[cn] = params
                    self.read_keys[cn] = keys
                    self.read_site[cn] = (f, n)
        # containers read directly into attributes (workflow/product/organization level keys)
        for cn, meth in ((WORKFLOW, "read_json_data"), (ORG, "read_json_data"), (PRODUCT, "read_json_data")):
            f = r.lookup_method(cn, meth)
            if not f:
                continue
            ks = set()
            pname = f.params[1] if len(f.params) > 1 else None
            for n in ast.walk(f.node):
                if isinstance(n, ast.Subscript) and isinstance(n.value, ast.Name) and n.value.id == pname and isinstance(n.slice, ast.Constant):
                    ks.add(n.slice.value)
            self.read_keys[cn] = ks

    def _readers_by_interpretation(self):
        """Fallback for readers whose shape is data (key tables, generic builders, decoder tables): the reader is *interpreted* with a
        symbolic JSON value; every constructor call it makes is an event whose arguments name the JSON key they were read from.  Used
        only for exported classes for which the syntactic extraction above found no constructor call."""
        import re
        from .common import mk_interp, flatten
        from .interp import Unk, Call, Obj, ListV, CollV, Const, EnumSet, Poly
        r = self.ctx.repo
        missing = [cn for cn in self.export if cn not in self.read and cn in self.ctor and cn != PROJECT]
        if not missing:
            return
        enum_names = {n for n, c in r.classes.items() if c.enum_members is not None}

        def hook(I, call, st, fr):
            f = call.func
            name = f.id if isinstance(f, ast.Name) else None
            if name in enum_names and len(call.args) == 1 and not call.keywords:
                v = I.eval(call.args[0], st, fr)
                if isinstance(v, Unk) and "JSON" in v.tag:
                    return Unk(f"enum:{name}({v.tag})")
            if ast.unparse(f).endswith("timedelta") and not call.args:
                for kw in call.keywords:
                    if kw.arg == "seconds":
                        v = I.eval(kw.value, st, fr)
                        if isinstance(v, Unk) and "JSON" in v.tag:
                            return Unk(f"timedelta-seconds({v.tag})")
            if ast.unparse(f).endswith("strptime") and call.args:
                v = I.eval(call.args[0], st, fr)
                if isinstance(v, Unk) and "JSON" in v.tag:
                    return Unk(f"strptime({v.tag})")
            return None

        def shape_of(v):
            if not isinstance(v, Unk):
                return None
            t = v.tag
            m = re.fullmatch(r"list-of:enum:(\w+)\((?:float\()?JSON.*\['(\w+)'\]\[\*\]\)?\)", t)
            if m:
                return ("list-enum:" + m.group(1), m.group(2))
            m = re.fullmatch(r"enum:(\w+)\(JSON.*\['(\w+)'\]\)", t)
            if m:
                return ("enum:" + m.group(1), m.group(2))
            m = re.fullmatch(r"timedelta-seconds\(float\(JSON.*\['(\w+)'\]\)\)", t)
            if m:
                return ("timedelta-seconds", m.group(1))
            m = re.fullmatch(r"strptime\(JSON.*\['(\w+)'\]\)", t)
            if m:
                return ("strptime", m.group(1))
            m = re.fullmatch(r"JSON.*\['(\w+)'\]", t)
            if m:
                return ("identity", m.group(1))
            return None
        for f in r.all_funcs():
            if f.name != "read_json_data" or f.cls not in r.classes:
                continue
            pname = f.params[1] if len(f.params) > 1 else None
            if pname is None:
                continue
            I = mk_interp(self.ctx, call_hook=hook, max_paths=4000)
            I.name_comprehensions = True
            try:
                outs = I.run_function(f, bind={pname: Unk("JSON", ("dict", None, None))})
            except AnalysisError:
                continue
            for st, ex in outs:
                for e in flatten(st.trace):
                    if not (isinstance(e, Call) and e.callees and len(e.callees) == 1 and e.callees[0].endswith(".__init__")):
                        continue
                    cn = e.callees[0].split(".")[0]
                    if cn not in missing or cn in self.read and self.read_site.get(cn, (None, None))[1] is not e.node and len(self.read[cn]) >= len(e.args):
                        continue
                    ctor = self.ctor[cn]
                    params, keys = {}, set()
                    bases = {}
                    for k, v in e.args.items():
                        if isinstance(v, Unk):
                            mm = re.search(r"(JSON(?:\['\w+'\]|\[\*\d*\])*)\['(\w+)'\]", v.tag)
                            if mm:
                                bases.setdefault(re.sub(r"\[\*\d+\]", "[*]", mm.group(1)), []).append((mm.group(2), e.node))
                        pn = ctor[k] if isinstance(k, int) and k < len(ctor) else k
                        if not isinstance(pn, str) or pn.startswith("__"):
                            continue
                        sh = shape_of(v)
                        if sh is None:
                            sh = ("local:" + pn, None) if isinstance(v, (Obj, ListV, CollV)) else ("other:" + repr(v)[:40], None)
                        params[pn] = sh + (e.node,)
                        if sh[1]:
                            keys.add(sh[1])
                    if len([1 for v in params.values() if v[1]]) >= 3:
                        self.read[cn] = params
                        self.read_keys[cn] = keys
                        self.read_site[cn] = (f, e.node)
                        self.read_bases[cn] = bases

    def _project(self):
        r = self.ctx.repo
        w = r.method(PROJECT, "write_simple_json")
        for n in ast.walk(w.node):
            if isinstance(n, ast.Dict) and any(isinstance(k, ast.Constant) and k.value == "type" for k in n.keys):
                for k, v in zip(n.keys, n.values):
                    if isinstance(k, ast.Constant):
                        self.project_export[k.value] = encoder_shape(v) + (v,)
        rd = r.method(PROJECT, "read_simple_json")
        for n in ast.walk(rd.node):
            if isinstance(n, ast.Assign) and len(n.targets) == 1 and _is_self_attr(n.targets[0]):
                sh = decoder_shape(n.value)
                if sh[1] is not None:
                    self.project_read[n.targets[0].attr] = sh + (n.value,)
        # re-links:  for x in <container>: x.attr = <expr using lookups>   (read off the normalised body: nested one-line helpers,
        # bound-method aliases and loops over literal attribute names are expanded first)
        from .astnorm import normalise_function
        ft = self.ctx.types.ftypes(rd)
        rdn = normalise_function(rd.node, module=self._module_with_imports(rd.module))
        for n in ast.walk(rdn):
            if isinstance(n, ast.Assign) and len(n.targets) == 1 and isinstance(n.targets[0], ast.Attribute) and isinstance(n.targets[0].value, ast.Name) \
                    and n.targets[0].value.id != "self":
                from .astnorm import original
                t = ft.type_of(original(n.targets[0].value) or n.targets[0].value)   # (loop-scoped types live on the source nodes)
                cls = t[1] if t and t[0] == "obj" else None
                if cls is None:
                    continue
                v = n.value
                shape = "other"
                txt = ast.unparse(v)
                if isinstance(v, ast.ListComp):
                    e = v.elt
                    if isinstance(e, (ast.List, ast.Tuple)) and len(e.elts) == 2:
                        shape = "pair-list-relink"
                    elif "get_" in ast.unparse(e) and ast.unparse(e).endswith("[0]"):
                        shape = "id-list-relink"
                elif isinstance(v, ast.IfExp) and "get_" in txt and "is not None" in ast.unparse(v.test):
                    shape = "id-relink"
                pm = getattr(self, "_pm", None)
                if pm is None:
                    pm = self._pm = parent_map(rdn)
                # statement form of the same thing:  if x.attr is not None: x.attr = <lookup by x.attr>[0]
                # (when the saved reference is None there is nothing to re-link)
                own_guard = None
                g0 = pm.get(id(n))
                if isinstance(g0, ast.If) and any(n is b for b in g0.body) and isinstance(g0.test, ast.Compare) and len(g0.test.ops) == 1 \
                        and isinstance(g0.test.ops[0], ast.IsNot) and isinstance(g0.test.comparators[0], ast.Constant) and g0.test.comparators[0].value is None \
                        and ast.unparse(g0.test.left) == ast.unparse(n.targets[0]):
                    own_guard = g0
                    if "get_" in txt and txt.endswith("[0]") and not g0.orelse:
                        shape = "id-relink"
                self.relink[(cls, n.targets[0].attr)] = (shape, n)
                g = pm.get(id(n))
                cond = None
                while g is not None and g is not rdn:
                    if isinstance(g, (ast.If, ast.While, ast.Try)) and g is not own_guard:
                        cond = g
                    g = pm.get(id(g))
                if cond is not None:
                    self.relink_conditional[(cls, n.targets[0].attr)] = cond
