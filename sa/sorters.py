"""The priority-rule sort functions, decided by interpreting each of them once per member of its rule enum.

For one member the function's outcome is a set of paths, each returning either the unchanged input list or
sorted(<input>, key=K, reverse=R) (possibly nested): a stable permutation.  How the function dispatches on the rule --
an if/elif chain, early returns, a (mode, key, reverse) table scanned in a loop -- does not matter.
"""
import ast

from .common import *
from .errors import AnalysisError
from .interp import FuncV, SortedV, Cond

_CACHE = {}
INPUT = "$input"


class Outcome:
    """One path of a sort function for one rule member."""

    def __init__(self, f, value, trace):
        self.f, self.value, self.trace = f, value, trace
        self.sorts = []          # SortedV chain, outermost (= last applied = leading order) first
        v = value
        while isinstance(v, SortedV):
            self.sorts.append(v)
            v = v.base
        self.permutation = isinstance(v, Unk) and v.tag == INPUT
        self.root = v

    @property
    def sorted_call(self):
        return self.sorts[0] if self.sorts else None

    def _module_helpers(self):
        """Module-level helpers of the sort functions: those of their own module and the package functions it imports by name
        (`from ._util import skill_point_list`)."""
        out = {d.name: d for d in self.f.module.tree.body if isinstance(d, ast.FunctionDef) and not d.name.startswith("sort_")}
        from .effects import _REPO
        repo = _REPO[0]
        if repo is not None:
            for st0 in self.f.module.tree.body:
                if isinstance(st0, ast.ImportFrom) and st0.level >= 1:
                    for al in st0.names:
                        fi = repo.functions.get(al.name)
                        if fi is not None and al.asname is None and not al.name.startswith("sort_"):
                            out.setdefault(al.name, fi.node)
        return out

    def key_nodes(self):
        """AST nodes making up the leading key: the lambda / def itself plus the nested helpers it calls (transitively)."""
        s = self.sorted_call
        if s is None or not isinstance(s.key, FuncV):
            return []
        nested = {d.name: d for d in ast.walk(self.f.node) if isinstance(d, ast.FunctionDef) and d is not self.f.node}
        for d in self._module_helpers().values():
            nested.setdefault(d.name, d)   # module-level helpers count like nested ones
        out, todo = [], [s.key.node]
        while todo:
            n = todo.pop()
            if any(n is o for o in out):
                continue
            out.append(n)
            for c in ast.walk(n):
                if isinstance(c, ast.Call) and isinstance(c.func, ast.Name) and c.func.id in nested:
                    todo.append(nested[c.func.id])
                # a nested def passed by name
                if isinstance(c, ast.Name) and isinstance(c.ctx, ast.Load) and c.id in nested and c is not n:
                    todo.append(nested[c.id])
        return out

    def expanded_key(self):
        """The key as one expression over its parameter: calls of helper functions that are values in the environment of the
        sorted() call (nested defs, lambdas, names bound to them per branch) are replaced by their bodies, local aliases inside
        one-return helpers are substituted, and tuple concatenations are flattened.  -> (expr, param name) or (None, None)"""
        import copy
        s = self.sorted_call
        if s is None or not isinstance(s.key, FuncV):
            return None, None
        env = s.env
        modfuncs = self._module_helpers()

        def body_of(fn_node):
            """-> (params, return expression with the def's local single assignments substituted) or None"""
            if isinstance(fn_node, ast.Lambda):
                return [a.arg for a in fn_node.args.args], fn_node.body
            stmts = [b for b in fn_node.body if not (isinstance(b, ast.Expr) and isinstance(b.value, ast.Constant))]
            if not stmts or not isinstance(stmts[-1], ast.Return) or stmts[-1].value is None:
                return None
            sub = {}
            for b in stmts[:-1]:
                if isinstance(b, ast.Assign) and len(b.targets) == 1 and isinstance(b.targets[0], ast.Name):
                    sub[b.targets[0].id] = subst(copy.deepcopy(b.value), sub)
                else:
                    return None
            return [a.arg for a in fn_node.args.args], subst(copy.deepcopy(stmts[-1].value), sub)

        def subst(e, mapping):
            bound = {x.id for c in ast.walk(e) if isinstance(c, ast.comprehension) for x in ast.walk(c.target) if isinstance(x, ast.Name)}

            class T(ast.NodeTransformer):
                def visit_Name(self, n):
                    if isinstance(n.ctx, ast.Load) and n.id in mapping and n.id not in bound:
                        return copy.deepcopy(mapping[n.id])
                    return n
            return T().visit(e)

        def expand(e, depth=0):
            class X(ast.NodeTransformer):
                def visit_Call(self, c):
                    c = self.generic_visit(c)
                    fv = env.get(c.func.id) if isinstance(c.func, ast.Name) else None
                    if fv is None and isinstance(c.func, ast.Name) and c.func.id in modfuncs:
                        fv = FuncV(modfuncs[c.func.id])   # a module-level helper of the sort functions
                    if isinstance(fv, FuncV) and depth < 5 and not c.keywords:
                        b = body_of(fv.node)
                        if b is not None and len(b[0]) == len(c.args):
                            return expand(subst(copy.deepcopy(b[1]), dict(zip(b[0], c.args))), depth + 1)
                        if b is not None and len(b[0]) > len(c.args) and not isinstance(fv.node, ast.Lambda):
                            dfl = fv.node.args.defaults
                            m = dict(zip(b[0][len(b[0]) - len(dfl):], dfl))
                            m.update(dict(zip(b[0], c.args)))
                            if set(b[0]) <= set(m):
                                return expand(subst(copy.deepcopy(b[1]), m), depth + 1)
                    return c

                def visit_BinOp(self, n):
                    n = self.generic_visit(n)
                    if isinstance(n.op, ast.Add) and isinstance(n.left, ast.Tuple) and isinstance(n.right, ast.Tuple):
                        return ast.copy_location(ast.Tuple(elts=list(n.left.elts) + list(n.right.elts), ctx=ast.Load()), n)
                    return n
            return X().visit(e)
        b = body_of(s.key.node)
        if b is None or not b[0]:
            return None, None
        e = expand(copy.deepcopy(b[1]))
        ast.fix_missing_locations(e)
        return e, b[0][0]

    def lead(self):
        """-> (leading key expression, negated?) of the outermost sort, or (None, False)."""
        s = self.sorted_call
        if s is None or not isinstance(s.key, FuncV):
            return None, False
        n = s.key.node
        ek, _p = self.expanded_key()
        if ek is not None:
            e = ek
        elif isinstance(n, ast.Lambda):
            e = n.body
        else:
            rets = [r for r in ast.walk(n) if isinstance(r, ast.Return)]
            if len(rets) != 1 or rets[0].value is None:
                return n, False   # whole def: reads of every statement
            e = rets[0].value
        if isinstance(e, ast.Tuple) and e.elts:
            e = e.elts[0]
        neg = False
        if isinstance(e, ast.UnaryOp) and isinstance(e.op, ast.USub):
            neg, e = True, e.operand
        return e, neg

    def key_param(self):
        s = self.sorted_call
        if s is None or not isinstance(s.key, FuncV):
            return None
        ek, p = self.expanded_key()
        if ek is not None:
            return p
        a = s.key.node.args.args
        return a[0].arg if a else None

    def reverse(self):
        s = self.sorted_call
        if s is None:
            return None
        r = s.reverse
        if isinstance(r, Const) and isinstance(r.v, bool):
            return r.v
        raise AnalysisError(f"sorters: `reverse=` of `{ast.unparse(s.node)[:60]}` in {self.f.qualname} is not a constant on this path ({r!r})")

    def direction(self):
        if self.sorted_call is None:
            return None
        _, neg = self.lead()
        return "desc" if (self.reverse() != neg) else "asc"

    def reads(self):
        e, _ = self.lead()
        if e is None:
            return set()
        out = set()
        nodes = [e] + [n for n in self.key_nodes()[1:]]
        if isinstance(e, ast.FunctionDef):
            nodes = self.key_nodes()
        # helpers called from the leading expression only
        nested = {d.name: d for d in ast.walk(self.f.node) if isinstance(d, ast.FunctionDef) and d is not self.f.node}
        seen, todo, scan = set(), [e], []
        while todo:
            n = todo.pop()
            if id(n) in seen:
                continue
            seen.add(id(n))
            scan.append(n)
            for c in ast.walk(n):
                if isinstance(c, ast.Call) and isinstance(c.func, ast.Name) and c.func.id in nested:
                    todo.append(nested[c.func.id])
        for root in scan:
            stmts = root.body if isinstance(root, ast.FunctionDef) else [root]
            for stn in stmts:
                method_funcs = {id(n.func) for n in ast.walk(stn) if isinstance(n, ast.Call) and isinstance(n.func, ast.Attribute)}
                for n in ast.walk(stn):
                    if isinstance(n, ast.Attribute) and id(n) not in method_funcs:
                        out.add(n.attr)
                    if isinstance(n, ast.Call) and isinstance(n.func, ast.Attribute) and n.func.attr not in ("values", "get", "items", "keys"):
                        out.add(n.func.attr + "()")
        return {r for r in out if r not in ("name",)}

    def kwargs_needed(self):
        """kwargs keys this path reads by subscript without a membership guard."""
        kw = self.f.kwarg
        if not kw:
            return set()
        need, guarded = set(), set()
        for ev in flatten(self.trace):
            if isinstance(ev, Cond) and ev.truth:
                t = ev.text.replace('"', "'").replace(" ", "")
                if t.endswith(f"in{kw}") and t.startswith("'"):
                    guarded.add(t[1:t.index("'", 1)])
        # subscripts evaluated on this path: those in statements the path executed (approximated by the function body
        # outside nested defs / other branches is path-sensitive only through the trace) -- so read them from the keys
        ek, _p = self.expanded_key()
        for root in self.key_nodes() + ([ek] if ek is not None else []):
            for n in ast.walk(root):
                if isinstance(n, ast.Subscript) and isinstance(n.value, ast.Name) and n.value.id == kw and isinstance(n.slice, ast.Constant):
                    need.add(n.slice.value)
                if isinstance(n, ast.Compare) and isinstance(n.left, ast.Constant) and any(isinstance(c, ast.Name) and c.id == kw for c in n.comparators):
                    guarded.add(n.left.value)
        for k in self.subscripts:
            need.add(k)
        return need - guarded


def mode_param(f):
    for p in f.params[1:]:
        if "rule" in p or "mode" in p:
            return p
    return f.params[1] if len(f.params) > 1 else None


def sorter_table(ctx, fname):
    """-> (func, {member: [Outcome, ...]}) for a sort function, over every member of the enum of its rule parameter."""
    key = (id(ctx.repo), fname)
    if key in _CACHE:
        return _CACHE[key]
    f = ctx.repo.func(fname)
    mp = mode_param(f)
    enum = None
    if mp and mp in f.defaults:
        en = ctx.repo.enum_of_member_expr(f.defaults[mp])
        enum = en[0] if en else None
    if enum is None:
        raise AnalysisError(f"sorters: cannot tell the rule enum of {fname} from the default of `{mp}`")
    table = {}
    for member in ctx.repo.enums[enum]:
        I = mk_interp(ctx, inline=lambda call, callee, depth: False, max_paths=400)
        I.log_kw = (f.kwarg, [])
        bind = {f.params[0]: Unk(INPUT), mp: E(enum, member)}
        if f.kwarg:
            bind[f.kwarg] = Unk("$kwargs")
        outs = I.run_function(f, bind=bind)
        res = []
        for st, ex in outs:
            if ex is not None and ex[0] == "raise":
                continue
            val = ex[1] if ex is not None and ex[0] == "return" else Const(None)
            o = Outcome(f, val, st.trace)
            o.subscripts = {e.key for e in flatten(st.trace) if getattr(e, "kind", None) == "kwread"}
            res.append(o)
        table[member] = res
    _CACHE[key] = (f, enum, table)
    return _CACHE[key]


def is_permutation_sorter(ctx, fname):
    try:
        f, enum, table = sorter_table(ctx, fname)
    except AnalysisError:
        return False
    return all(outs and all(o.permutation for o in outs) for outs in table.values())
