"""Check context: rule bookkeeping, findings, known-findings matching, evidence and replay files."""
import json
import os
import re
import time

from .errors import AnalysisError

T_START = time.time()
VERIF = os.path.dirname(os.path.dirname(os.path.abspath(__file__)))
KNOWN_FILE = os.path.join(VERIF, "KNOWN_FINDINGS.txt")
EVIDENCE_DIR = os.environ.get("VERIF_EVIDENCE_DIR") or os.path.join(VERIF, "evidence")
REPLAY_DIR = os.path.join(EVIDENCE_DIR, "replay")


class Finding:
    def __init__(self, rule, construct, loc, message, detail=None):
        self.rule = rule
        self.construct = construct  # normalised construct key (no line numbers)
        self.loc = loc
        self.message = message
        self.detail = detail or {}

    @property
    def key(self):
        return f"{self.rule}:{self.construct}"


def load_known():
    known, fixed = {}, []
    if not os.path.exists(KNOWN_FILE):
        return known, fixed
    for line in open(KNOWN_FILE, encoding="utf-8"):
        line = line.strip()
        if not line or line.startswith("#"):
            continue
        m = re.match(r"^known:\s+property=(C\d+)\s+key=(\S+)\s+(.*)$", line)
        if m:
            known.setdefault(m.group(1), {})[m.group(2)] = m.group(3)
            continue
        m = re.match(r"^fixed:\s+property=(C\d+)\s+(\S+)\s+(.*)$", line)
        if m:
            fixed.append((m.group(1), m.group(2), m.group(3)))
    return known, fixed


class Ctx:
    def __init__(self, prop, tier, seed, repo, types, eff):
        self.prop = prop
        self.tier = tier
        self.seed = seed
        self.repo, self.types, self.eff = repo, types, eff
        self.findings = []
        self.rules = {}  # rule id -> dict(text, instances, cells, floor, status)
        self.samples = []
        self.notes = []
        self.assumptions = []
        self.informational = {}
        self._cur = None
        self.t0 = T_START

    @property
    def thorough(self):
        return self.tier == "thorough"

    # -- rule bookkeeping ---------------------------------------------------------------
    def begin(self, rule, text, floor=1):
        self._cur = rule
        self.rules[rule] = {"text": text, "instances": 0, "cells": 0, "floor": floor, "constructs": set(), "violations": 0}

    def instance(self, construct, cells=1, sample=None):
        """Register one rule instance (obligation) that was examined, with `cells` table cells/paths."""
        r = self.rules[self._cur]
        r["instances"] += 1
        r["cells"] += cells
        r["constructs"].add(str(construct))
        if sample is not None and len(self.samples) < 60:
            self.samples.append({"rule": self._cur, "construct": str(construct), **sample})

    def cells(self, n):
        self.rules[self._cur]["cells"] += n

    def violation(self, construct, loc, message, detail=None, rule=None):
        rule = rule or self._cur
        self.rules[rule]["violations"] += 1
        self.findings.append(Finding(rule, construct, loc, message, detail))

    def end(self):
        r = self.rules[self._cur]
        if r["instances"] < r["floor"]:
            raise AnalysisError(
                f"rule {self._cur}: matched {r['instances']} instance(s), below the floor of {r['floor']} confirmed by hand "
                f"-- an anchor moved or an idiom is no longer recognised")
        self._cur = None

    def require(self, cond, msg):
        if not cond:
            raise AnalysisError(f"rule {self._cur}: {msg}")

    def note(self, s):
        self.notes.append(s)


def safe_name(s):
    return re.sub(r"[^A-Za-z0-9_.-]+", "_", s)[:120]


def finish(ctx, level_text, explanation, assumptions, trusted_base, cmd, exhaustive=False):
    """Classify findings against KNOWN_FINDINGS, print the verdict lines, write evidence. -> exit code."""
    known, fixed = load_known()
    kn = known.get(ctx.prop, {})
    viol, kf = [], []
    for f in ctx.findings:
        if f.key in kn:
            kf.append(f)
        else:
            viol.append(f)
    os.makedirs(REPLAY_DIR, exist_ok=True)
    # stale replay files of this property are removed so that the directory reflects this run
    for fn in os.listdir(REPLAY_DIR):
        if fn.startswith(ctx.prop + "-"):
            try:
                os.remove(os.path.join(REPLAY_DIR, fn))
            except OSError:
                pass
    seen_known = set()
    for f in kf:
        if f.key in seen_known:
            continue
        seen_known.add(f.key)
        print(f"KNOWN-FINDING: property={ctx.prop} key={f.key} {f.loc} {f.message}")
    for k in kn:
        if k not in seen_known:
            print(f"NOTE: listed known finding no longer reported: property={ctx.prop} key={k}")
    uniq, seen_v = [], set()
    for f in viol:
        if f.key not in seen_v:
            seen_v.add(f.key)
            uniq.append(f)
    viol = uniq
    for f in viol:
        path = os.path.join(REPLAY_DIR, f"{ctx.prop}-{safe_name(f.key)}.json")
        with open(path, "w", encoding="utf-8") as fh:
            json.dump({
                "property": ctx.prop, "rule": f.rule, "rule_text": ctx.rules.get(f.rule, {}).get("text", ""),
                "construct": f.construct, "key": f.key, "location": f.loc, "message": f.message,
                "detail": f.detail, "src_root": ctx.repo.root,
            }, fh, indent=1, default=str)
        print(f"VIOLATION property={ctx.prop} replay={path}")
        print(f"  rule {f.rule} at {f.loc}: {f.message}")
    obligations = sum(r["instances"] for r in ctx.rules.values())
    bad = len({f.key for f in ctx.findings})
    cells = sum(r["cells"] for r in ctx.rules.values())
    distinct = len({(rid, c) for rid, r in ctx.rules.items() for c in r["constructs"]})
    wall = time.time() - ctx.t0
    rules_out = {
        rid: {"text": r["text"], "instances": r["instances"], "cells_or_paths": r["cells"], "floor": r["floor"],
              "violations": r["violations"]}
        for rid, r in ctx.rules.items()
    }
    ev = {
        "property_id": ctx.prop,
        "tier": ctx.tier,
        "seed": ctx.seed,
        "level": "other",
        "coverage": {
            "explanation": explanation,
            "obligations": obligations,
            "discharged": max(0, obligations - bad),
            "evaluations": cells,
            "distinct_nontrivial": distinct,
            "rule": "one evaluation = one table cell / path / call site examined by a rule; distinct_nontrivial = "
                    "distinct (rule, construct) pairs on which a rule had something to check (constructs are keyed by "
                    "class.method and role, not by line)",
            "samples": ctx.samples[:40] or [{"note": "no instance"}],
            "exhaustive": bool(exhaustive),
            "checker_cmd": cmd,
            "trusted_base": trusted_base,
            "rules": rules_out,
            "source_digest": ctx.repo.digest.hexdigest()[:16],
            "source_root": ctx.repo.root,
            "modules_parsed": len(ctx.repo.modules),
            "functions_parsed": len(ctx.repo.all_funcs()),
            "call_resolution": ctx.eff.stats,
            "known_findings_reported": sorted(seen_known),
            "claim": level_text,
            "notes": ctx.notes,
            "informational": ctx.informational,
        },
        "assumptions": assumptions + ctx.assumptions,
        "wall_s": round(wall, 3),
        "violations": len(viol),
    }
    os.makedirs(EVIDENCE_DIR, exist_ok=True)
    with open(os.path.join(EVIDENCE_DIR, f"{ctx.prop}.json"), "w", encoding="utf-8") as fh:
        json.dump(ev, fh, indent=1, default=str)
    for rid, r in ctx.rules.items():
        print(f"  {rid}: {r['instances']} instance(s), {r['cells']} cell(s)/path(s), {r['violations']} hit(s) -- {r['text']}")
    print(f"{ctx.prop} [{ctx.tier}] rules={len(ctx.rules)} obligations={obligations} findings={len(ctx.findings)} "
          f"known={len(kf)} violations={len(viol)} wall={wall:.2f}s")
    return 1 if viol else 0
