"""C20 -- a sub-project task lasts exactly as long as the sub-project it stands for."""
import ast

from ..common import *
from ..errors import AnalysisError

CLAIM = ("Every armed rule instance held: (R20.1) on every path of set_all_attributes_from_json on which the loaded project is not "
         "FINISHED_SUCCESS a warning is issued, the method returns, and nothing of the task was written before; (R20.2) on the "
         "accepting paths default_work_amount is stored from the loaded project's time, read after the optional "
         "remove_absence_time_list() call, which happens exactly when the flag is set, and unit_timedelta is stored from the "
         "loaded project's; (R20.3) set_work_amount_progress_of_unit_step_time stores the quotient parent unit / own unit; "
         "(R20.4) the constructor defaults auto_task to True and hands it to BaseTask, so the task needs no workers (with C06 "
         "R6.2 and C02 R2.3: automatic tasks start at once and progress by the unit rate). 'Occupies exactly "
         "ceil(d*u_sub/u_parent) steps' is arithmetic over run-time values and is not decided.")
EXPLANATION = ("Path enumeration of set_all_attributes_from_json with event-order queries; symbolic quotient of the rate setter; "
               "constructor default and argument forwarding.")
ASSUMPTIONS = ["read_simple_json restores status/time/unit_timedelta faithfully (C16)"]
TECHNIQUE = "path enumeration with event-order / must-not-write queries + symbolic normal form"

SUB = "BaseSubProjectTask"


def r20_1_2(ctx):
    f = ctx.repo.method(SUB, "set_all_attributes_from_json")
    ctx.begin("R20.1", "refusal path: warn, return, nothing written", floor=1)
    results = []
    for flag in (True, False):
        I = mk_interp(ctx, inline=lambda call, callee, depth: callee.cls == SUB, max_depth=3)  # private helpers of the class are followed
        outs = I.run_function(f, bind={"file_path": Const("x.json"), "remove_absence_time_list": Const(flag)})
        full = set(ctx.repo.enums["BaseProjectStatus"])
        for st, ex in outs:
            # the status test, however it is written (directly, through a helper's boolean result): the path condition that
            # narrowed the loaded project's status
            sv0 = [v for k, v in st.heap.items() if k[1] == "status" and k[0] != "self" and isinstance(v, EnumSet)]
            narrowed = bool(sv0) and set(sv0[0].members) != full
            evs0 = flatten(st.trace)
            reads = [i for i, e in enumerate(evs0) if isinstance(e, Call) and e.name.endswith("read_simple_json")]
            conds = [e for e in evs0[(reads[0] if reads else 0):] if isinstance(e, Cond) and e.forked][:1] if narrowed else []
            results.append((flag, st, ex, conds))
    refused = 0
    for flag, st, ex, conds in results:
        stores = [e for e in flatten(st.trace) if isinstance(e, Store) and isinstance(e.recv, Obj) and e.recv.name == "self"]
        warns = [e for e in flatten(st.trace) if isinstance(e, Call) and e.name.endswith("warn")]
        accepted = bool([s for s in stores if s.attr == "default_work_amount"])
        sv = [v for k, v in st.heap.items() if k[1] == "status" and k[0] != "self" and isinstance(v, EnumSet)]
        members = set(sv[0].members) if sv and isinstance(sv[0], EnumSet) else set(ctx.repo.enums["BaseProjectStatus"])
        if not conds:
            continue
        not_success = "FINISHED_SUCCESS" not in members
        if not not_success and members != {"FINISHED_SUCCESS"} and accepted:
            ctx.instance(construct(f, f"accept-flag={flag}"))
            ctx.violation(construct(f, "accepts-unsuccessful"), stores[0].loc, f"the task is configured although the loaded project's status may be {sorted(members - {'FINISHED_SUCCESS'})}")
        if not_success:
            refused += 1
            ctx.instance(construct(f, f"refusal-flag={flag}"), sample={"stores": [s.attr for s in stores], "warned": bool(warns)})
            if stores:
                ctx.violation(construct(f, "refusal-writes:" + stores[0].attr), stores[0].loc, f"configuring from a project that was not simulated successfully still writes self.{stores[0].attr}: the refusal must leave the task unchanged")
            if not warns:
                ctx.violation(construct(f, "refusal-no-warning"), f.loc(), "configuring from a project that was not simulated successfully is refused without a warning")
            if ex is None or ex[0] != "return":
                ctx.violation(construct(f, "refusal-no-return"), f.loc(), "the refusal path does not return")
    if not any(c for _, _, _, c in results):
        ctx.instance(construct(f, "status-test"))
        ctx.violation(construct(f, "no-status-test"), f.loc(), "set_all_attributes_from_json never tests the loaded project's status")
    elif refused == 0:
        ctx.violation(construct(f, "no-refusal-path"), f.loc(), "no path refuses a project whose status is not FINISHED_SUCCESS")
    # stores before the status test on any path
    for flag, st, ex, conds in results:
        evs = flatten(st.trace)
        if conds:
            idx = evs.index(conds[0])
            early = [e for e in evs[:idx] if isinstance(e, Store) and isinstance(e.recv, Obj) and e.recv.name == "self"]
            if early:
                ctx.violation(construct(f, "write-before-status-test:" + early[0].attr), early[0].loc, f"self.{early[0].attr} is written before the loaded project's status is tested")
    ctx.end()

    ctx.begin("R20.2", "accepting path: work amount = loaded project's time after the optional absence removal; unit from the project", floor=2)
    acc = 0
    for flag, st, ex, conds in results:
        evs = flatten(st.trace)
        stores = {e.attr: e for e in evs if isinstance(e, Store) and isinstance(e.recv, Obj) and e.recv.name == "self"}
        if "default_work_amount" not in stores:
            continue
        acc += 1
        ctx.instance(construct(f, f"accept-flag={flag}"), sample={"stores": sorted(stores)})
        dwa = stores["default_work_amount"]
        rm = [e for e in evs if isinstance(e, Call) and e.name.endswith("remove_absence_time_list") and e.callees]
        if flag and (len(rm) != 1 or evs.index(rm[0]) > evs.index(dwa)):
            ctx.violation(construct(f, "duration-before-absence-removal"), dwa.loc, "with remove_absence_time_list=True the duration is taken before (or without) removing the absence steps of the loaded project")
        if not flag and rm:
            ctx.violation(construct(f, "absence-removal-unconditional"), rm[0].loc, "absence steps of the loaded project are removed although remove_absence_time_list=False")
        for r0 in rm:
            if not (isinstance(r0.recv, Obj) and r0.recv.name.startswith("new")):
                ctx.violation(construct(f, "mutates-shared-project"), r0.loc,
                              "remove_absence_time_list() edits the loaded project in place, but that project is not an object created in this call (cached / shared): "
                              "a later configuration from the same file sees the already shortened result")
        v = dwa.value
        projs = [k[0] for k in st.heap if k[1] == "status" and k[0] != "self"]
        pname = projs[0] if projs else ":BaseProject"
        if not (isinstance(v, (Poly, Unk)) and (pname + ".time") in repr(v).replace("~", "#").replace(pname.replace("~", "#"), pname)):
            ctx.violation(construct(f, "duration-source"), dwa.loc, f"default_work_amount is set from `{v!r}`, not from the loaded project's time")
        u = stores.get("unit_timedelta")
        if u is None or ".unit_timedelta" not in repr(u.value) or "self.unit_timedelta" in repr(u.value):
            ctx.violation(construct(f, "unit-source"), (u or dwa).loc, "unit_timedelta of the sub-project task is not taken from the loaded project")
        rcall = [e for e in evs if isinstance(e, Call) and e.name.endswith("read_simple_json")]
        created_here = pname.startswith("new")
        if created_here and (not rcall or evs.index(rcall[0]) > evs.index(dwa)):
            ctx.violation(construct(f, "not-loaded"), dwa.loc, "the duration is taken without loading the saved project first")
    ctx.require(acc >= 1 or any(True for _ in ctx.findings), "no accepting path found")
    ctx.end()


def r20_3(ctx):
    ctx.begin("R20.3", "rate = parent unit / own unit", floor=1)
    g = ctx.repo.method(SUB, "set_work_amount_progress_of_unit_step_time")
    p = g.params[1]
    I = mk_interp(ctx)
    outs = I.run_function(g, bind={p: Poly.sym("PARENT")}, heap={("self", "unit_timedelta"): Poly.sym("OWN")})
    for st, ex in outs:
        v = st.heap.get(("self", "work_amount_progress_of_unit_step_time"))
        ctx.instance(construct(g, "rate"), sample={"value": repr(v)})
        if repr(v) != "(PARENT)/(OWN)":
            ctx.violation(construct(g, "rate-orientation"), g.loc(), f"work_amount_progress_of_unit_step_time is set to `{v!r}` (expected parent unit / own unit: a parent step covers that many sub-project steps)")
    ctx.end()


def r20_4(ctx):
    ctx.begin("R20.4", "sub-project tasks are automatic by default", floor=1)
    init = ctx.repo.classes[SUB].methods.get("__init__")
    ctx.require(init is not None, "BaseSubProjectTask.__init__ not found")
    d = init.defaults.get("auto_task")
    ctx.instance(construct(init, "auto-default"))
    if not (isinstance(d, ast.Constant) and d.value is True):
        ctx.violation(construct(init, "auto-default"), init.loc(), "BaseSubProjectTask.__init__ does not default auto_task to True: the task would wait for workers that nobody assigns")
    fwd = False
    for n in ast.walk(init.node):
        if isinstance(n, ast.Call) and isinstance(n.func, ast.Attribute) and n.func.attr == "__init__":
            for kw in n.keywords:
                if kw.arg == "auto_task" and isinstance(kw.value, ast.Name) and kw.value.id == "auto_task":
                    fwd = True
    if not fwd:
        ctx.violation(construct(init, "auto-forwarded"), init.loc(), "auto_task is not handed to BaseTask.__init__")
    ctx.end()


def run(ctx):
    r20_1_2(ctx)
    r20_3(ctx)
    r20_4(ctx)
    # "the sub-project's duration without its absence steps" is what BaseProject.remove_absence_time_list leaves in project.time
    from .C18 import check as absence_editors
    absence_editors(ctx)
    # the loaded project's time / status / unit_timedelta are what write_simple_json saved (C16 project table)
    from .C16 import r16_1, r16_7
    from ..jsontab import JsonTables
    J = JsonTables(ctx)
    r16_1(ctx, J)
    # ... and a sub-project task that is rebuilt through its constructor (a reloaded parent project) keeps the relation of its unit
    # time to the parent's only if the constructor hands every saved value on to the base class
    r16_7(ctx, J)
    # a sub-project result that comes from a backward run: its absence steps are re-mapped by reverse_log_information
    from .C18 import r18_5
    r18_5(ctx)
    # "occupies exactly ceil(...) consecutive *working* steps of the parent": a sub-project task is an automatic task -- it must stand
    # still on the parent's absence steps unless this very run asks automatic tasks to go on (C10's rule on the flag's value)
    from .C10 import r10_6
    r10_6(ctx)
    # "occupies exactly ceil(...) steps": the step at which the task's remaining work counts as used up is decided by the finish
    # check's absolute tolerance (0.1-sized progress steps leave residues like 1e-16)
    from .C02 import r2_5
    r2_5(ctx)
    # "starting as soon as its dependencies allow ... any position in the parent workflow": a predecessor that has started *and
    # finished* still counts as started (C05 R5.3: gates are upward closed), otherwise the sub-project task never starts
    from .C05 import r5_3
    r5_3(ctx)
