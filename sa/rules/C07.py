"""C07 -- cost accounting adds up at every level and charges only working resources."""
import ast
import itertools

from ..common import *
from ..errors import AnalysisError
from ..simstruct import loop_paths, _closure_effects

CLAIM = ("Every armed rule instance held: (R7.1) for both siblings (team/workers, workplace/facilities) and every flag and "
         "state valuation of two members, each member gets exactly one cost entry per call, the amount added to the running "
         "sum equals the entry, the sum is appended once to the owner's cost list and returned; (R7.2) the organization adds "
         "the return value of every team and workplace once, appends and returns it, and simulate() appends exactly that "
         "value to the project's list; (R7.3) with the flags simulate() passes, a member is charged cost_per_time iff its "
         "state is WORKING on a working step and 0 on a project-wide absence step; (R7.4) nothing between charging and "
         "recording can change a worker's or facility's state, and charging follows the READY->WORKING update. "
         "The arithmetic identity over a finished run follows by summation and is not observed.")
EXPLANATION = ("Exhaustive decision tables of the four add_labor_cost methods by abstract interpretation with concrete "
               "two-element member lists and symbolic cost rates (polynomial equality); effect-closure query for the "
               "charge-to-record window on the enumerated loop paths.")
ASSUMPTIONS = ["cost_per_time is not changed during a run (no writer exists in simulation-reachable code; checked in R7.4)"]
EXHAUSTIVE = True  # the deciding tables range over the complete finite domain
TECHNIQUE = "finite-domain decision tables with symbolic sums (polynomial normal form) + effect-closure window check"

SIBS = [
    (TEAM, "worker_list", WORKER, WS, "add_zero_to_all_workers"),
    (WORKPLACE, "facility_list", FACILITY, FS_, "add_zero_to_all_facilities"),
]


def member_run(ctx, owner, coll, mcls, enum, zero_flag, flags, states):
    """Interpret owner.add_labor_cost with concrete members. -> list of (appends per member, own appends, return)."""
    f = ctx.repo.method(owner, "add_labor_cost")
    members = [Obj(f"m{i}", mcls) for i in range(len(states))]
    heap = {}
    for m, s in zip(members, states):
        heap[(m.name, "state")] = E(enum, s)
        heap[(m.name, "cost_per_time")] = Poly.sym(f"{m.name}.cpt")
    I = mk_interp(ctx, collections={f"self.{coll}": members})
    bind = {"only_working": Const(flags[0]), zero_flag: Const(flags[1])}
    outs = I.run_function(f, bind=bind, heap=heap)
    res = []
    for st, ex in outs:
        per = {m.name: [] for m in members}
        own = []
        for e in events(st.trace, "mut"):
            if e.attr == "cost_list" and e.op == "append":
                if isinstance(e.recv, Obj) and e.recv.name in per:
                    per[e.recv.name].append(e.args[0])
                elif isinstance(e.recv, Obj) and e.recv.name == "self":
                    own.append(e.args[0])
        ret = ex[1] if ex and ex[0] == "return" else None
        res.append((per, own, ret, st))
    return f, members, res


def r7_1(ctx):
    ctx.begin("R7.1", "member cost tables: one entry per member, increment == entry, owner appends and returns the sum", floor=2)
    for owner, coll, mcls, enum, zero_flag in SIBS:
        f = ctx.repo.method(owner, "add_labor_cost")
        ctx.require(zero_flag in f.params, f"{owner}.add_labor_cost lost its `{zero_flag}` parameter")
        states = list(ctx.repo.enums[enum])
        n = 0
        for flags in itertools.product((True, False), repeat=2):
            for combo in itertools.product(states, repeat=2):
                f, members, res = member_run(ctx, owner, coll, mcls, enum, zero_flag, flags, combo)
                for per, own, ret, st in res:
                    n += 1
                    key = f"only_working={flags[0]},{zero_flag}={flags[1]},states={combo}"
                    total = Poly()
                    for m in members:
                        if len(per[m.name]) != 1:
                            ctx.violation(construct(f, "one-entry-per-member"), f.loc(), f"{key}: member gets {len(per[m.name])} cost entries in one call (expected exactly 1)")
                            continue
                        v = per[m.name][0]
                        if not isinstance(v, Poly):
                            ctx.violation(construct(f, "entry-value"), f.loc(), f"{key}: cost entry is not a number/cost rate: {v!r}")
                            continue
                        total = total + v
                    if len(own) != 1:
                        ctx.violation(construct(f, "owner-entry"), f.loc(), f"{key}: owner appends {len(own)} entries to its own cost_list (expected 1)")
                    elif own[0] != total:
                        ctx.violation(construct(f, "sum-equals-entries"), f.loc(),
                                      f"{key}: owner's entry `{own[0]!r}` differs from the sum of its members' entries `{total!r}`")
                    if ret != total:
                        ctx.violation(construct(f, "returns-sum"), f.loc(), f"{key}: returns `{ret!r}` but members were charged `{total!r}`")
        ctx.instance(construct(f, "table"), cells=n, sample={"owner": owner, "cells": n})
    ctx.end()


def org_run(ctx, flags, wstate, fstate, call_args=None):
    """Interpret BaseOrganization.add_labor_cost with one team (one worker) and one workplace (one facility), callees inlined."""
    f = ctx.repo.method(ORG, "add_labor_cost")
    tm, wp, w, fa = Obj("tm", TEAM), Obj("wp", WORKPLACE), Obj("w", WORKER), Obj("fa", FACILITY)
    heap = {("w", "state"): E(WS, wstate), ("fa", "state"): E(FS_, fstate),
            ("w", "cost_per_time"): Poly.sym("w.cpt"), ("fa", "cost_per_time"): Poly.sym("fa.cpt")}
    colls = {"self.team_list": [tm], "self.workplace_list": [wp], "tm.worker_list": [w], "wp.facility_list": [fa]}
    I = mk_interp(ctx, inline=lambda call, callee, depth: callee.name == "add_labor_cost", collections=colls, max_depth=3)
    bind = dict(flags)
    bind["__defaults__"] = True
    outs = I.run_function(f, bind=bind, heap=heap)
    res = []
    for st, ex in outs:
        ent = {"w": [], "fa": [], "tm": [], "wp": [], "self": []}
        for e in events(st.trace, "mut"):
            if e.attr == "cost_list" and e.op == "append" and isinstance(e.recv, Obj) and e.recv.name in ent:
                ent[e.recv.name].append(e.args[0])
        res.append((ent, ex[1] if ex and ex[0] == "return" else None))
    return f, res


def r7_2(ctx):
    ctx.begin("R7.2", "organization = sum over teams and workplaces, appended once, returned; project appends that value", floor=3)
    f = ctx.repo.method(ORG, "add_labor_cost")
    n = 0
    for ow in (True, False):
        for zw in (True, False):
            for zf in (True, False):
                for ws in ctx.repo.enums[WS]:
                    for fs in ctx.repo.enums[FS_]:
                        _, res = org_run(ctx, {"only_working": Const(ow), "add_zero_to_all_workers": Const(zw), "add_zero_to_all_facilities": Const(zf)}, ws, fs)
                        for ent, ret in res:
                            n += 1
                            key = f"only_working={ow},zero_workers={zw},zero_facilities={zf},worker={ws},facility={fs}"
                            if any(len(v) != 1 for v in ent.values()):
                                ctx.violation(construct(f, "one-entry-per-level"), f.loc(), f"{key}: entries per level {[(k, len(v)) for k, v in ent.items()]} (expected 1 each)")
                                continue
                            if not all(isinstance(v[0], Poly) for v in ent.values()):
                                ctx.violation(construct(f, "entry-value"), f.loc(), f"{key}: non-numeric cost entry {ent}")
                                continue
                            if ent["tm"][0] != ent["w"][0] or ent["wp"][0] != ent["fa"][0]:
                                ctx.violation(construct(f, "level-sum"), f.loc(), f"{key}: team/workplace entry differs from its members' sum")
                            tot = ent["tm"][0] + ent["wp"][0]
                            if ent["self"][0] != tot:
                                ctx.violation(construct(f, "org-sum"), f.loc(), f"{key}: organization entry `{ent['self'][0]!r}` != teams + workplaces `{tot!r}`")
                            if ret != tot:
                                ctx.violation(construct(f, "org-returns-sum"), f.loc(), f"{key}: organization returns `{ret!r}` != `{tot!r}`")
    ctx.instance(construct(f, "table"), cells=n)
    # traversal completeness: with two teams and two workplaces each is charged once
    tms, wps = [Obj("tm0", TEAM), Obj("tm1", TEAM)], [Obj("wp0", WORKPLACE), Obj("wp1", WORKPLACE)]
    I = mk_interp(ctx, collections={"self.team_list": tms, "self.workplace_list": wps})
    outs = I.run_function(f, bind={"__defaults__": True})
    for st, ex in outs:
        calls = [e for e in st.trace if isinstance(e, Call) and e.callees and e.callees[0].endswith(".add_labor_cost")]
        per = {}
        for c in calls:
            per[c.recv.name if isinstance(c.recv, Obj) else "?"] = per.get(c.recv.name if isinstance(c.recv, Obj) else "?", 0) + 1
        ctx.instance(construct(f, "traversal"), sample={"calls": per})
        if per != {"tm0": 1, "tm1": 1, "wp0": 1, "wp1": 1}:
            ctx.violation(construct(f, "traversal"), f.loc(), f"organization does not charge every team and workplace exactly once: {per}")
        tot = Poly()
        for c in calls:
            if isinstance(c.ret, Poly):
                tot = tot + c.ret
            elif isinstance(c.ret, Unk):
                tot = tot + Poly.sym(c.ret.tag)
        ret = ex[1] if ex and ex[0] == "return" else None
        if ret != tot:
            ctx.violation(construct(f, "org-returns-sum"), f.loc(), f"organization returns `{ret!r}`, not the sum of its teams' and workplaces' results `{tot!r}`")
    # project level
    sf, loop = sim_loop(ctx)
    for i, p in enumerate(loop_paths(ctx, key="plain")):
        costs = [e for c, e in p["phases"] if c == "cost"]
        apps = [e for c, e in p["phases"] if c == "project-cost"]
        if not costs and not apps:
            continue
        ctx.instance(construct(sf, f"project-cost-path-{i}"))
        if len(costs) != 1 or len(apps) != 1:
            ctx.violation(construct(sf, "project-cost-once"), (apps or costs)[0].loc, f"a step charges the organization {len(costs)} time(s) and appends {len(apps)} project cost entries (expected 1 and 1)")
        elif not (apps[0].args and costs[0].ret is not None and apps[0].args[0] == costs[0].ret):
            ctx.violation(construct(sf, "project-cost-value"), apps[0].loc, f"project cost entry `{apps[0].args}` is not the organization's return value")
    ctx.end()


def r7_3(ctx):
    ctx.begin("R7.3", "with simulate()'s flags: charged cost_per_time iff WORKING (working step); 0 for everyone (absence step)", floor=2)
    from ..simstruct import working_of
    sf, loop = sim_loop(ctx)
    f = ctx.repo.method(ORG, "add_labor_cost")
    seen = set()
    for p in loop_paths(ctx, key="plain"):
        w = working_of(p)
        for c, e in p["phases"]:
            if c != "cost" or (id(e.node), w) in seen:
                continue
            seen.add((id(e.node), w))
            flags = {}
            for k, v in e.args.items():
                if isinstance(k, str) and k in f.params:
                    flags[k] = v
                elif isinstance(k, int) and k + 1 < len(f.params):
                    flags[f.params[k + 1]] = v
            ctx.require(w is not None, "cost call on a path where `working` is not decided")
            n = 0
            for ws in ctx.repo.enums[WS]:
                for fs in ctx.repo.enums[FS_]:
                    _, res = org_run(ctx, flags, ws, fs)
                    for ent, ret in res:
                        n += 1
                        for who, stt, sym in (("w", ws, "w.cpt"), ("fa", fs, "fa.cpt")):
                            exp = Poly.sym(sym) if (w and stt == "WORKING") else Poly.const(0)
                            got = ent[who][0] if len(ent[who]) == 1 else None
                            if got != exp:
                                kind = "working" if w else "absence"
                                ctx.violation(construct(sf, f"cost-flags-{kind}-step"), e.loc,
                                              f"on a {kind} step a {'worker' if who == 'w' else 'facility'} in state {stt} is charged `{got!r}` (expected `{exp!r}`) "
                                              f"with the flags passed here: { {k: repr(v) for k, v in flags.items()} }")
            ctx.instance(construct(sf, f"cost-call-working={w}"), cells=n, sample={"working": w, "flags": {k: repr(v) for k, v in flags.items()}})
    ctx.end()


def r7_4(ctx):
    ctx.begin("R7.4", "no writer of worker/facility state or cost rate between charge and record; charge after working-check", floor=2)
    sf, loop = sim_loop(ctx)
    for i, p in enumerate(loop_paths(ctx, key="plain")):
        names = [c for c, _ in p["phases"]]
        if "cost" not in names:
            continue
        ci = names.index("cost")
        ctx.instance(construct(sf, f"window-path-{i}"), cells=len(names))
        if "working-check" not in names[:ci]:
            ctx.violation(construct(sf, "cost-after-working-check"), p["phases"][ci][1].loc,
                          "resources are charged before the READY->WORKING update of this step, so a resource that starts working now is not charged although it is logged WORKING")
        if "resource-state" in names[ci:] or "absence-state" in names[ci:] or "allocate" in names[ci:]:
            ctx.violation(construct(sf, "state-change-after-cost"), p["phases"][ci][1].loc, "resource states are updated after charging in the same step")
        rec = [j for j, c in enumerate(names) if c == "record-organization"]
        if not rec:
            continue
        for c, e in p["phases"][ci + 1: rec[0]]:
            if not isinstance(e, Call):
                continue
            for ef in _closure_effects(ctx, e.callees):
                if ef.kind in ("store", "mut") and ef.attr in ("state", "cost_per_time") and ef.cls in (WORKER, FACILITY, None):
                    ctx.violation(construct(sf, f"window-writer:{c}"), ef.loc,
                                  f"phase `{c}` between charging and recording may write {ef.cls or '?'}.{ef.attr}: 'charged iff logged WORKING' no longer follows")
    # cost_per_time has no simulation-reachable writer
    for g in sim_reach(ctx, precise=not ctx.thorough):
        for ef in ctx.eff.of(g):
            if ef.kind in ("store", "mut") and ef.attr == "cost_per_time":
                ctx.violation(construct(g, "cost-rate-writer"), ef.loc, "cost_per_time is written during simulation")
    ctx.end()


def run(ctx):
    r7_1(ctx)
    r7_2(ctx)
    r7_3(ctx)
    r7_4(ctx)
    from ..initflags import group_rule
    group_rule(ctx, "R7.5", "cost", "the cost lists of an owner and of its members no longer cover the same steps, so a step's total no longer equals the sum of its parts")
    # the cost identities must survive save / load: the project's cost list is restored as its own list (C16 project table)
    from .C16 import r16_1
    from ..jsontab import JsonTables
    r16_1(ctx, JsonTables(ctx))
    # the cost identities must survive editing absence steps out of / into the logs: every level is edited alike
    from .C18 import check as absence_editors
    absence_editors(ctx)
    # ... and reversing the logs after a backward run: every cost list is reversed, once (C08 R8.4)
    from .C08 import r8_4
    r8_4(ctx)
