"""C17 -- backward simulation leaves the model intact."""
import ast

from ..common import *
from ..errors import AnalysisError
from .. import spec
from ..fanout import FanOut

CLAIM = ("Every armed rule instance held: (R17.1) on every exit of backward_simulate -- normal, and exceptional after any "
         "statement of the guarded region including the inner simulate() -- the dependency reversal of workflow and "
         "organization is applied exactly twice, the second time after helper-task removal, and the mode is set; nothing but "
         "plain assignments stands between the first reversal and the guarded region; (R17.2) both reverse_dependencies are "
         "exact swaps of the same list objects for every element, leaving no temporary attribute; (R17.3) every helper task "
         "appended to the workflow is tracked in the same block and the cleanup removes each tracked helper from the task "
         "list and from the predecessor list it was linked into; (R17.4) nothing reachable from a simulation step edits "
         "dependency / conveyor / task-list structure; (R17.5) log reversal covers all 17 logs (shared with C08 R8.4). "
         "The ordering clause on reversed logs is C01 on the reversed graph and is not separately decided.")
EXPLANATION = ("Path enumeration of backward_simulate with exceptional exits after each statement of the try body; concrete "
               "two-element interpretation of both reverse_dependencies; event pairing for helper tasks; who-may-write.")
ASSUMPTIONS = ["reverse_dependencies itself and the cleanup code do not raise",
               "an exception inside the helper-creation block between linking and tracking is not modelled (list appends cannot raise)"]
TECHNIQUE = "try/finally must-pass-through on enumerated paths + concrete small-instance interpretation + who-may-write"

STRUCT_ATTRS = {"input_task_list", "output_task_list", "input_workplace_list", "output_workplace_list", "task_list"}


def bs_paths(ctx, due):
    f = ctx.repo.method(PROJECT, "backward_simulate")
    out = []
    for rl in (True, False):
        # private helpers of the project class are followed (the public entry points simulate / reverse_log_information are not)
        I = mk_interp(ctx, exc_in_try=True, inline=lambda call, callee, depth: callee.cls == PROJECT and callee.name.startswith("_") and not callee.name.endswith("__"), max_depth=3)
        outs = I.run_function(f, bind={"considering_due_time_of_tail_tasks": Const(due), "reverse_log_information": Const(rl)})
        out.extend((st, ex, rl) for st, ex in outs)
    return f, out


def r17_1(ctx):
    ctx.begin("R17.1", "reversal applied exactly twice on every exit (incl. exceptional), restoration after helper removal", floor=4)
    f = ctx.repo.method(PROJECT, "backward_simulate")
    tries = [n for n in f.body() if isinstance(n, ast.Try)]
    if len(tries) != 1:
        ctx.instance(construct(f, "try"))
        ctx.violation(construct(f, "no-exception-protection"), f.loc(),
                      "backward_simulate does not run the inner simulation inside a try statement: an exception leaves the dependencies reversed")
        ctx.end()
        return
    tr = tries[0]
    # statements between the first reversal and the try: plain assignments of fresh containers only
    before = f.body()[: f.body().index(tr)]

    def is_rev(n):
        return isinstance(n, ast.Call) and isinstance(n.func, ast.Attribute) and n.func.attr == "reverse_dependencies"

    def scan(func, stmts, seen_rev, depth=0):
        """Walk the statements in order (a private helper of the project that performs the reversal is walked in place)."""
        for s in stmts:
            if any(is_rev(n) for n in ast.walk(s)):
                seen_rev = True
                continue
            helper = None
            if isinstance(s, ast.Expr) and isinstance(s.value, ast.Call) and depth < 3:
                callees, resolved = ctx.types.ftypes(func).resolve_call(s.value)
                if resolved and len(callees) == 1 and callees[0].cls == PROJECT and is_private_helper(callees[0]) \
                        and any(g.name == "reverse_dependencies" for g in ctx.eff.reachable([callees[0]], precise=True)):
                    helper = callees[0]
            if helper is not None:
                seen_rev = scan(helper, helper.body(), seen_rev, depth + 1)
                continue
            if isinstance(s, ast.Expr) and isinstance(s.value, ast.Call) and isinstance(s.value.func, ast.Name) and depth < 3:
                # a nested def of this function that performs the reversal: walked in place, too
                nd = next((d for d in ast.walk(func.node) if isinstance(d, ast.FunctionDef) and d is not func.node and d.name == s.value.func.id), None)
                if nd is not None and any(is_rev(n) for n in ast.walk(nd)):
                    body = [b for b in nd.body if not (isinstance(b, ast.Expr) and isinstance(b.value, ast.Constant))]
                    seen_rev = scan(func, body, seen_rev, depth + 1)
                    continue
            if isinstance(s, ast.FunctionDef):
                continue   # defining a nested helper executes nothing
            if seen_rev:
                calls = [n for n in ast.walk(s) if isinstance(n, ast.Call) and not (isinstance(n.func, ast.Name) and n.func.id in ("set", "list", "dict"))]
                ctx.instance(construct(f, "pre-try-stmt"))
                if isinstance(s, ast.Expr) and isinstance(s.value, ast.Constant):
                    continue   # a docstring
                if calls or not isinstance(s, (ast.Assign, ast.AnnAssign)):
                    ctx.violation(construct(f, "unprotected-statement"), func.loc(s), f"`{ast.unparse(s)[:60]}` runs after the dependencies were reversed but outside the try/finally: if it raises the model stays reversed")
        return seen_rev
    seen_rev = scan(f, before, False)
    ctx.require(seen_rev, "no reverse_dependencies call before the try block")
    nraise = 0
    for due in (True, False):
        _, paths = bs_paths(ctx, due)
        for st, ex, rl in paths:
            kind = ex[0] if ex else "normal"
            nraise += kind == "raise"
            top = [e for e in st.trace]
            wf = [i for i, e in enumerate(top) if isinstance(e, Call) and f"{WORKFLOW}.reverse_dependencies" in e.callees]
            og = [i for i, e in enumerate(top) if isinstance(e, Call) and f"{ORG}.reverse_dependencies" in e.callees]
            mode = [e for e in top if isinstance(e, Store) and e.attr == "simulation_mode"]
            ctx.instance(construct(f, f"exit-{kind}-due={due}-revlog={rl}"), sample={"exit": kind, "wf_reversals": len(wf), "org_reversals": len(og)})
            if len(wf) != 2 or len(og) != 2:
                ctx.violation(construct(f, f"restore-on-{kind}-exit"), f.loc(tr),
                              f"on the {kind} exit the workflow dependencies are reversed {len(wf)} time(s) and the workplace links {len(og)} time(s) (must be exactly 2 and 2: reverse, then restore)")
                continue
            rm = [i for i, e in enumerate(top) if isinstance(e, Loop) and any(isinstance(x, Mut) and x.op == "remove" and x.attr == "task_list" for x in flatten([e]))]
            if rm and max(rm) > min(wf[1], og[1]):
                ctx.violation(construct(f, "restore-before-cleanup"), top[max(rm)].loc, "helper tasks are removed after the dependencies were restored: the cleanup then edits the wrong lists")
            if not (mode and isinstance(mode[-1].value, EnumSet) and mode[-1].value.single() == "BACKWARD"):
                ctx.violation(construct(f, "mode-store"), f.loc(tr), f"on the {kind} exit simulation_mode is not set to BACKWARD")
            rlc = [e for e in top if isinstance(e, Call) and f"{PROJECT}.reverse_log_information" in e.callees]
            if rl and kind == "normal" and len(rlc) != 1:
                ctx.violation(construct(f, "log-reversal"), f.loc(tr), f"reverse_log_information=True but logs are reversed {len(rlc)} time(s)")
            if not rl and rlc:
                ctx.violation(construct(f, "log-reversal"), f.loc(tr), "reverse_log_information=False but logs are reversed")
    ctx.require(nraise >= 2, "no exceptional exit was explored (the try body has no call?)")
    ctx.end()


def partial_ops(fn_node):
    """Constructs in a function body that raise for some ordinary value of their operands (empty list, index out of range, zero):
    -> [(node, description)].  `.remove(x)` is not listed: the clean-up removes what it recorded itself (stated assumption)."""
    out = []
    for n in ast.walk(fn_node):
        if isinstance(n, ast.Call) and isinstance(n.func, ast.Name):
            if n.func.id in ("max", "min") and len(n.args) == 1 and not any(kw.arg == "default" for kw in n.keywords) \
                    and not (isinstance(n.args[0], (ast.List, ast.Tuple, ast.Set)) and n.args[0].elts):
                out.append((n, f"{n.func.id}() of a possibly empty collection (ValueError)"))
            elif n.func.id == "next" and len(n.args) == 1:
                out.append((n, "next() without a default (StopIteration)"))
        elif isinstance(n, ast.Call) and isinstance(n.func, ast.Attribute) and n.func.attr in ("index", "pop", "popitem") and not (n.func.attr == "pop" and len(n.args) == 2):
            out.append((n, f".{n.func.attr}() (IndexError / ValueError / KeyError)"))
        elif isinstance(n, ast.Subscript) and isinstance(n.ctx, ast.Load) and not isinstance(n.slice, ast.Slice):
            out.append((n, "indexing (IndexError / KeyError)"))
        elif isinstance(n, ast.BinOp) and isinstance(n.op, (ast.Div, ast.FloorDiv, ast.Mod)):
            out.append((n, "division (ZeroDivisionError)"))
        elif isinstance(n, (ast.Raise, ast.Assert)):
            out.append((n, "raise / assert"))
    return out


def r17_6(ctx):
    """'even when the run is aborted by an exception at any step': the restoration stands at the end of the finally block, so
    everything that runs in that block *before* it (helper removal, log reversal and all they call) must not be able to raise --
    otherwise the exception leaves the block before the dependencies are swapped back."""
    ctx.begin("R17.6", "code that runs in the finally block before the restoration contains no partial operation", floor=3)
    f = ctx.repo.method(PROJECT, "backward_simulate")
    tries = [n for n in f.body() if isinstance(n, ast.Try)]
    ctx.require(len(tries) == 1 and tries[0].finalbody, "backward_simulate has no try/finally")
    fin = tries[0].finalbody

    def reaches_rev(stmt):
        if any(isinstance(n, ast.Call) and isinstance(n.func, ast.Attribute) and n.func.attr == "reverse_dependencies" for n in ast.walk(stmt)):
            return True
        if any(g.name == "reverse_dependencies" for g in ctx.eff.reachable_from_stmts(f, [stmt], precise=True)):
            return True
        # a call of a nested def of backward_simulate that does the reversal
        for c in ast.walk(stmt):
            if isinstance(c, ast.Call) and isinstance(c.func, ast.Name):
                nd = next((d for d in ast.walk(f.node) if isinstance(d, ast.FunctionDef) and d is not f.node and d.name == c.func.id), None)
                if nd is not None and any(isinstance(n, ast.Call) and isinstance(n.func, ast.Attribute) and n.func.attr == "reverse_dependencies" for n in ast.walk(nd)):
                    return True
        return False
    idx = [i for i, st in enumerate(fin) if reaches_rev(st)]
    ctx.require(idx, "no restoring call in the finally block")
    before = fin[: idx[0]]
    # the statements themselves ...
    holder = ast.Module(body=before, type_ignores=[])
    sites = [(f, n, d) for n, d in partial_ops(holder)]
    ctx.instance(construct(f, "finally-prefix"), cells=len(before))
    # ... and everything they call
    for g in ctx.eff.reachable_from_stmts(f, before, precise=True):
        ctx.instance(g.qualname)
        sites += [(g, n, d) for n, d in partial_ops(g.node)]
    for g, n, d in sites:
        ctx.violation(construct(g, f"partial-op-before-restore:{ast.unparse(n)[:40]}"), g.loc(n),
                      f"`{ast.unparse(n)[:60]}` ({d}) runs in backward_simulate's finally block before the dependencies are restored: if it raises "
                      f"(an empty workflow, a log shorter than expected ...) every task and workplace keeps its reversed links")
    ctx.end()


def r17_2(ctx):
    ctx.begin("R17.2", "reverse_dependencies is an exact swap of the same list objects for every element, no temporary left", floor=2)
    for cls, coll, ecls, a_in, a_out in ((WORKFLOW, "task_list", TASK, "input_task_list", "output_task_list"),
                                        (ORG, "workplace_list", WORKPLACE, "input_workplace_list", "output_workplace_list")):
        g = ctx.repo.method(cls, "reverse_dependencies")
        objs = [Obj(f"x{i}", ecls) for i in range(2)]
        heap = {}
        for o in objs:
            heap[(o.name, a_in)] = Unk(f"IN({o.name})", ("list", None))
            heap[(o.name, a_out)] = Unk(f"OUT({o.name})", ("list", None))
        I = mk_interp(ctx, collections={f"self.{coll}": objs})
        outs = I.run_function(g, heap=heap)
        for st, ex in outs:
            ctx.instance(construct(g, "swap"), cells=len(objs))
            for o in objs:
                vi, vo = st.heap.get((o.name, a_in)), st.heap.get((o.name, a_out))
                if not (isinstance(vi, Unk) and vi.tag == f"OUT({o.name})" and isinstance(vo, Unk) and vo.tag == f"IN({o.name})"):
                    ctx.violation(construct(g, "not-a-swap"), g.loc(), f"after {cls}.reverse_dependencies element {o.name} has {a_in}={vi!r}, {a_out}={vo!r} (expected the two original list objects swapped)")
                left = [k for k in st.heap if k[0] == o.name and k[1] not in (a_in, a_out)]
                stored = {e.attr for e in events(st.trace, "store") if isinstance(e.recv, Obj) and e.recv == o} - {a_in, a_out}
                deleted = {e.attr for e in events(st.trace, "mut") if e.op == "del" and isinstance(e.recv, Obj) and e.recv == o}
                if stored - deleted:
                    ctx.violation(construct(g, "temporary-left"), g.loc(), f"{cls}.reverse_dependencies leaves temporary attribute(s) {sorted(stored - deleted)} on every element")
        # complete traversal in summary mode
        I = mk_interp(ctx)
        for st, ex in I.run_function(g):
            fo = FanOut(ctx, lambda ev: (ev.cls, ev.attr) if isinstance(ev, Store) and ev.attr in (a_in, a_out) else None)
            c = fo.counts(st.trace)
            ctx.instance(construct(g, "traversal"), sample={f"{k[0]}.{k[1]}": sorted(v) for k, v in c.items()})
            for a in (a_in, a_out):
                if c.get((ecls, a), {0}) != {1}:
                    ctx.violation(construct(g, f"traversal:{a}"), g.loc(), f"{cls}.reverse_dependencies stores {a} {sorted(c.get((ecls, a), {0}))} time(s) per element (expected once, for every element)")
    ctx.end()


def local_names(ctx, trace):
    """(function qualname, local name) -> name of the caller's local that was passed for it (through inlined calls)."""
    ren = {}
    for e in flatten(trace):
        if isinstance(e, Call) and e.inlined and e.callees and isinstance(e.node, ast.Call):
            q = e.callees[0]
            c, _, n = q.partition(".")
            callee = ctx.repo.lookup_method(c, n) if n else ctx.repo.functions.get(c)
            if callee is None:
                continue
            params = [p for p in callee.params if p != "self"]
            pairs = list(zip(params, e.node.args)) + [(kw.arg, kw.value) for kw in e.node.keywords if kw.arg]
            for p, a in pairs:
                if isinstance(a, ast.Name):
                    ren[(q, p)] = ren.get((e.func.qualname, a.id), a.id)
    return ren


def r17_3(ctx):
    ctx.begin("R17.3", "helper tasks: tracked in the same block as they are linked and appended; cleanup removes each from task_list and from the linked predecessor list", floor=2)
    f, paths = bs_paths(ctx, True)
    checked = 0
    for st, ex, rl in paths:
        top = st.trace
        # creation blocks
        for lp in [e for e in top if isinstance(e, Loop)]:
            for tr, ex2 in lp.alts:
                apps = [e for e in tr if isinstance(e, Mut) and e.attr == "task_list" and e.op in ("append", "insert") and e.cls == WORKFLOW]
                for a in apps:
                    helper = a.args[-1] if a.args else None
                    tracked = [e for e in tr if isinstance(e, Mut) and e.attr.startswith("$") and e.op in ("add", "append") and e.args and e.args[0] == helper]
                    linked = [e for e in tr if isinstance(e, Call) and any(q.endswith(".append_input_task") for q in e.callees) and helper in e.args.values()]
                    checked += 1
                    ctx.instance(construct(f, "helper-created"), sample={"helper": repr(helper), "tracked_in": [e.attr for e in tracked]})
                    if not tracked:
                        ctx.violation(construct(f, "helper-untracked"), a.loc, "a helper task is appended to workflow.task_list without being recorded for removal in the same block")
                    # ... and it is appended exactly once: a linking call whose own code also registers its argument in the workflow's
                    # task_list (found in the callee's effect closure) makes it twice, and the clean-up removes it once
                    extra = []
                    for e in tr:
                        if isinstance(e, Call) and not e.inlined and e.callees and helper in e.args.values():
                            for q in e.callees:
                                c0, _, n0 = q.partition(".")
                                g0 = ctx.repo.lookup_method(c0, n0) if n0 else ctx.repo.functions.get(c0)
                                if g0 is None:
                                    continue
                                for g1 in ctx.eff.reachable([g0], precise=True):
                                    if any(ef.kind == "mut" and ef.attr == "task_list" and ef.op in ("append", "insert", "extend") for ef in ctx.eff.of(g1)):
                                        extra.append((e, g1))
                    same = [x for x in tr if isinstance(x, Mut) and x.attr == "task_list" and x.op in ("append", "insert") and x.args and x.args[-1] == helper]
                    if len(same) + (1 if extra else 0) != 1:
                        e0, g1 = extra[0] if extra else (a, None)
                        ctx.violation(construct(f, "helper-registered-twice"), a.loc, f"the helper task is put into workflow.task_list {len(same)} time(s) here" +
                                      (f" and once more inside {g1.qualname} (reached from `{e0.name}`)" if g1 else "") + ": the clean-up removes one occurrence, the other stays in the workflow")
                    # the helper appended in one iteration must be an object created in that iteration: an object that comes from
                    # anywhere else (a cache, an earlier iteration) can be appended more than once but is removed only once
                    created_here = isinstance(helper, Obj) and helper.name.startswith("new") and \
                        any(isinstance(e, Call) and e.ret is helper or (isinstance(e, Call) and isinstance(e.ret, Obj) and e.ret == helper) for e in tr)
                    if not created_here:
                        ctx.violation(construct(f, "helper-not-fresh"), a.loc, f"the task appended to workflow.task_list in the helper loop ({helper!r}) is not created in the same iteration on every "
                                      "path: the same helper can be appended for several tail tasks, but the clean-up removes each recorded helper once")
                    if not linked:
                        ctx.note("helper task appended without append_input_task link")
        direct = [e for e in top if isinstance(e, Mut) and e.attr == "task_list" and e.op in ("append", "insert")]
        for a in direct:
            ctx.violation(construct(f, "helper-untracked"), a.loc, "a task is appended to workflow.task_list outside the tracked helper block")
        # cleanup
        ren = local_names(ctx, top)
        tracked_names = {"$" + ren.get((e.func.qualname, e.attr[1:]), e.attr[1:]) for e in flatten(top) if isinstance(e, Mut) and e.attr.startswith("$") and e.op in ("add", "append")}
        ok_rm, ok_unlink = False, False
        for lp in [e for e in top if isinstance(e, Loop)]:
            if "$" + ren.get((lp.func.qualname, lp.iter_text), lp.iter_text) not in tracked_names:
                continue
            for tr, ex2 in lp.alts:
                for e in flatten(tr):
                    if isinstance(e, Mut) and e.attr == "task_list" and e.op == "remove" and e.args and e.args[0] == lp.var:
                        ok_rm = True
                    if isinstance(e, Mut) and e.attr == "input_task_list" and e.op == "remove" and e.args and isinstance(e.args[0], ListV) \
                            and e.args[0].items and e.args[0].items[0] == lp.var:
                        ok_unlink = True
        # a path on which the clean-up found its record empty (`if not tracked: return`, `if len(tracked) == 0: return`) has
        # nothing to remove
        def says_empty(c):
            t = c.node.test if isinstance(c.node, ast.If) else None
            neg = False
            while isinstance(t, ast.UnaryOp) and isinstance(t.op, ast.Not):
                neg, t = not neg, t.operand
            name = None
            if isinstance(t, ast.Name):
                name, empty_when = t.id, False          # `if tracked:` is true when non-empty
            elif isinstance(t, ast.Compare) and len(t.ops) == 1 and isinstance(t.left, ast.Call) and isinstance(t.left.func, ast.Name) and t.left.func.id == "len" \
                    and len(t.left.args) == 1 and isinstance(t.left.args[0], ast.Name) and isinstance(t.comparators[0], ast.Constant) and t.comparators[0].value == 0:
                name = t.left.args[0].id
                empty_when = {ast.Eq: True, ast.LtE: True, ast.NotEq: False, ast.Gt: False}.get(type(t.ops[0]))
            if name is None or empty_when is None:
                return False
            if "$" + ren.get((c.func.qualname, name), name) not in tracked_names:
                return False
            return (c.truth != neg) == empty_when
        if tracked_names and any(isinstance(c, Cond) and says_empty(c) for c in flatten(top)):
            ctx.instance(construct(f, f"cleanup-{ex[0] if ex else 'normal'}:record-empty"))
            continue
        if tracked_names:
            ctx.instance(construct(f, f"cleanup-{ex[0] if ex else 'normal'}"))
            if not ok_rm:
                ctx.violation(construct(f, "cleanup-task-list"), f.loc(), f"on the {ex[0] if ex else 'normal'} exit tracked helper tasks are not removed from workflow.task_list")
            if not ok_unlink:
                ctx.violation(construct(f, "cleanup-link"), f.loc(), f"on the {ex[0] if ex else 'normal'} exit the [helper, dependency] entry is not removed from the input_task_list it was linked into")
    ctx.require(checked >= 1, "no helper-task creation found with considering_due_time_of_tail_tasks=True")
    ctx.end()


def r17_4(ctx):
    ctx.begin("R17.4", "no simulation-step code edits dependency / conveyor / task-list structure", floor=1)
    reach = sim_reach(ctx, precise=not ctx.thorough)
    n = 0
    for g in reach:
        for ef in ctx.eff.of(g):
            if ef.kind in ("store", "mut", "del") and ef.attr in STRUCT_ATTRS:
                n += 1
                ctx.violation(construct(g, f"structure-writer:{ef.attr}"), ef.loc, f"simulation-step code writes {ef.cls or '?'}.{ef.attr} ({ef.kind} {ef.op or ''})")
    ctx.instance("sim-reachable-structure-writers", cells=len(reach), sample={"functions": len(reach), "writers": n})
    ctx.end()


def r17_5(ctx):
    from .C08 import r8_4
    r8_4(ctx)
    from .C18 import r18_5
    r18_5(ctx)
    from .C09 import r9_4
    r9_4(ctx)


def run(ctx):
    r17_1(ctx)
    r17_6(ctx)
    r17_2(ctx)
    r17_3(ctx)
    r17_4(ctx)
    r17_5(ctx)
    # the reversed run reads the successor lists as predecessor lists: a dependency must be registered on both sides, however it was
    # declared (C01's registration rule)
    from .C01 import r1_5
    r1_5(ctx)
    # "no task is logged WORKING before all of its finish-to-start predecessors have stopped being WORKING" is C01 on the reversed
    # graph: the same gates decide it (a gate that lets a task through while an FS predecessor is still WORKING shows here, too)
    from .C01 import r1_2
    r1_2(ctx)
