"""C05 -- termination bound, truthful status, gates that cannot block a satisfied dependency."""
import ast
import itertools

from ..common import *
from ..errors import AnalysisError
from .. import spec
from ..gates import gate_tables, accept_set
from ..simstruct import loop_paths, STEP_PHASES, M_MAX, working_of

CLAIM = ("Every armed rule instance held: (R5.1) on every path through one iteration of simulate()'s loop no step phase "
         "(resource update, allocation, cost, perform, record) is reached unless time < max_time is entailed, time is "
         "advanced exactly once and last, and the loop is left only by return; (R5.2) over all state valuations of a "
         "two-task workflow SUCCESS is stored exactly when every task is FINISHED and FAILURE only with time >= max_time; "
         "(R5.3) both dependency gates accept every predecessor state that satisfies the dependency, so a satisfied "
         "dependency can never turn unsatisfied again; (R5.4) a READY task becomes WORKING only with an allocated worker "
         "or as an automatic task. Completion of every feasible project is NOT decided (run-time contention).")
EXPLANATION = ("Path enumeration of the loop body with interval facts on `time`; exhaustive state-valuation table of the "
               "status stores; gate accept tables (Dependency x TaskState) compared with the upward closure the statement "
               "demands; decision table of the READY->WORKING store.")
ASSUMPTIONS = ["unit_time >= 1 (unit_time = 0 would loop forever; see known finding on C08 for unit_time != 1)",
               "the liveness clause 'every feasible project completes' is only covered in its necessary part R5.3/R5.4"]
TECHNIQUE = "CFG path enumeration with interval facts + exhaustive finite-domain tables by abstract interpretation"


def r5_1(ctx):
    ctx.begin("R5.1", "no step phase at time >= max_time; time advanced once, last; loop left only by return", floor=3)
    f, loop = sim_loop(ctx)
    paths = loop_paths(ctx, key="plain")
    ctx.require(len(paths) >= 3, "fewer than 3 paths through the loop body")
    nstep = 0
    for i, p in enumerate(paths):
        phases = [c for c, _ in p["phases"]]
        steps = [(c, e) for c, e in p["phases"] if c in STEP_PHASES]
        st = p["state"]
        lo, hi = st.bounds.get("self.time", (None, None))
        con = construct(f, f"loop-path[{'/'.join(phases[-3:]) or 'empty'}]")
        ctx.instance(construct(f, f"loop-path-{i}"), sample={"phases": phases, "exit": p["exit"][0] if p["exit"] else "next-iteration",
                                                               "time_bounds": [str(lo), str(hi)]})
        if p["exit"] is not None and p["exit"][0] not in ("return", "raise"):
            ctx.violation(construct(f, "loop-exit"), f.loc(loop), f"loop body can be left by `{p['exit'][0]}`: the loop must end only through the two status returns")
        if steps:
            nstep += 1
            if hi is None or hi > M_MAX - 1:
                c, e = steps[0]
                ctx.violation(construct(f, "time-bound-before-step"), e.loc,
                              f"step phase `{c}` is reachable without `time < max_time` being established (time may be {hi if hi is not None else 'unbounded'} with max_time={M_MAX})",
                              {"phases": phases})
            # time increment
            tstores = [e for c, e in p["phases"] if c == "time"]
            if p["exit"] is None:
                final = st.heap.get(("self", "time"))
                exp = Poly.sym("self.time") + Poly.sym("unit_time")
                if len(tstores) != 1 or final != exp:
                    ctx.violation(construct(f, "time-increment"), f.loc(loop),
                                  f"a completed step advances time {len(tstores)} time(s) to `{final!r}` (expected exactly once, by the step parameter)")
                elif phases and phases[-1] != "time":
                    ctx.violation(construct(f, "time-increment-last"), tstores[0].loc,
                                  f"time is advanced before phase `{phases[-1]}`: must be the last action of a step")
        else:
            if p["exit"] is None:
                ctx.violation(construct(f, "empty-step"), f.loc(loop), "a loop iteration can complete without any step phase")
    ctx.require(nstep >= 2, "expected at least the working and the absence step paths")
    ctx.end()


def r5_2(ctx):
    ctx.begin("R5.2", "status stores: SUCCESS iff all tasks FINISHED; FAILURE only at time >= max_time and not all FINISHED", floor=20)
    f, loop = sim_loop(ctx)
    states = list(ctx.repo.enums[TS])
    sizes = (0, 1, 2) if not ctx.thorough else (0, 1, 2, 3)
    for n in sizes:
        for combo in itertools.product(states, repeat=n):
            tasks = [Obj(f"T{i}", TASK) for i in range(n)]
            heap = {(t.name, "state"): E(TS, s) for t, s in zip(tasks, combo)}
            paths = loop_paths(ctx, heap=heap, collections={"self.workflow.task_list": tasks}, havoc_on_call=False)
            allfin = all(s == "FINISHED" for s in combo)
            con = construct(f, "status")
            ctx.instance(f"status-table{combo}", cells=len(paths))
            for p in paths:
                st = p["state"]
                sts = [e for c, e in p["phases"] if c == "status"]
                vals = [e.value.single() if isinstance(e.value, EnumSet) else repr(e.value) for e in sts]
                steps = [c for c, _ in p["phases"] if c in STEP_PHASES]
                lo, hi = st.bounds.get("self.time", (None, None))
                loc = sts[0].loc if sts else f.loc(loop)
                if allfin:
                    if vals != ["FINISHED_SUCCESS"] or p["exit"] is None or steps:
                        ctx.violation(con + ":all-finished", loc,
                                      f"task states {combo}: expected status FINISHED_SUCCESS and return without a step, got stores {vals}, exit {p['exit'] and p['exit'][0]}, step phases {steps}")
                else:
                    if "FINISHED_SUCCESS" in vals:
                        ctx.violation(con + ":success-not-all-finished", loc, f"FINISHED_SUCCESS stored with task states {combo}")
                    if "FINISHED_FAILURE" in vals and (lo is None or lo < M_MAX):
                        ctx.violation(con + ":failure-before-max-time", loc, f"FINISHED_FAILURE stored while time may be {lo} < max_time={M_MAX}")
                    if p["exit"] is not None and p["exit"][0] == "return" and not vals:
                        ctx.violation(con + ":return-without-status", loc, f"simulate() returns with task states {combo} without storing a status")
                    if p["exit"] is not None and p["exit"][0] == "return" and vals and vals[-1] not in ("FINISHED_SUCCESS", "FINISHED_FAILURE"):
                        ctx.violation(con + ":other-status", loc, f"unexpected status store {vals}")
    # who-may-write status inside simulate's reach: only the loop itself
    # (a private piece of simulate() itself -- called from nowhere else -- is part of the loop: its stores are in the table above)
    own = with_private_pieces(ctx, {f.qualname})
    for g in sim_reach(ctx, precise=not ctx.thorough):
        if g.qualname in own and g.cls == PROJECT and not any(cs.callees for cs in ctx.eff.calls_of(g)):
            continue   # (pure bookkeeping: a piece that calls into the model is a step phase, not the loop's own exit code)
        for ef in ctx.eff.of(g):
            if ef.kind == "store" and ef.attr == "status" and ef.cls in (None, PROJECT):
                ctx.violation(construct(g, "status-writer"), ef.loc, "project status written from inside a step phase")
    ctx.end()


def r5_3(ctx):
    ctx.begin("R5.3", "gates are upward closed: every predecessor state that satisfies a dependency is accepted", floor=4)
    tabs = gate_tables(ctx)
    # domain of predecessor states = the constants some writer in the package stores into a task's state
    stored = set()
    for fn in ctx.repo.all_funcs():
        for ef in ctx.eff.of(fn):
            if ef.kind == "store" and ef.attr == "state" and (ef.cls is None or is_subclass(ctx, ef.cls, TASK)) and ef.value is not None:
                for n in ast.walk(ef.value):
                    en = ctx.repo.enum_of_member_expr(n)
                    if en and en[0] == TS:
                        stored.add(en[1])
    ctx.require({"NONE", "READY", "WORKING", "FINISHED"} <= stored, f"expected the four lifecycle states among stored constants, found {sorted(stored)}")
    for gate, rows in spec.GATE_LIVE.items():
        tb = tabs[gate]
        for dep, need in rows.items():
            need = set(need) & stored
            acc = accept_set(tb, dep, "must")
            con = f"gate-{gate}:{dep}:must-accept"
            ctx.instance(con, cells=len(need), sample={"gate": gate, "dep": dep, "must_accept": sorted(need), "accepts": sorted(acc)})
            missing = sorted(need - acc)
            if missing:
                ctx.violation(con, tb["store_locs"][0][1] if tb["store_locs"] else "?",
                              f"{gate} gate blocks a task whose {dep} predecessor is already {missing}: a started-and-finished predecessor "
                              f"must count as started, otherwise the successor waits forever", {"accepts": sorted(acc), "needs": sorted(need)})
        # dependencies that do not concern this gate must never block
        for dep in ctx.repo.enums[DEP]:
            if dep not in rows:
                acc = accept_set(tb, dep, "must")
                con = f"gate-{gate}:{dep}:indifferent"
                ctx.instance(con, cells=len(ctx.repo.enums[TS]))
                miss = sorted(set(ctx.repo.enums[TS]) - acc)
                if miss:
                    ctx.violation(con, tb["store_locs"][0][1] if tb["store_locs"] else "?",
                                  f"{gate} gate blocks on a {dep} predecessor in state {miss}; {dep} does not constrain this transition")
    ctx.end()


def r5_4(ctx):
    ctx.begin("R5.4", "READY->WORKING needs an allocated worker or an automatic task", floor=4)
    wf_check = ctx.repo.method(WORKFLOW, "check_state")
    W = Obj("W", WORKER)
    for auto in (False, True):
        for has_worker in (False, True):
            for comp in ("none", "placed-ok"):
                T = Obj("T", TASK)
                heap = {("T", "state"): E(TS, "READY"), ("T", "auto_task"): Const(auto), ("T", "need_facility"): Const(False),
                        ("T", "allocated_worker_list"): ListV([W] if has_worker else []),
                        ("T", "allocated_facility_list"): ListV([])}
                if comp == "none":
                    heap[("T", "target_component")] = Const(None)
                I = mk_interp(ctx, inline=lambda call, callee, depth: callee.cls == WORKFLOW, collections={"self.task_list": [T]}, max_depth=3)
                outs = I.run_function(wf_check, bind={"state": E(TS, "WORKING"), "time": Poly.sym("t")}, heap=heap)
                stored = [any(isinstance(e.recv, Obj) and e.recv.name == "T" and isinstance(e.value, EnumSet) and e.value.single() == "WORKING"
                              for e in stores_of(st.trace, attr="state")) for st, ex in outs]
                con = f"working-gate:auto={auto},worker={has_worker},component={comp}"
                ctx.instance(con, cells=len(outs), sample={"auto_task": auto, "has_worker": has_worker, "component": comp, "stores": stored})
                if has_worker and comp == "none":
                    ctx.require(stored and all(stored), f"positive control failed: a READY task with a worker is not moved to WORKING in the model ({con})")
                if not auto and not has_worker and any(stored):
                    ctx.violation("working-gate:unserved", wf_check.loc(),
                                  "a non-automatic READY task without any allocated worker can become WORKING (and then FINISHED) -- an unservable task could report success")
    ctx.end()


def r5_5(ctx):
    """Liveness needs the release: a resource that keeps a FINISHED task is never FREE again (shared with C03 R3.3)."""
    from .C03 import r3_3
    r3_3(ctx)


def r5_6(ctx):
    """'every task ... completes': a task that was handed to the workflow's registration helper but is not in task_list is never
    simulated, yet its declared successors wait for it for ever.  The helpers put what they are given into the container on every
    path, whatever back-reference the object already carries."""
    ctx.begin("R5.6", "append_child_task / append_child_component (and the extend_ forms) register every given object unconditionally", floor=4)
    for cls, one, many, coll in ((WORKFLOW, "append_child_task", "extend_child_task_list", "task_list"),
                                 (PRODUCT, "append_child_component", "extend_child_component_list", "component_list")):
        g = ctx.repo.method(cls, one)
        pname = [p for p in g.params if p != "self"][0]
        I = mk_interp(ctx)
        for st, ex in I.run_function(g):
            if ex is not None and ex[0] == "raise":
                continue
            item = st.env.get(pname)
            apps = [e for e in flatten(st.trace) if isinstance(e, Mut) and e.attr == coll and e.op in ("append", "insert") and isinstance(e.recv, Obj) and e.recv.name == "self"
                    and e.args and e.args[-1] == item]
            ctx.instance(construct(g, "path"), sample={"appends": len(apps)})
            if len(apps) != 1:
                ctx.violation(construct(g, "registers"), g.loc(), f"{g.qualname} has a path on which the given object is put into {cls}.{coll} {len(apps)} time(s) (expected exactly once): "
                              f"an object that already carries a back-reference (set by append_input_task / a constructor) is then silently left out of the simulation")
        h = ctx.repo.method(cls, many)
        I = mk_interp(ctx, inline=lambda call, callee, depth: callee.cls == cls and callee.name == one)
        for st, ex in I.run_function(h):
            lps = [e for e in st.trace if isinstance(e, Loop)]
            ok = False
            for lp in lps:
                if all(any(isinstance(e, Mut) and e.attr == coll and e.op in ("append", "insert") and e.args and e.args[-1] == lp.var for e in flatten(tr)) for tr, ex2 in lp.alts if ex2 is None or ex2[0] == "continue") \
                        and lp.alts and not (isinstance(lp.coll, CollV) and lp.coll.preds):
                    ok = True
            direct = [e for e in st.trace if isinstance(e, Mut) and e.attr == coll and e.op == "extend"]
            ctx.instance(construct(h, "path"), sample={"loops": len(lps), "extend": len(direct)})
            if not ok and not direct:
                ctx.violation(construct(h, "registers-all"), h.loc(), f"{h.qualname} does not put every element of its argument into {cls}.{coll}")
    ctx.end()


def run(ctx):
    r5_6(ctx)
    r5_1(ctx)
    r5_2(ctx)
    r5_3(ctx)
    r5_4(ctx)
    r5_5(ctx)
    from .C04 import r4_2
    r4_2(ctx)  # an eligible combination that can_add_resources rejects starves a READY task for ever
    from ..initflags import group_rule
    group_rule(ctx, "R3.7", "pairing", "a resource keeps a stale assignment that no task will ever release: it stays WORKING for ever and a feasible project runs into max_time")
    # "predecessors that complete within a single step": the finish check is closed over FF/SF chains (shared with C06)
    from .C06 import r6_4
    r6_4(ctx)
    # "every non-automatic unfinished task has an eligible worker" is C04's notion of eligible: the allocator must test exactly that
    from .C04 import r4_1, r4_5
    r4_1(ctx)
    # ... and judged by the team / workplace it belongs to now: the membership ID the allocator reads is set by every method that
    # adds a member (a worker that keeps a former team's ID is never found eligible, and its task waits until max_time)
    r4_5(ctx)
    # ... and that worker is offered to the task: the allocator looks at every READY and WORKING task, whatever else is true of it
    # (a READY task that is filtered out never starts, so the project runs into max_time)
    from .C06 import r6_2
    r6_2(ctx)
