"""C15 -- a run paused at any step and resumed gives exactly the uninterrupted result."""
import ast

from ..common import *
from ..errors import AnalysisError
from .. import spec
from ..gates import finish_closure
from ..jsontab import JsonTables
from ..interp import Read
from .C08 import tree_method_run
from .C09 import classify_loop

CLAIM = ("Every armed rule instance held: (R15.1) initialize(state_info=False, log_info=False), followed through the whole "
         "containment tree, stores nothing except the idempotent parent_workflow back-fill; (R15.2) with both flags off, "
         "simulate() writes nothing before its loop except the three argument-derived settings; (R15.3) the per-step prologue that "
         "a resumed run executes a second time at the pause step is idempotent: the finish check is closed over FF/SF chains, the "
         "ready check has no cross-task read-after-write, the leave-workplace routine acts only on components that are still "
         "placed, and the backward PERT pass re-initialises what it relaxes; (R15.4) every attribute that a simulation step "
         "writes, and every per-step log, is part of the saved format and is passed back on load (named exemptions). Equality "
         "of the two dumps for all pause steps is not observed.")
EXPLANATION = ("Abstract interpretation of initialize and of simulate()'s prologue with both flags False; bounded closure test of "
               "the finish check; effect-set classification of the ready loop; write-set of simulation-reachable code compared "
               "with the JSON tables.")
ASSUMPTIONS = ["the resumed call passes the same options (priority rule, absence list, unit_time) as the interrupted one"]
TECHNIQUE = "no-op check by abstract interpretation + closure/idempotence conditions + write-set vs saved-format table comparison"

EXEMPT_SAVED = {
    ("BaseComponent", "error"): "advanced variable of the quality model; no base log depends on it",
    ("BaseTask", "additional_task_flag"): "advanced variable of the rework model",
    ("BaseTask", "actual_work_amount"): "advanced variable recomputed by the constructor",
}


def r15_1(ctx):
    ctx.begin("R15.1", "initialize(False, False) is a no-op through the whole tree", floor=1)
    f, outs = tree_method_run(ctx, "initialize", {"state_info": Const(False), "log_info": Const(False)})
    n_calls = 0
    for st, ex in outs:
        evs = flatten(st.trace)
        n_calls += len([e for e in evs if isinstance(e, Call) and e.inlined])
        for e in evs:
            if isinstance(e, (Store, Mut)) and not (isinstance(e, Mut) and e.attr.startswith("$")):
                if e.attr == "parent_workflow":
                    continue  # idempotent back-fill: same value every time, only when unset
                ctx.violation(construct(e.func, f"writes:{e.attr}"), e.loc, f"initialize(state_info=False, log_info=False) still writes {e.cls}.{e.attr}: resuming a paused run would not continue from the paused state")
            if isinstance(e, Call) and not e.inlined and e.callees and any(q.split(".")[-1] in ("update_PERT_data", "check_state") for q in e.callees):
                ctx.violation(construct(e.func, f"calls:{e.name}"), e.loc, f"initialize(False, False) still calls {e.name}")
    ctx.instance(construct(f, "no-op"), cells=n_calls, sample={"inlined_initialize_calls": n_calls})
    ctx.require(n_calls >= 8, f"initialize was followed through only {n_calls} classes (expected the whole tree)")
    ctx.end()


def r15_2(ctx):
    ctx.begin("R15.2", "simulate() prologue with both flags off writes only argument-derived settings", floor=1)
    f, loop = sim_loop(ctx)
    pre = f.body()[: f.body().index(loop)]
    I = mk_interp(ctx, inline=lambda call, callee, depth: callee.name == "initialize", max_depth=6)
    outs = I.run_block(f, pre, bind={"initialize_state_info": Const(False), "initialize_log_info": Const(False), "task_performed_mode": Const("multi-workers")})
    allowed = {"simulation_mode", "absence_time_list", "perform_auto_task_while_absence_time", "parent_workflow"}
    for st, ex in outs:
        if ex is not None and ex[0] == "raise":
            continue
        ws = [e for e in flatten(st.trace) if isinstance(e, (Store, Mut)) and not (isinstance(e, Mut) and e.attr.startswith("$"))]
        ctx.instance(construct(f, "prologue"), cells=len(ws), sample={"writes": sorted({e.attr for e in ws})})
        for e in ws:
            if e.attr not in allowed:
                ctx.violation(construct(f, f"prologue-writes:{e.attr}"), e.loc, f"simulate(initialize_state_info=False, initialize_log_info=False) writes {e.cls}.{e.attr} before the loop: a resumed run does not start from the paused state")
    ctx.end()


def r15_3(ctx):
    ctx.begin("R15.3", "the per-step prologue is idempotent (closed finish check, closed ready check, guarded removal, fresh PERT)", floor=4)
    wf_check = ctx.repo.method(WORKFLOW, "check_state")
    res = finish_closure(ctx, max_chain=3)
    bad = [r for r in res if not r[3]]
    ctx.instance("finish-closure", cells=len(res))
    if bad:
        order, kinds, finals, _ = bad[0]
        ctx.violation(construct(wf_check, "finish-check-not-closed"), wf_check.loc(),
                      f"finish check is not closed ({len(bad)}/{len(res)} small chains, e.g. {list(kinds)} in order {list(order)} -> {finals}): "
                      f"a resumed run re-executes it at the pause step and finishes a task the uninterrupted run finishes one step later")
    # ready check: one pass reaches its fixpoint (no task's gate reads what the pass writes)
    I = mk_interp(ctx, inline=lambda call, callee, depth: callee.cls == WORKFLOW, max_depth=3)
    I.log_reads = True
    outs = I.run_function(wf_check, bind={"state": E(TS, "READY"), "time": Poly.sym("t")})
    n = 0
    for st, ex in outs:
        for lp in [e for e in flatten(st.trace) if isinstance(e, Loop) and e.elem_cls == TASK and e.stack]:
            if not any(isinstance(x, Store) and x.attr == "state" for tr, _ in lp.alts for x in flatten(tr)):
                continue
            n += 1
            verdict, reasons, detail = classify_loop(ctx, lp)
            ctx.instance(construct(lp.func, "ready-loop"), sample={"verdict": verdict, "detail": detail})
            if verdict == "SENSITIVE":
                ctx.violation(construct(lp.func, "ready-check-not-closed"), lp.loc, "ready check reads what it writes on other tasks: a second execution at the pause step can let more tasks through: " + "; ".join(reasons))
    ctx.require(n >= 1, "ready loop not found")
    # removal acts only on components that are still placed
    g = ctx.repo.method(PRODUCT, "check_removing_placed_workplace")
    for placed in (False, True):
        C, T, WPo = Obj("C", COMPONENT), Obj("T", TASK), Obj("WP", WORKPLACE)
        heap = {("C", "parent_component_list"): ListV([]), ("C", "targeted_task_list"): ListV([T]), ("T", "state"): E(TS, "FINISHED"),
                ("C", "placed_workplace"): WPo if placed else Const(None), ("C", "child_component_list"): ListV([])}
        I = mk_interp(ctx, collections={"self.component_list": [C]})
        outs = I.run_function(g, heap=heap)
        for st, ex in outs:
            calls = [e for e in flatten(st.trace) if isinstance(e, Call) and e.callees and e.callees[0].endswith("remove_placed_component")]
            ctx.instance(construct(g, f"placed={placed}"), sample={"remove_calls": len(calls)})
            if placed and len(calls) != 1:
                ctx.violation(construct(g, "removal-missing"), g.loc(), "a finished, still placed top-level component is not removed from its workplace")
            if not placed and calls:
                ctx.violation(construct(g, "removal-not-guarded"), g.loc(), "the leave-workplace routine acts on a component that is no longer placed: executing it twice (pause/resume) fails")
    # PERT: shared with C12 R12.1
    from .C12 import prior_dependence
    fn, insts, bad = prior_dependence(ctx)
    for name, cells in insts:
        ctx.instance(construct(fn, f"pert-{name}"), cells=cells)
    for key, why in bad:
        ctx.violation(construct(fn, f"stale-accumulator:{key}"), fn.loc(), why)
    ctx.end()


def r15_5(ctx):
    """A paused-and-resumed run re-enters the loop with fresh locals: whatever one iteration hands to the next must live
    in the model (and so be saved), never in a local variable of simulate()."""
    ctx.begin("R15.5", "the step loop carries no local state from one iteration to the next", floor=1)
    f, loop = sim_loop(ctx)
    # names bound by comprehensions / lambdas are scoped to them: not locals of the loop
    scoped = set()
    for n in ast.walk(loop):
        if isinstance(n, (ast.ListComp, ast.SetComp, ast.GeneratorExp, ast.DictComp)):
            bound = {x.id for g in n.generators for x in ast.walk(g.target) if isinstance(x, ast.Name)}
            for x in ast.walk(n):
                if isinstance(x, ast.Name) and x.id in bound:
                    scoped.add(id(x))
        elif isinstance(n, ast.Lambda):
            bound = {a.arg for a in n.args.args}
            for x in ast.walk(n):
                if isinstance(x, ast.Name) and x.id in bound:
                    scoped.add(id(x))
    assigned = {}
    for n in ast.walk(loop):
        if isinstance(n, ast.Name) and isinstance(n.ctx, ast.Store) and id(n) not in scoped:
            assigned.setdefault(n.id, []).append(n)
    # first occurrence of each assigned name in source order inside the loop body must be a store
    occ = {}
    for n in ast.walk(loop):
        if isinstance(n, ast.Name) and n.id in assigned and id(n) not in scoped:
            key = (n.lineno, n.col_offset)
            if n.id not in occ or key < occ[n.id][0]:
                occ[n.id] = (key, n)
    ctx.instance(construct(f, "loop-locals"), cells=len(assigned), sample={"assigned_in_loop": sorted(assigned)})
    for name, (key, n) in sorted(occ.items()):
        if isinstance(n.ctx, ast.Load):
            ctx.violation(construct(f, f"loop-carried-local:{name}"), f.loc(n),
                          f"local `{name}` is read in the step loop before it is assigned in the same iteration, and assigned later in the loop: its value travels from step to "
                          f"step outside the model, so a run paused at max_time and resumed (or saved and loaded) continues with a different value than the uninterrupted run")
        else:
            # an augmented assignment reads the previous iteration's value as well
            par = [a for a in ast.walk(loop) if isinstance(a, ast.AugAssign) and a.target is n]
            if par:
                ctx.violation(construct(f, f"loop-carried-local:{name}"), f.loc(n), f"local `{name}` is accumulated across iterations of the step loop (`{ast.unparse(par[0])[:50]}`)")
    ctx.end()


def r15_4(ctx):
    ctx.begin("R15.4", "everything a step writes, and every log, is saved and passed back on load", floor=25)
    J = JsonTables(ctx)
    written = {}
    for g in sim_reach(ctx, precise=True):
        for e in ctx.eff.of(g):
            if e.kind in ("store", "mut") and e.cls and not e.attr.startswith("dummy_"):
                owner = ctx.types.field_owner(e.cls, e.attr) or e.cls
                written.setdefault((owner, e.attr), e)
    for (c, a) in spec.LOGS:
        written.setdefault((c, a), None)
    for (c, a), e in sorted(written.items()):
        if (c, a) in EXEMPT_SAVED:
            continue
        ctx.instance(f"{c}.{a}")
        if c == PROJECT:
            ok = a in J.project_export and a in {k for k in J.project_read} or a in ("status", "simulation_mode", "time", "cost_list")
            ok = a in J.project_export and any(v[1] == a for v in J.project_read.values())
        else:
            exp, rd = J.export.get(c, {}), J.read.get(c)
            ok = a in exp and (rd is None or a in rd or any(v[1] == a for v in rd.values()))
            if rd is None:
                ok = a in exp and a in J.read_keys.get(c, set())
        if not ok:
            loc = e.loc if e is not None else ctx.repo.classes[c].module.relpath + ":1"
            ctx.violation(f"not-saved:{c}.{a}", loc, f"{c}.{a} is live state or a log of a running simulation but is not part of the saved format (or not restored): "
                          f"a run paused, saved, loaded and resumed continues from different state")
    ctx.end()


EXEMPT_LINKS = {
    ("BaseComponent", "error"): "advanced variable of the quality model; no base log depends on it",
    ("BaseWorker", "quality_skill_mean_map"): "quality model input; not part of the saved format (only feeds BaseComponent.error)",
    ("BaseWorker", "quality_skill_sd_map"): "quality model input; not part of the saved format (only feeds BaseComponent.error)",
    ("BaseWorkflow", "critical_path_length"): "recomputed by the PERT phase of every step before it is read (C12 R12.3)",
}


def r15_6(ctx):
    """What the step code reads but the readers do not pass back (a derived back-link such as task.parent_workflow) must be
    re-established on the resume path itself: by initialize(state_info=False, log_info=False), which simulate() calls first."""
    ctx.begin("R15.6", "links the step code reads that are not in the saved format are re-established by initialize(False, False)", floor=1)
    from ..initflags import init_store_sets
    J = JsonTables(ctx)
    f0, sets = init_store_sets(ctx)
    resume_stores = set(sets[(False, False)])
    reads = {}
    for g in sim_reach(ctx, precise=True):
        for e in ctx.eff.of(g):
            if e.kind == "read" and e.cls and e.cls in ctx.repo.model_classes:
                owner = ctx.types.field_owner(e.cls, e.attr) or e.cls
                reads.setdefault((owner, e.attr), e)
            elif e.kind == "read" and not e.cls:
                # receiver without a static type (a helper's parameter): every model class that declares the field
                for mc in ctx.repo.model_classes:
                    if ctx.types.field_type(mc, e.attr) is not None and (ctx.types.field_owner(mc, e.attr) or mc) == mc:
                        reads.setdefault((mc, e.attr), e)
    n = 0
    for (c, a), e in sorted(reads.items()):
        passed = set()
        for b in [c] + list(ctx.repo.subclasses(c)) + list(ctx.repo.mro(c)):
            passed |= set(J.read.get(b, {}) or {})
            passed |= set(J.read_keys.get(b, set()) or set())
        if a in passed or any(k[1] == a for k in J.relink) or ctx.repo.lookup_method(c, a) is not None:
            continue
        if c == PROJECT:
            continue   # the project's own keys: R16.1 / R15.4
        if (c, a) in EXEMPT_LINKS:
            continue
        n += 1
        ctx.instance(f"{c}.{a}", sample={"read_at": e.loc, "re-established": (c, a) in resume_stores})
        if (c, a) not in resume_stores:
            ctx.violation(f"not-reestablished:{c}.{a}", e.loc, f"{c}.{a} is read by the step code ({e.func.qualname}) but is neither passed back by the JSON readers nor set by "
                          "initialize(state_info=False, log_info=False): a run that is paused, saved, loaded and resumed works with a missing link")
    ctx.require(n >= 1, "no derived link found (expected at least task.parent_workflow)")
    ctx.end()


def run(ctx):
    r15_1(ctx)
    r15_2(ctx)
    r15_3(ctx)
    r15_4(ctx)
    r15_5(ctx)
    r15_6(ctx)
    from ..initflags import group_rule, separation_rule
    group_rule(ctx, "R8.7", "logs", "a resumed run continues with some logs wiped")
    separation_rule(ctx, "R8.8")
    # the JSON clause: pause, write, read into a new project, continue -- rests on the save/load tables of C16
    from .C16 import r16_1, r16_2, r16_3
    from ..jsontab import JsonTables
    J = JsonTables(ctx)
    r16_1(ctx, J)
    r16_2(ctx, J)
    r16_3(ctx, J)
    # ... and every object is rebuilt from its own record
    from .C16 import r16_8
    r16_8(ctx, J)
