"""C01 -- dependencies never violated; the task lifecycle only advances."""
import ast

from ..common import *
from ..errors import AnalysisError
from .. import spec
from ..gates import gate_tables, accept_set

CLAIM = ("Every armed rule instance held: (R1.1) every simulation-reachable store into a task's state is a strictly "
         "forward lifecycle edge from a guard-derived source-state set and no other writer exists; (R1.2) the accept "
         "tables of both dependency gates, extracted over the full Dependency x TaskState domain for one and for two "
         "predecessors, stay inside the sets the statement allows and one rejecting predecessor always rejects; "
         "(R1.3) record_state's display table; (R1.4) the initial FINISHED store is guarded by default_progress. "
         "Together these give the safety statement by induction over steps; the run itself is not observed.")
EXPLANATION = ("Abstract interpretation of BaseWorkflow.check_state (helpers inlined) over finite enum domains; "
               "typestate check of every BaseTask.state writer in the code reachable from simulate()'s loop; "
               "decision table of BaseTask.record_state; guard test of BaseTask.initialize.")
ASSUMPTIONS = ["users do not subclass model classes or assign task.state themselves during a run",
               "FINISHED is absorbing because R1.1 finds no writer that leaves it"]
EXHAUSTIVE = True  # the deciding tables range over the complete finite domain
TECHNIQUE = "typestate + finite-domain guard tables by abstract interpretation of the AST (no execution)"


def typestate_runs(ctx):
    """-> list of validated Store events (BaseTask.state) found by interpreting check_state per target."""
    wf_check = ctx.repo.method(WORKFLOW, "check_state")
    res = []
    for target in ("READY", "WORKING", "FINISHED"):
        I = mk_interp(ctx, inline=lambda call, callee, depth: callee.cls == WORKFLOW, max_depth=3)
        outs = I.run_function(wf_check, bind={"state": E(TS, target), "time": Poly.sym("t"), "__defaults__": True})
        seen = set()
        for st, ex in outs:
            for e in stores_of(st.trace, attr="state"):
                if e.cls is not None and not is_subclass(ctx, e.cls, TASK):
                    continue
                if id(e.node) in seen:
                    continue
                seen.add(id(e.node))
                res.append((target, e))
    return res


def r1_1(ctx):
    ctx.begin("R1.1", "typestate: every simulation-reachable BaseTask.state store is a forward lifecycle edge; no other writer", floor=3)
    order = spec.LIFECYCLE_ORDER
    validated = {}
    for target, e in typestate_runs(ctx):
        val = e.value
        con = construct(e.func, f"state:={val!r}")
        if not isinstance(val, EnumSet) or val.single() is None:
            ctx.instance(con)
            ctx.violation(con, e.loc, f"task state store of a non-constant value {val!r}")
            continue
        tgt = val.single()
        src = e.prev.members if isinstance(e.prev, EnumSet) else set(ctx.repo.enums[TS])
        bad = sorted(s for s in src if order[s] >= order[tgt])
        ctx.instance(con, cells=len(src), sample={"loc": e.loc, "sources": sorted(src), "target": tgt})
        validated[id(e.node)] = (sorted(src), tgt)
        if bad:
            ctx.violation(con, e.loc, f"store {TS}.{tgt} reachable from source state(s) {bad}: not a forward edge of NONE<READY<WORKING<FINISHED",
                          {"sources": sorted(src), "target": tgt})
    # who-may-write
    reach = sim_reach(ctx, precise=not ctx.thorough)
    # a store whose receiver has no static type (a helper parameter, a mixed loop variable) is classified by the objects it is
    # seen with when check_state is interpreted: `resource.state = FREE` on workers and facilities is not a task-state writer
    dyn = {}
    for target in ("READY", "WORKING", "FINISHED"):
        I = mk_interp(ctx, inline=lambda call, callee, depth: callee.cls == WORKFLOW, max_depth=3)
        for st, ex in I.run_function(ctx.repo.method(WORKFLOW, "check_state"), bind={"state": E(TS, target), "time": Poly.sym("t"), "__defaults__": True}):
            for e in stores_of(st.trace, attr="state"):
                dyn.setdefault(id(e.node), set()).add(e.cls if e.cls is not None else (e.recv.cls if isinstance(e.recv, Obj) else None))
    n = 0
    for f in reach:
        for ef in ctx.eff.of(f):
            if ef.kind in ("store", "mut", "del") and ef.attr == "state" and ef.cls is None and id(ef.node) in dyn \
                    and all(c is not None and not is_subclass(ctx, c, TASK) for c in dyn[id(ef.node)]):
                continue
            if ef.kind in ("store", "mut", "del") and ef.attr == "state" and (ef.cls is None or is_subclass(ctx, ef.cls, TASK)):
                n += 1
                con = construct(f, "task-state-writer")
                ctx.instance(con)
                if id(ef.node) not in validated:
                    ctx.violation(con, ef.loc, f"simulation-reachable writer of a task's state outside the validated lifecycle stores: `{ast.unparse(ef.node)[:80]}`")
    ctx.note(f"R1.1 validated stores: {sorted(set(map(str, validated.values())))}; writers in {len(reach)} reachable functions: {n}")
    ctx.end()


def r1_2(ctx):
    ctx.begin("R1.2", "gate accept tables (1 and 2 predecessors) within the statement's sets; one rejection rejects", floor=8)
    tabs = gate_tables(ctx)
    stored = {s for t, e in typestate_runs(ctx) if isinstance(e.value, EnumSet) for s in [e.value.single()] if s}
    domain = set(ctx.repo.enums[TS]) if ctx.thorough else (stored | {"NONE"})
    for gate, rows in spec.GATE_SAFE.items():
        tb = tabs[gate]
        ctx.instance(f"gate-{gate}:source")
        for (fn, loc), (text, val) in sorted(tb["foreign"].items()):
            ctx.violation(f"gate-{gate}:source:{fn}", loc,
                          f"the {gate} gate ({fn}) iterates `{text}` whose value ({val[:60]}) is not the task's live input_task_list / the workflow's task_list: "
                          f"predecessors are taken from a copy or cache, so a dependency that is added or changed later is not enforced")
        if not tb["foreign"]:
            ctx.require(tb["store_locs"], f"gate {gate}: no store of {gate} found through check_state")
            ctx.require(tb["empty"] == "must", f"gate {gate}: a task without predecessors is not let through (model broken?)")
        if not tb["store_locs"]:
            continue
        for dep in ctx.repo.enums[DEP]:
            acc = accept_set(tb, dep, "may") & domain
            con = f"gate-{gate}:{dep}"
            ctx.instance(con, cells=len(domain), sample={"gate": gate, "dep": dep, "accepts": sorted(acc)})
            if dep in rows:
                extra = sorted(acc - rows[dep])
                if extra:
                    ctx.violation(con, tb["store_locs"][0][1],
                                  f"{gate} gate lets a task through while its {dep} predecessor is {extra} (allowed: {sorted(rows[dep])})",
                                  {"accepts": sorted(acc), "allowed": sorted(rows[dep])})
        # conjunction over predecessors
        bad = []
        for (a, b), v in tb["pairs"].items():
            if a[1] not in domain or b[1] not in domain:
                continue
            exp = tb["single"][a] != "no" and tb["single"][b] != "no"
            if (v != "no") and not exp:
                bad.append((a, b))
        con = f"gate-{gate}:conjunction"
        ctx.instance(con, cells=len(tb["pairs"]))
        if bad:
            a, b = bad[0]
            ctx.violation(con, tb["store_locs"][0][1],
                          f"{gate} gate with two predecessors {a} and {b} lets the task through although one of them alone is rejected "
                          f"({len(bad)} such pairs): a rejecting predecessor can be overridden by a later one", {"pairs": bad[:10]})
    ctx.end()


def r1_3(ctx):
    ctx.begin("R1.3", "BaseTask.record_state display table: identity except (absence step, WORKING) -> READY", floor=1)
    f = ctx.repo.method(TASK, "record_state")
    n = 0
    for working in (True, False):
        for s in ctx.repo.enums[TS]:
            I = mk_interp(ctx)
            outs = I.run_function(f, bind={"working": Const(working)}, heap={("self", "state"): E(TS, s)})
            exp = "READY" if (not working and s == "WORKING") else s
            for st, ex in outs:
                n += 1
                apps = [e for e in events(st.trace, "mut") if e.attr == "state_record_list" and e.op == "append"]
                got = [a.args[0].single() if a.args and isinstance(a.args[0], EnumSet) else repr(a.args) for a in apps]
                if got != [exp]:
                    ctx.violation(construct(f, f"working={working},state={s}"), f.loc(),
                                  f"record_state(working={working}) with state {s} appends {got}, expected [{exp}]")
    ctx.instance(construct(f, "table"), cells=n, sample={"cells": n})
    ctx.end()


def r1_4(ctx):
    ctx.begin("R1.4", "initial FINISHED store in BaseTask.initialize is guarded by default_progress >= 1 - tol", floor=1)
    f = ctx.repo.method(TASK, "initialize")
    for dp, expect in ((0.0, False), (0.5, False), (0.99, False), (1.0, True)):
        I = mk_interp(ctx)
        outs = I.run_function(f, bind={"state_info": Const(True), "log_info": Const(True), "__defaults__": True},
                              heap={("self", "default_progress"): Poly.const(dp)})
        for st, ex in outs:
            ss = stores_of(st.trace, attr="state")
            final = ss[-1].value.single() if ss and isinstance(ss[-1].value, EnumSet) else None
            ctx.instance(construct(f, f"default_progress={dp}"), sample={"default_progress": dp, "final_state": final})
            if (final == "FINISHED") != expect:
                ctx.violation(construct(f, "initial-finished-guard"), f.loc(),
                              f"initialize() with default_progress={dp} leaves state {final}; FINISHED expected only for complete default progress")
            if final not in ("NONE", "FINISHED"):
                ctx.violation(construct(f, "initial-state"), f.loc(), f"initialize() leaves task state {final}")
    ctx.end()


def r1_5(ctx):
    """A dependency the user declares must reach the lists the gates read: append_input_task / extend_input_task_list register
    [task, kind] on both sides for every kind, also when the same pair is already linked by another kind."""
    ctx.begin("R1.5", "declaring a dependency registers [task, kind] in input_task_list and in the predecessor's output_task_list", floor=2)
    kinds = list(ctx.repo.enums[DEP])
    for name in ("append_input_task", "extend_input_task_list"):
        g = ctx.repo.lookup_method(TASK, name)
        if g is None:
            continue
        for k_old in [None] + kinds:
            for k_new in kinds:
                T, P = Obj("self", TASK), Obj("P", TASK)
                heap = {("self", "input_task_list"): ListV([ListV([P, E(DEP, k_old)], True, "list")] if k_old else [], True, "list"),
                        ("P", "output_task_list"): ListV([ListV([T, E(DEP, k_old)], True, "list")] if k_old else [], True, "list")}
                arg = P if name.startswith("append") else ListV([P], True, "list")
                I = mk_interp(ctx, inline=lambda call, callee, depth: callee.cls == TASK, max_depth=3)
                outs = I.run_function(g, bind={g.params[1]: arg, g.params[2]: E(DEP, k_new)}, heap=heap)
                ctx.instance(construct(g, f"{k_old}+{k_new}"), cells=len(outs))
                for st, ex in outs:
                    if ex is not None and ex[0] == "raise":
                        continue
                    def has(lst, obj, kind):
                        return isinstance(lst, ListV) and any(isinstance(x, ListV) and len(x.items) == 2 and x.items[0] == obj and isinstance(x.items[1], EnumSet) and x.items[1].single() == kind
                                                              for x in lst.items)
                    li, lo = st.heap.get(("self", "input_task_list")), st.heap.get(("P", "output_task_list"))
                    if not (isinstance(li, ListV) and isinstance(lo, ListV)):
                        raise AnalysisError(f"R1.5: lists after {name} are not determined ({li!r}, {lo!r})")
                    if not has(li, P, k_new) or not has(lo, T, k_new) or (k_old and (not has(li, P, k_old) or not has(lo, T, k_old))):
                        ctx.violation(construct(g, "dependency-not-registered"), g.loc(),
                                      f"{name}(P, {k_new}) on a task that is {'already linked to P by ' + k_old if k_old else 'not linked to P'} leaves input_task_list={li!r}, "
                                      f"P.output_task_list={lo!r}: the declared {k_new} dependency (or the existing one) is not registered on both sides, so the gates never enforce it")
    # the argument may be any iterable (a filter / map / generator object): it must be consumed once -- a second pass over a
    # one-shot iterable sees nothing, so one side of the dependency would stay unregistered
    g = ctx.repo.lookup_method(TASK, "extend_input_task_list")
    if g is not None:
        p1 = g.params[1]
        uses = [n for n in ast.walk(g.node) if isinstance(n, ast.Name) and n.id == p1 and isinstance(n.ctx, ast.Load)]
        ctx.instance(construct(g, "single-pass"), sample={"uses": len(uses)})
        if len(uses) > 1:
            ctx.violation(construct(g, "argument-consumed-twice"), g.loc(uses[1]), f"extend_input_task_list reads its argument `{p1}` {len(uses)} times: with a one-shot iterable the later "
                          "pass is empty, so the dependency is registered on one side only and the gates (which read input_task_list) never enforce it")
    ctx.end()


def run(ctx):
    r1_1(ctx)
    r1_2(ctx)
    r1_3(ctx)
    r1_4(ctx)
    r1_5(ctx)
    # the gates read task.input_task_list: they respect the *declared* dependencies only if the one operation that rewrites these
    # lists temporarily (the backward run) swaps them back on every exit, for every setting of its options (C17)
    from .C17 import r17_1, r17_2
    r17_1(ctx)
    r17_2(ctx)
