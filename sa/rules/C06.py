"""C06 -- no avoidable waiting: work starts, proceeds and ends as early as the rules allow."""
import ast

from ..common import *
from ..errors import AnalysisError
from .. import spec
from ..gates import gate_tables, accept_set, finish_closure
from ..simstruct import loop_paths, working_of
from ..alloc import allocation_sites, alloc_trace, walk_alts

CLAIM = ("An optimality property; decided are its structural necessary conditions, each of which delays some start or finish by a "
         "step when broken: (R6.1) phase order inside one step (finish-check, leave workplace, ready-check, PERT, resource "
         "update, allocation, working-check, cost, perform, record, time) with the three state checks unconditional; (R6.2) the "
         "allocator considers exactly the READY and WORKING tasks, and the working-check starts READY automatic tasks without a "
         "component and READY tasks with a worker; (R6.3) greedy shape -- the worker loop of a task that needs no facility does "
         "not stop after the first allocation, every free skilled facility of the placed workplace is tried, nothing leaves the "
         "per-task loop early; (R6.4) the finish check is closed: over all FF/SF chains of length 2 and 3 in every task order one "
         "call finishes every task whose turn has come, and both gates accept every satisfied dependency. The idle-worker clause "
         "as a whole is not decided (run-time eligibility and contention).")
EXPLANATION = ("Phase sequences of the enumerated loop paths; element facts of the allocator's task loop; exits of the allocation "
               "loops; bounded closure test of the finish check by concrete interpretation of small chains; gate tables.")
ASSUMPTIONS = ["closure of the finish check is established for chains up to length 3 (quick) / 5 (thorough), not for arbitrary length"]
TECHNIQUE = "event-order queries on interpreted paths + bounded closure test by concrete abstract interpretation"

ORDER = ["finish-check", "removal", "ready-check", "pert", "resource-state", "allocate", "working-check", "cost", "perform", "record-workflow", "time"]


def r6_1(ctx):
    ctx.begin("R6.1", "phase order within a step; state checks unconditional", floor=2)
    f, loop = sim_loop(ctx)
    for i, p in enumerate(loop_paths(ctx, key="plain")):
        if p["exit"] is not None:
            continue
        w = working_of(p)
        names = [c for c, _ in p["phases"]]
        ctx.instance(construct(f, f"loop-path-{i}"), cells=len(names), sample={"working": w, "phases": names})
        want = [x for x in ORDER if (w or x not in ("resource-state", "allocate")) and x in names or x in ("finish-check", "ready-check", "working-check", "pert", "removal", "record-workflow", "time", "cost")]
        for x in ("finish-check", "ready-check", "working-check", "pert", "removal", "cost", "record-workflow", "time"):
            if x not in names:
                ctx.violation(construct(f, f"phase-missing:{x}"), f.loc(loop), f"phase `{x}` is missing on the {'working' if w else 'absence'} step path")
        if w:
            for x in ("allocate", "perform", "resource-state"):
                if x not in names:
                    ctx.violation(construct(f, f"phase-missing:{x}"), f.loc(loop), f"phase `{x}` is missing on the working step path")
        pos = {}
        for j, c in enumerate(names):
            pos.setdefault(c, j)
        last = None
        for x in ORDER:
            if x not in pos:
                continue
            if last is not None and pos[x] < pos[last]:
                ev = p["phases"][pos[x]][1]
                ctx.violation(construct(f, f"phase-order:{x}-before-{last}"), ev.loc,
                              f"phase `{x}` runs before `{last}`: e.g. a ready-check before the finish-check makes every FS successor start one step late",
                              {"phases": names})
            else:
                last = x
        # each state check occurs exactly once per step
        for x in ("finish-check", "ready-check", "working-check"):
            if names.count(x) != 1:
                ctx.violation(construct(f, f"phase-count:{x}"), f.loc(loop), f"`{x}` occurs {names.count(x)} times in one step")
    ctx.end()


def r6_2(ctx):
    ctx.begin("R6.2", "allocator looks at READY and WORKING tasks; working-check starts auto tasks and tasks with a worker", floor=3)
    f, trace, I = alloc_trace(ctx)
    tl = [e for e in trace if isinstance(e, Loop) and e.elem_cls == TASK]
    ctx.require(len(tl) == 1, f"expected one per-task loop in the allocator, found {len(tl)}")
    v = tl[0].elem_heap.get("state")
    got = set(v.members) if isinstance(v, EnumSet) else set(ctx.repo.enums[TS])
    ctx.instance(construct(f, "task-candidates"), sample={"states": sorted(got)})
    miss = {"READY", "WORKING"} - got
    if miss:
        ctx.violation(construct(f, "task-candidates"), tl[0].loc, f"the allocator never looks at tasks in state {sorted(miss)}: such a task can never get (more) workers")
    if isinstance(tl[0].coll, CollV):
        # every condition of the candidate filter, conjunct by conjunct: anything it reads of a task besides its state narrows
        # the candidates below "READY or WORKING" (such a task is never offered a worker, however idle the workers are)
        extra = []
        for pn, b in tl[0].coll.preds:
            for cj in (b.values if isinstance(b, ast.BoolOp) and isinstance(b.op, ast.And) else [b]):
                reads = {n.attr for n in ast.walk(cj) if isinstance(n, ast.Attribute) and isinstance(n.value, ast.Name) and n.value.id == pn}
                if reads - {"state"}:
                    extra.append(ast.unparse(cj))
        if extra:
            ctx.violation(construct(f, "task-candidates-filtered"), tl[0].loc, f"the allocator's task list is additionally filtered by {extra}")
    wf_check = ctx.repo.method(WORKFLOW, "check_state")
    W = Obj("W", WORKER)
    for auto, has_worker, comp, must in ((True, False, "none", True), (False, True, "none", True), (True, True, "none", True), (False, True, "comp", True)):
        T = Obj("T", TASK)
        heap = {("T", "state"): E(TS, "READY"), ("T", "auto_task"): Const(auto), ("T", "need_facility"): Const(False),
                ("T", "allocated_worker_list"): ListV([W] if has_worker else []), ("T", "allocated_facility_list"): ListV([])}
        if comp == "none":
            heap[("T", "target_component")] = Const(None)
        Iw = mk_interp(ctx, inline=lambda call, callee, depth: callee.cls == WORKFLOW, collections={"self.task_list": [T]}, max_depth=3)
        outs = Iw.run_function(wf_check, bind={"state": E(TS, "WORKING"), "time": Poly.sym("t")}, heap=heap)
        stored = [any(isinstance(e.recv, Obj) and e.recv.name == "T" and isinstance(e.value, EnumSet) and e.value.single() == "WORKING"
                      for e in stores_of(st.trace, attr="state")) for st, ex in outs]
        ctx.instance(f"working-gate:auto={auto},worker={has_worker},component={comp}", sample={"stores": stored})
        if must and not (stored and all(stored)):
            ctx.violation(f"working-gate:waits:auto={auto},worker={has_worker}", wf_check.loc(),
                          f"a READY task (auto_task={auto}, {'with' if has_worker else 'without'} worker, component={comp}) is not moved to WORKING by the working check: it waits in READY")
    ctx.end()


def r6_7(ctx):
    """'no worker stays FREE while ... a task exists that this worker is eligible for': the workers the allocator hands out are drawn
    from *all* workers of *all* teams of the organization (narrowed afterwards only by conditions on the worker itself and on the
    task at hand).  A pre-selection of teams -- by some other notion of 'in charge' than the eligibility test -- leaves a free,
    eligible worker out of every candidate list."""
    ctx.begin("R6.7", "worker candidates at every allocation site are drawn from every team's worker_list", floor=2)
    f, sites = allocation_sites(ctx)
    want = "self.organization.team_list / *.worker_list"
    for i, s in enumerate(sites):
        c = s.cand_coll
        base = c.base if isinstance(c, CollV) else None
        ev = s.ev.get("task<-worker") or next(iter(s.ev.values()))
        ctx.instance(construct(f, f"site-{i}"), sample={"candidates_from": base})
        if base is None:
            raise AnalysisError(f"R6.7: the worker candidates of the allocation site at {ev.loc} are not a collection with known provenance ({c!r})")
        if base != want:
            ctx.violation(construct(f, "worker-pool"), ev.loc, f"the workers offered at this allocation site come from `{base}`, not from every team's worker_list (`{want}`): "
                          f"a FREE worker of a team that is left out is never offered to the tasks his team targets")
    ctx.end()


def r6_3(ctx):
    ctx.begin("R6.3", "greedy shape of the allocation loops", floor=3)
    f, sites = allocation_sites(ctx)
    _, trace, _I = alloc_trace(ctx)
    for i, s in enumerate(sites):
        kind = "facility" if s.facility is not None else "worker-only"
        con = construct(f, f"greedy-{kind}")
        ctx.instance(f"{con}#{i}", sample={"exit": s.exit[0] if s.exit else "continue-loop", "loops": [l.iter_text for l in s.loops]})
        def early_exit_without_allocation(wl, what):
            for tr, ex in wl.alts:
                if ex is not None and ex[0] in ("break", "return") and not any(isinstance(e, Mut) and e.attr == "allocated_worker_list" for e in tr):
                    ctx.violation(con + ":candidate-loop-early-exit", wl.loc,
                                  f"the loop over {what} can be left by `{ex[0]}` on a path that allocates nobody: later candidates are never looked at and stay FREE "
                                  f"although the task would accept them")
        if kind == "worker-only":
            if s.worker_loop is None:
                ctx.violation(con + ":stops-after-first-worker", s.ev["task<-worker"].loc,
                              "a task that needs no facility takes one picked worker instead of looping over all eligible free workers: further eligible free workers stay idle")
                continue
            if s.exit is not None and s.exit[0] in ("break", "return") and s.loops[-1] is s.worker_loop:
                ctx.violation(con + ":stops-after-first-worker", s.ev["task<-worker"].loc,
                              "the worker loop of a task that needs no facility stops after the first allocation: further eligible free workers stay idle")
            # no alternative of that candidate loop may leave it early: a candidate that is rejected (solo flag, fixed IDs ...)
            # says nothing about the candidates after it
            early_exit_without_allocation(s.worker_loop, "eligible free workers")
        else:
            # one worker per facility, every free facility visited: the facility must be a loop variable inside the task loop; the
            # worker is either the variable of a candidate loop inside it or the first element picked from the candidate list
            if s.facility_loop is None or s.task_loop is None or (s.worker_loop is None and s.pick is None):
                ctx.violation(con + ":shape", s.ev["task<-worker"].loc, "facility allocation is not nested as task > facility > worker candidates")
                continue
            floop = s.facility_loop
            for tr, ex in floop.alts:
                if ex is not None and ex[0] in ("break", "return"):
                    ctx.violation(con + ":stops-after-first-facility", floop.loc, "the facility loop can be left early: other free facilities of the workplace stay idle")
            if s.worker_loop is not None:
                early_exit_without_allocation(s.worker_loop, "candidate workers of a facility")
    tl = [e for tr0, _ex0 in _I.all_traces for e in tr0 if isinstance(e, Loop) and e.elem_cls == TASK]
    for lp in tl:
        for tr, ex in lp.alts:
            ctx.instance(construct(f, "task-loop-exit"))
            if ex is not None and ex[0] in ("break", "return"):
                ctx.violation(construct(f, "task-loop-exit"), lp.loc, f"the per-task allocation loop can be left early by `{ex[0]}`: later tasks get no resources in this step")
    ctx.end()


def r6_4(ctx):
    ctx.begin("R6.4", "finish check is closed over FF/SF chains; gates accept every satisfied dependency", floor=20)
    res = finish_closure(ctx, max_chain=5 if ctx.thorough else 3)
    wf_check = ctx.repo.method(WORKFLOW, "check_state")
    bad = [r for r in res if not r[3]]
    ctx.instance("finish-closure", cells=len(res), sample={"chains": len(res), "not_closed": len(bad)})
    ctx.rules[ctx._cur]["instances"] += len(res) - 1
    if bad:
        order, kinds, finals, _ = bad[0]
        ctx.violation(construct(wf_check, "finish-check-not-closed"), wf_check.loc(),
                      f"{len(bad)} of {len(res)} small chains: tasks with zero remaining work linked by {list(kinds)} and listed in order {list(order)} end one "
                      f"check_state(FINISHED) call as {finals}: a task whose predecessor finishes in the same pass stays WORKING for an extra step "
                      f"(and the result depends on the order of the pass)", {"example": {"order": order, "kinds": kinds, "finals": finals}})
    tabs = gate_tables(ctx)
    for gate, rows in spec.GATE_LIVE.items():
        for dep, need in rows.items():
            acc = accept_set(tabs[gate], dep, "must")
            need2 = set(need) - {"WORKING_ADDITIONALLY"}
            ctx.instance(f"gate-{gate}:{dep}")
            if need2 - acc:
                ctx.violation(f"gate-{gate}:{dep}:must-accept", tabs[gate]["store_locs"][0][1], f"{gate} gate does not accept a {dep} predecessor in state {sorted(need2 - acc)}")
    ctx.end()


def r6_5(ctx):
    """'eligible' in the idle-worker clause is C04's notion: the allocator must use exactly those predicates (shared rules)."""
    from .C04 import r4_1, r4_2
    r4_1(ctx)
    r4_2(ctx)


def run(ctx):
    r6_1(ctx)
    r6_2(ctx)
    r6_7(ctx)
    r6_3(ctx)
    r6_4(ctx)
    r6_5(ctx)
    # a worker is FREE / WORKING / ABSENCE by the per-step state table and the start/finish transitions: a worker that is wrongly not
    # FREE is never offered to the task that waits for it
    from .C10 import r10_2
    from .C03 import r3_4
    r10_2(ctx)
    r3_4(ctx)
    # a component that cannot be placed keeps its facility task READY for ever: location and contents are reset together
    from ..initflags import group_rule
    group_rule(ctx, "R13.10", "placement", "a workplace keeps listing components that no longer report being there: their space is never given back")
    # ... and a component that fits must be let in: the move guard and the capacity arithmetic of can_put (each placed entry counts once)
    from .C13 import r13_3
    r13_3(ctx)
    # an idle worker is offered only through the team whose ID it carries: every method that adds a member sets that ID (C04)
    from .C04 import r4_5
    r4_5(ctx)
