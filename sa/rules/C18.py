"""C18 -- editing absence steps out of or into finished logs keeps all logs aligned."""
import ast

from ..common import *
from ..errors import AnalysisError
from .. import spec
from ..fanout import FanOut

CLAIM = ("Every armed rule instance held (apart from listed known findings): (R18.1) in remove_/insert_absence_time_list, "
         "interpreted from the project down the whole containment tree, every object of every class that owns per-step logs "
         "is reached exactly once and, per edited step, each of its logs gets exactly one well-formed pop(step) / "
         "insert(step, v) or none at all; steps are processed in descending order for removal and ascending for insertion; "
         "(R18.2) every edit is dominated by a bound test `step < len(log)` on a log of the same object, at every level, and "
         "project.time is adjusted once per step actually edited; (R18.3) inserted cost entries are 0.0, inserted remaining "
         "work copies the previous entry, inserted states are never WORKING; (R18.4) the project filters steps already "
         "present before fanning out. Insert-then-remove identity is not observed.")
EXPLANATION = ("Abstract interpretation of the two project-level editors with all same-named methods inlined down the tree; "
               "per-alternative edit vectors of every per-step loop; fan-out completeness; dominance of bound tests; "
               "value shapes of inserted entries.")
ASSUMPTIONS = ["all logs of one object have equal length before the call (C08)"]
TECHNIQUE = "abstract interpretation with inlining down the containment tree; per-path edit vectors; guard dominance"

LOG_CLASSES = sorted({c for (c, a) in spec.LOGS})


def logs_of(cls):
    return sorted(a for (c, a) in spec.LOGS if c == cls)


def run_editor(ctx, name):
    f = ctx.repo.method(PROJECT, name)

    def len_hook(I, call, st, fr):
        # Assumption (C08): all per-step logs of one object have the same length when an editor is entered, and the
        # editor keeps them equal step by step -- so `len(<obj>.<any log>)` is one symbol per object.
        if isinstance(call.func, ast.Name) and call.func.id == "len" and len(call.args) == 1 and isinstance(call.args[0], (ast.Attribute, ast.Name)):
            a = call.args[0]
            from ..interp import RefV
            if isinstance(a, ast.Name):
                r = st.env.get(a.id)   # a local alias of a log (`records = self.state_record_list`)
                if not isinstance(r, RefV):
                    return None
                base, attr = r.obj, r.attr
            else:
                base, attr = I.eval(a.value, st, fr), a.attr
            if isinstance(base, Obj) and base.cls and any(attr == la and is_subclass(ctx, base.cls, c) for (c, la) in spec.LOGS):
                sym = f"len({base.name}.$logs)"
                st.bounds.setdefault(sym, (0, None))
                return Poly.sym(sym)
        return None

    I = mk_interp(ctx, inline=lambda call, callee, depth: callee.name == name, max_depth=6, call_hook=len_hook)
    return f, I.run_function(f)


def edit_events(ctx, trace, owner, cls):
    out = []
    for e in flatten(trace):
        if isinstance(e, Mut) and e.op in ("pop", "insert", "delitem", "remove", "setitem") and isinstance(e.recv, Obj) and e.recv == owner \
                and e.attr in logs_of(cls):
            out.append(e)
    return out


def is_step_loop(ctx, lp):
    so = lp.self_obj
    if lp.elem_cls is not None:
        return None
    if not isinstance(so, Obj) or so.cls is None:
        # a loop in a shared module-level helper (no `self`): the object it edits is the common receiver of its edits
        recvs = {}
        for tr, ex in lp.alts:
            for e in flatten(tr):
                if isinstance(e, Mut) and e.op in ("pop", "insert", "delitem", "remove", "setitem") and isinstance(e.recv, Obj) and e.recv.cls:
                    c0 = next((c for c in LOG_CLASSES if is_subclass(ctx, e.recv.cls, c)), None)
                    if c0 is not None and e.attr in logs_of(c0):
                        recvs[e.recv.name] = e.recv
        if len(recvs) != 1:
            return None
        so = next(iter(recvs.values()))
        lp.self_obj = so
    cls = next((c for c in LOG_CLASSES if is_subclass(ctx, so.cls, c)), None)
    if cls is None:
        return None
    for tr, ex in lp.alts:
        if edit_events(ctx, tr, so, cls):
            return cls
    return None


def all_loops(trace):
    for e in trace:
        if isinstance(e, Loop):
            yield e
            for tr, ex in e.alts:
                yield from all_loops(tr)


def bound_test_on_log(cond, stepname, cls, owner=None, stepval=None):
    """Is this Cond a bound test `step < len(self.<log of cls>)` (in any of its spellings)?  -> truth value under
    which the step is inside the log, or None."""
    t = cond.node.test if isinstance(cond.node, ast.If) else None
    if t is None:
        return None
    neg = False
    while isinstance(t, ast.UnaryOp) and isinstance(t.op, ast.Not):
        neg = not neg
        t = t.operand
    if not (isinstance(t, ast.Compare) and len(t.ops) == 1):
        return None
    a, op, b = t.left, t.ops[0], t.comparators[0]

    def is_len_log(n):
        if not (isinstance(n, ast.Call) and isinstance(n.func, ast.Name) and n.func.id == "len" and len(n.args) == 1):
            return False
        a = n.args[0]
        if isinstance(a, ast.Name):
            # local alias of a log of this object, bound once:  records = self.state_record_list
            from ..effects import Effects
            al = Effects._aliases(cond.func, None).get(a.id)
            if al:   # (a loop variable over a table of this object's logs has one candidate per row: all must be logs)
                return all(isinstance(x, ast.Attribute) and isinstance(x.value, ast.Name) and x.value.id == "self" and x.attr in logs_of(cls) for x in al)
            # ... or a parameter of a shared helper that holds a log of the edited object (by value)
            if owner is not None and any(nm == a.id and tg in {f"{owner.name}.{la}" for la in logs_of(cls)} for nm, tg in zip(cond.vnames, cond.vtags)):
                return True
        return isinstance(a, ast.Attribute) and isinstance(a.value, ast.Name) and a.value.id == "self" and a.attr in logs_of(cls)

    def is_step(n):
        if isinstance(n, ast.Name) and stepval is not None and any(nm == n.id and tg == stepval for nm, tg in zip(cond.vnames, cond.vtags)):
            return True   # (the step handed to a helper under whatever name)
        return isinstance(n, ast.Name) and n.id == stepname

    inside = None
    if is_step(a) and is_len_log(b):
        inside = {ast.Lt: True, ast.GtE: False}.get(type(op))
    elif is_len_log(a) and is_step(b):
        inside = {ast.Gt: True, ast.LtE: False}.get(type(op))
    if inside is None:
        return None
    return inside != neg


def analyse(ctx, name, removing):
    f, outs = run_editor(ctx, name)
    ctx.require(len(outs) >= 1, f"no path through {name}")
    for st, ex in outs:
        # --- fan-out: every log of every object of each log class is edited by exactly one per-step loop (one loop for all logs of
        # the object, or one loop per log -- the logs are independent lists)
        for cls in LOG_CLASSES:
            worst = None
            for attr in logs_of(cls):
                def lm(lp, cls=cls, attr=attr):
                    if is_step_loop(ctx, lp) != cls:
                        return None
                    return ("steploop", cls, attr) if any(e.attr == attr for tr, ex2 in lp.alts for e in edit_events(ctx, tr, lp.self_obj, cls)) else None
                fo = FanOut(ctx, lambda ev: None, loop_match=lm)
                got = fo.counts(st.trace).get(("steploop", cls, attr), {0})
                if got != {1} and worst is None:
                    worst = (attr, got)
            con = f"{PROJECT}.{name}:reaches:{cls}"
            ctx.instance(con, sample={"class": cls, "logs": len(logs_of(cls)), "first_irregular": None if worst is None else [worst[0], sorted(worst[1])]})
            if worst is not None:
                attr, got = worst
                what = "never" if got == {0} else ("not for every object (skipped, filtered or conditional traversal)" if (0 in got or -1 in got) else f"{sorted(got)} times")
                ctx.violation(con, f.loc(), f"{name}: the per-step logs of {cls} objects are edited {what} ({cls}.{attr}); every object must be edited exactly once",
                              {"counts": sorted(got), "log": attr})
        # --- every step loop: order, vectors, guards, shapes
        for lp in all_loops(st.trace):
            cls = is_step_loop(ctx, lp)
            if not cls:
                continue
            owner = lp.self_obj
            con0 = f"{lp.func.qualname}"
            it = lp.node.iter
            # order: decided on the value the loop iterates over (`sorted(...)` written at the loop, bound to a local first, or
            # handed to a shared helper as an argument)
            from ..interp import OrderedUnk, CollV
            ok_order = isinstance(lp.coll, (OrderedUnk, CollV)) and lp.coll.reverse is not None
            rev = bool(lp.coll.reverse) if ok_order else False
            ctx.instance(f"{con0}:order")
            if not ok_order or rev != removing:
                ctx.violation(f"{con0}:step-order", lp.loc, f"{name}: steps must be processed in {'descending' if removing else 'ascending'} order "
                              f"(`{ast.unparse(it)[:60]}`), otherwise earlier edits shift the indices of later ones")
            stepname = lp.node.target.id if isinstance(lp.node.target, ast.Name) else None
            need = logs_of(cls)
            for tr, ex2 in lp.alts:
                evs = edit_events(ctx, tr, owner, cls)
                vec = {a: 0 for a in need}
                for e in evs:
                    vec[e.attr] += 1
                    # well-formed edit
                    want_op = "pop" if removing else "insert"
                    nargs = 1 if removing else 2
                    if e.op != want_op or len(e.args) != nargs or not (e.args and e.args[0] == lp.var):
                        ctx.violation(f"{con0}:malformed-edit:{e.attr}", e.loc,
                                      f"{name}: log {cls}.{e.attr} is edited by `{e.op}` with {len(e.args)} argument(s) "
                                      f"{'not at the step index ' if e.args and e.args[0] != lp.var else ''}(expected {want_op}(step{'' if removing else ', value'}))")
                ctx.instance(f"{con0}:vector", cells=len(need), sample={"owner_class": cls, "vector": vec})
                multi = sorted(a for a, n in vec.items() if n > 1)
                if multi:
                    ctx.violation(f"{con0}:edit-vector:{','.join(multi)}", lp.loc,
                                  f"{name}: for one step, {cls} logs are edited more than once in one pass: {vec} (each log gets one edit per step; which logs a pass covers is "
                                  f"decided by the traversal count above)")
                # guards (R18.2) are reported under their own rule by the caller
                conds = [c for c in tr if isinstance(c, Cond)]
                stepval = lp.var.tag if isinstance(lp.var, Unk) else None

                def bt(c):
                    return bound_test_on_log(c, stepname, cls, owner, stepval)
                guard = [bt(c) == c.truth for c in conds if bt(c) is not None]
                lp_guard_ok = bool(guard) and all(guard)
                if evs:
                    yield ("guard", cls, lp, lp_guard_ok, evs)
                if ex2 is not None and ex2[0] in ("break", "return"):
                    # leaving the step loop skips the remaining steps: harmless only when they are all beyond the end of the log,
                    # i.e. this step is (bound test false) and the steps come in ascending order
                    outside = [c for c in conds if bt(c) is not None and bt(c) != c.truth]
                    yield ("early-exit", cls, lp, bool(outside) and ok_order and not rev, ex2)
                # time adjustment inside the project's loop
                for e in flatten(tr):
                    if isinstance(e, Store) and e.attr == "time" and e.cls == PROJECT:
                        yield ("time-in-loop", cls, lp, bool(evs), e)
                for e in evs:
                    yield ("value", cls, lp, e, None)
        # time stores outside step loops
        for e in st.trace:
            if isinstance(e, Store) and e.attr == "time":
                yield ("time-outside", PROJECT, None, e, None)
        yield ("final", None, None, st, None)


def check(ctx):
    results = {}
    for name, removing in (("remove_absence_time_list", True), ("insert_absence_time_list", False)):
        ctx.begin("R18.1" if removing else "R18.1i", f"{name}: every log of every object edited exactly once per step, well-formed, right order, complete traversal", floor=10)
        results[name] = list(analyse(ctx, name, removing))
        ctx.end()
    ctx.begin("R18.2", "every edit dominated by a bound test on a log of the same object; time adjusted once per edited step", floor=10)
    for name, items in results.items():
        f = ctx.repo.method(PROJECT, name)
        time_ok = False
        for kind, cls, lp, a, b in items:
            if kind == "guard":
                con = f"{lp.func.qualname}:bound-guard"
                ctx.instance(con)
                if not a:
                    ctx.violation(con, lp.loc, f"{name}: {cls} log edit is not guarded by `step < len(<own log>)`: a step beyond the end of the run is "
                                  f"{'popped (IndexError)' if 'remove' in name else 'inserted here but skipped by the guarded levels'}, so logs diverge in length")
            elif kind == "early-exit":
                con = f"{lp.func.qualname}:early-exit"
                ctx.instance(con)
                if not a:
                    ctx.violation(con, lp.loc, f"{name}: the per-step loop over the {cls} logs is left early (`{b[0]}`) although later steps may still lie inside the log "
                                  f"(only an ascending pass may stop at the first step beyond the end): those steps are not edited here but are edited in the other objects, so logs diverge in length")
            elif kind == "time-in-loop":
                e = b
                d = e.value - e.prev if isinstance(e.value, Poly) and isinstance(e.prev, Poly) else None
                want = -1 if "remove" in name else 1
                ctx.instance(f"{f.qualname}:time-per-step")
                if a and d is not None and d.is_const() and d.const_value() == want:
                    time_ok = True
                else:
                    ctx.violation(f"{f.qualname}:time-adjust", e.loc, f"{name}: project.time adjusted by `{d!r}` {'with' if a else 'without'} an edit of the project's log in the same branch")
            elif kind == "time-outside":
                e = a
                ctx.instance(f"{f.qualname}:time-outside")
                ctx.violation(f"{f.qualname}:time-adjust-unconditional", e.loc,
                              f"{name}: project.time is adjusted outside the guarded per-step branch (`{ast.unparse(e.node)[:70]}`): it counts requested steps, "
                              f"not steps actually edited, so time != len(log) for steps beyond the end of the run")
        if not time_ok and not any(k == "time-outside" for k, *_ in items):
            ctx.violation(f"{f.qualname}:time-adjust-missing", f.loc(), f"{name}: project.time is never adjusted")
    ctx.end()
    ctx.begin("R18.3", "inserted values: cost 0.0; remaining work copies the previous entry (initial amount at step 0); states never WORKING", floor=8)
    for kind, cls, lp, e, _ in results["insert_absence_time_list"]:
        if kind != "value" or len(e.args) < 2:
            continue
        v = e.args[1]
        con = f"{lp.func.qualname}:inserted:{e.attr}"
        ctx.instance(con, sample={"log": f"{cls}.{e.attr}", "value": repr(v)[:80]})
        if e.attr == "cost_list":
            if not (isinstance(v, Poly) and v.is_const() and v.const_value() == 0):
                ctx.violation(con, e.loc, f"inserted absence step charges `{v!r}` in {cls}.cost_list (must be 0.0)")
        elif e.attr == "state_record_list":
            if not isinstance(v, EnumSet):
                ctx.violation(con, e.loc, f"inserted state is not a state constant: {v!r}")
            elif v.single() in ("WORKING", "WORKING_ADDITIONALLY"):
                ctx.violation(con, e.loc, f"inserted absence step logs {cls} as {v.single()} (an inserted step is a no-work step)")
        elif e.attr == "remaining_work_amount_record_list":
            txt = repr(v)
            prev_ok = isinstance(v, (Unk, Poly)) and "remaining_work_amount_record_list[step_time - 1]" in txt.replace("step - 1", "step_time - 1")
            init_ok = isinstance(v, Poly) and v == (Poly.sym(f"{e.recv.name}.default_work_amount") - Poly.sym(f"{e.recv.name}.default_progress") * Poly.sym(f"{e.recv.name}.default_work_amount"))
            if not (prev_ok or init_ok or "_record_list[" in txt):
                ctx.violation(con, e.loc, f"inserted remaining work `{txt[:80]}` is neither the previous entry nor the initial amount")
    # ID records: an inserted step repeats the previous entry; where the entry inserted for step 0 is None, later inserts must take
    # the previous entry *as it is* (slicing / copying / iterating a None entry raises half-way through the edit)
    import re as _re
    groups = {}
    for kind, cls, lp, e, _ in results["insert_absence_time_list"]:
        if kind == "value" and len(e.args) >= 2 and e.attr.endswith(("_id_record", "_id_record_list")):
            groups.setdefault((cls, e.attr), []).append(e)
    def classify(v, node, attr):
        """-> set of kinds among none / empty / prev (the previous entry as it is) / derived (computed from the previous entry) / other"""
        if isinstance(node, ast.IfExp):
            return classify(None, node.body, attr) | classify(None, node.orelse, attr)
        if (isinstance(v, Const) and v.v is None) or (isinstance(node, ast.Constant) and node.value is None):
            return {"none"}
        if (isinstance(v, ListV) and v.fresh and not v.items) or (isinstance(node, (ast.List, ast.Tuple)) and not node.elts):
            return {"empty"}
        if isinstance(v, Unk) and _re.search(r"\." + _re.escape(attr) + r"\[\w+ - 1\]$", v.tag):
            return {"prev"}
        if isinstance(node, ast.Subscript) and not isinstance(node.slice, ast.Slice) and isinstance(node.value, (ast.Name, ast.Attribute)) \
                and not any(isinstance(n, (ast.Call, ast.Subscript)) for n in ast.walk(node.slice)):
            return {"prev"}   # one entry of a record list, taken as it is (which index is R18.1's business)
        if (isinstance(v, Unk) and _re.search(r"\[\w+ - 1\]", v.tag)) or (node is not None and any(
                isinstance(n, ast.BinOp) and isinstance(n.op, ast.Sub) and isinstance(n.right, ast.Constant) and n.right.value == 1 for n in ast.walk(node))):
            return {"derived"}
        return {"other"}
    for (cls, attr), evs in sorted(groups.items()):
        kinds = [(e, classify(e.args[1], e.argnodes[1] if e.argnodes and len(e.argnodes) > 1 else None, attr)) for e in evs]
        has_none = any("none" in k for _e, k in kinds)
        ctx.instance(f"{cls}:inserted-id-record:{attr}", sample={"kinds": sorted({x for _e, k in kinds for x in k})})
        for e, k in kinds:
            if "other" in k or ("derived" in k and has_none):
                v = e.args[1]
                ctx.violation(f"{e.func.qualname}:inserted:{attr}", e.loc,
                              f"the entry inserted into {cls}.{attr} is `{repr(v)[-70:]}`" + (": it is derived from the previous entry by an operation, but the entry inserted for step 0 is None "
                              "-- inserting step 1 after step 0 then raises in the middle of the edit, leaving the logs with different lengths" if "derived" in k else
                              " (expected the previous entry, or None / [] at step 0)"))
    ctx.end()
    ctx.begin("R18.4", "project-level insert filters steps that are already absence steps before fan-out", floor=1)
    f = ctx.repo.method(PROJECT, "insert_absence_time_list")
    # concrete small case: steps 3 and 5 requested, 3 already registered -> every sub-model must be handed exactly [5]
    I = mk_interp(ctx, inline=lambda call, callee, depth: False)
    outs = I.run_function(f, bind={f.params[1]: ListV([Poly.const(3), Poly.const(5)], True, "list")},
                          heap={("self", "absence_time_list"): ListV([Poly.const(3)], True, "list")})
    n_calls = 0
    for st, ex in outs:
        for c in [e for e in flatten(st.trace) if isinstance(e, Call) and not e.inlined and e.callees and any(q.endswith(".insert_absence_time_list") for q in e.callees)
                  and isinstance(e.recv, Obj) and e.recv.name != "self"]:
            n_calls += 1
            arg = c.args.get(0, c.args.get("absence_time_list"))
            con = f"{f.qualname}:dedupe:{c.recv.name}"
            ctx.instance(con, sample={"argument": repr(arg)})
            if not isinstance(arg, ListV):
                raise AnalysisError(f"R18.4: the list handed to {c.name} is not determined on the small case ({arg!r})")
            vals = [x.const_value() for x in arg.items if isinstance(x, Poly) and x.is_const()]
            if 3 in vals or sorted(vals) != [5]:
                ctx.violation(con, c.loc, f"insert_absence_time_list([3, 5]) with step 3 already registered hands {sorted(vals)} to {c.recv.name}: "
                              "a step that is already an absence step is inserted twice" if 3 in vals else
                              f"insert_absence_time_list([3, 5]) with step 3 already registered hands {sorted(vals)} to {c.recv.name} (expected [5])")
    ctx.require(n_calls >= 3, "expected the three fan-out calls in BaseProject.insert_absence_time_list")
    # bookkeeping: afterwards the project's own absence_time_list holds every absence step exactly once (the remove path pops
    # one log entry and one unit of `time` per recorded entry)
    for st, ex in outs:
        if ex is not None and ex[0] == "raise":
            continue
        v = st.heap.get(("self", "absence_time_list"))
        con = f"{f.qualname}:bookkeeping"
        ctx.instance(con, sample={"absence_time_list": repr(v)})
        if not (isinstance(v, ListV) and all(isinstance(x, Poly) and x.is_const() for x in v.items)):
            raise AnalysisError(f"R18.4: project.absence_time_list after insert_absence_time_list([3, 5]) is not determined ({v!r})")
        got = sorted(x.const_value() for x in v.items)
        if got != [3, 5]:
            ctx.violation(con, f.loc(), f"after insert_absence_time_list([3, 5]) on a project whose absence_time_list was [3], the list is {got} (expected [3, 5], each step once): "
                          "a later remove_absence_time_list() pops one entry (and one unit of time) per recorded step")
    ctx.end()


def r18_6(ctx):
    """Inserted state, as a table over (entry before, entry after) for every class with a state log: never WORKING (an inserted
    step is a no-work step), and the siblings agree -- tasks with components, workers with facilities -- so that the step reads the
    same at every level (a component is FINISHED in the inserted step exactly when its task is)."""
    ctx.begin("R18.6", "inserted state by (entry before, entry after): never WORKING; task/component and worker/facility tables agree", floor=4)
    tabs = {}
    for cls, enum in ((TASK, TS), (COMPONENT, CS), (WORKER, WS), (FACILITY, FS_)):
        f = ctx.repo.method(cls, "insert_absence_time_list")
        tab = {}
        for b in ctx.repo.enums[enum]:
            for a in ctx.repo.enums[enum]:
                I = mk_interp(ctx)
                heap = {("self", "state_record_list"): ListV([E(enum, b), E(enum, a)], True, "list")}
                outs = I.run_function(f, bind={f.params[1]: ListV([Poly.const(1)], True, "list")}, heap=heap)
                got = set()
                for st, ex in outs:
                    if ex is not None and ex[0] == "raise":
                        got.add("an exception")
                    for e in flatten(st.trace):
                        if isinstance(e, Mut) and e.attr == "state_record_list" and e.op == "insert" and len(e.args) == 2:
                            v = e.args[1]
                            got.add(v.single() if isinstance(v, EnumSet) and v.single() else None)
                if len(got) != 1 or None in got:
                    raise AnalysisError(f"R18.6: the state {cls}.insert_absence_time_list inserts between {b} and {a} is not determined ({sorted(map(str, got))})")
                tab[(b, a)] = next(iter(got))
                ctx.instance(f"{f.qualname}:inserted-state:{b},{a}", sample={"inserted": tab[(b, a)]})
                if tab[(b, a)] == "WORKING":
                    ctx.violation(f"{f.qualname}:inserted-working", f.loc(), f"{cls}: the absence step inserted between a {b} and a {a} entry is logged WORKING (an inserted step is a no-work step)")
        tabs[cls] = (f, tab)
    for x, y in ((TASK, COMPONENT), (WORKER, FACILITY)):
        (fx, tx), (fy, ty) = tabs[x], tabs[y]
        for k in sorted(set(tx) & set(ty)):
            if tx[k] != ty[k]:
                ctx.violation(f"{fy.qualname}:inserted-state-sibling:{k[0]},{k[1]}", fy.loc(),
                              f"between a {k[0]} and a {k[1]} entry {x} inserts {tx[k]} but {y} inserts {ty[k]}: in the inserted step the two logs contradict each other "
                              f"(e.g. a component shown {ty[k]} while its only task is {tx[k]})")
    ctx.end()


def r18_5(ctx):
    """Log reversal re-maps the project's absence steps; steps the run never reached must be dropped, otherwise a later
    remove_absence_time_list() pops negative indices (real work steps, or IndexError)."""
    ctx.begin("R18.5", "reverse_log_information keeps only absence steps inside the run, mirrored", floor=1)
    g = ctx.repo.method(PROJECT, "reverse_log_information")
    cases = [([1, 12, 40], 10, [8]), ([0, 9], 10, [0, 9]), ([], 10, []), ([10], 10, [])]
    for absl, n, exp in cases:
        I = mk_interp(ctx, havoc_on_call=False)  # the per-object reversals it calls do not own the project's list
        heap = {("self", "cost_list"): ListV([Poly.const(i) for i in range(n)], True, "list"), ("self", "absence_time_list"): ListV([Poly.const(a) for a in absl], True, "list"),
                ("self", "time"): Poly.const(n)}   # (project.time equals the number of recorded steps: C08)
        outs = I.run_function(g, heap=heap)
        for st, ex in outs:
            v = st.heap.get(("self", "absence_time_list"))
            got = [int(x.const_value()) for x in v.items] if isinstance(v, ListV) and all(isinstance(x, Poly) and x.is_const() for x in v.items) else None
            ctx.instance(construct(g, f"absence={absl},steps={n}"), sample={"result": got})
            if got is None:
                raise AnalysisError(f"R18.5: cannot evaluate the absence-list re-mapping of reverse_log_information ({v!r})")
            if got != exp:
                ctx.violation(construct(g, "absence-remap"), g.loc(), f"log reversal of a {n}-step run with absence steps {absl} leaves absence_time_list = {got} (expected {exp}: "
                              f"mirrored, and only the steps inside the run)")
    ctx.end()


def run(ctx):
    check(ctx)
    r18_6(ctx)
    r18_5(ctx)
    # after a reload the project's cost list is its own list again (not the organization's): the editors touch each list once
    from .C16 import r16_1
    from ..jsontab import JsonTables
    r16_1(ctx, JsonTables(ctx))
