"""C14 -- a component's state is determined by the states of its tasks."""
import ast
import itertools

from ..common import *
from ..errors import AnalysisError
from ..simstruct import loop_paths

CLAIM = ("Every armed rule instance held: (R14.1) BaseComponent.check_state, interpreted over every set of task states "
         "present among the component's tasks (2^4 subsets incl. the empty one; 2^5 in the thorough tier) times every prior "
         "component state, yields FINISHED exactly when all tasks are FINISHED, WORKING whenever a task is WORKING, never "
         "NONE when a task is READY/WORKING and never writes NONE; (R14.2) on every path of a simulate() step, every phase "
         "that can change task states is followed by the product-wide state update before the next record, the update "
         "visits every component, and initialize() refreshes components after tasks.")
EXPLANATION = ("Exhaustive decision table of the three private component checks by abstract interpretation with the task list "
               "abstracted to the set of states present; phase-order query on the enumerated loop paths; traversal completeness "
               "of BaseProduct.check_state.")
ASSUMPTIONS = ["task states only advance and FINISHED is absorbing (C01 R1.1), hence components never leave FINISHED"]
EXHAUSTIVE = True  # the deciding tables range over the complete finite domain
TECHNIQUE = "exhaustive finite-domain decision table by abstract interpretation + must-pass-through on loop paths"


def r14_1(ctx):
    ctx.begin("R14.1", "component state decision table over (set of task states present) x (prior component state)", floor=60)
    f = ctx.repo.method(COMPONENT, "check_state")
    tstates = [s for s in ctx.repo.enums[TS] if ctx.thorough or s != "WORKING_ADDITIONALLY"]
    cstates = list(ctx.repo.enums[CS])
    for r in range(len(tstates) + 1):
        for present in itertools.combinations(tstates, r):
            tasks = [Obj(f"T_{s}", TASK) for s in present]
            heap0 = {(t.name, "state"): E(TS, s) for t, s in zip(tasks, present)}
            for prior in cstates:
                heap = dict(heap0)
                heap[("self", "state")] = E(CS, prior)
                I = mk_interp(ctx, inline=lambda call, callee, depth: callee.cls == COMPONENT, collections={"self.targeted_task_list": tasks}, max_depth=3)
                outs = I.run_function(f, heap=heap)
                ctx.instance(f"table[{','.join(present) or 'no-task'}|{prior}]", cells=len(outs))
                P = set(present)
                for st, ex in outs:
                    v = st.heap.get(("self", "state"))
                    res = v.single() if isinstance(v, EnumSet) else None
                    loc = f.loc()
                    key = f"present={sorted(P)},prior={prior}"
                    if res is None:
                        # the analyser cannot evaluate this formulation: never guess a verdict
                        raise AnalysisError(f"R14.1: component state not determined by the abstract task states for {key}: {v!r} (unrecognised idiom in check_state)")
                    stores = [e for e in stores_of(st.trace, attr="state") if isinstance(e.recv, Obj) and e.recv.name == "self"]
                    if any(isinstance(e.value, EnumSet) and e.value.single() == "NONE" for e in stores):
                        ctx.violation(construct(f, "stores-NONE"), stores[0].loc, f"check_state stores NONE ({key}): a component must never return to NONE")
                    allfin = P <= {"FINISHED"}
                    if (res == "FINISHED") != allfin and not (prior == "FINISHED" and res == "FINISHED" and not allfin and False):
                        if allfin:
                            ctx.violation(construct(f, "finished-iff-all-finished"), loc, f"{key}: all tasks FINISHED (or no task) but component becomes {res}")
                        elif prior != "FINISHED":
                            ctx.violation(construct(f, "finished-iff-all-finished"), loc, f"{key}: component becomes FINISHED although a task is not FINISHED")
                    if "WORKING" in P and res != "WORKING":
                        ctx.violation(construct(f, "working-when-any-working"), loc, f"{key}: a task is WORKING but component becomes {res}")
                    if ("READY" in P or "WORKING" in P) and res == "NONE":
                        ctx.violation(construct(f, "not-none-when-active"), loc, f"{key}: a task is READY/WORKING but component stays NONE")
                    if prior != "NONE" and res == "NONE":
                        ctx.violation(construct(f, "returns-to-none"), loc, f"{key}: component returns to NONE")
                    if prior == "FINISHED" and allfin and res != "FINISHED":
                        ctx.violation(construct(f, "leaves-finished"), loc, f"{key}: component leaves FINISHED")
    ctx.end()


def r14_2(ctx):
    ctx.begin("R14.2", "product state refreshed after every task-state phase and before record; complete traversal; init order", floor=4)
    f, loop = sim_loop(ctx)
    writers = {"finish-check", "ready-check", "working-check"}
    for i, p in enumerate(loop_paths(ctx, key="plain")):
        dirty = None
        phases = [c for c, _ in p["phases"]]
        ctx.instance(construct(f, f"loop-path-{i}"), cells=len(phases))
        for c, e in p["phases"]:
            if c in writers:
                dirty = (c, e)
            elif c == "product-state":
                dirty = None
            elif c.startswith("record") and dirty:
                ctx.violation(construct(f, f"product-state-after-{dirty[0]}"), dirty[1].loc,
                              f"task states may change in `{dirty[0]}` but components are recorded ({c}) without product.check_state() in between",
                              {"phases": phases})
                dirty = None
        if dirty and p["exit"] is None:
            ctx.violation(construct(f, f"product-state-after-{dirty[0]}"), dirty[1].loc,
                          f"step ends after `{dirty[0]}` without refreshing component states", {"phases": phases})
    # complete traversal in BaseProduct.check_state
    g = ctx.repo.method(PRODUCT, "check_state")
    I = mk_interp(ctx)
    outs = I.run_function(g)
    ok = False
    for st, ex in outs:
        for ev in st.trace:
            if isinstance(ev, Loop) and ev.iter_text.replace(" ", "") == "self.component_list":
                good = [all(any(isinstance(x, Call) and f"{COMPONENT}.check_state" in x.callees and isinstance(x.recv, Obj) and x.recv == ev.var
                                for x in flatten(tr)) for tr, ex2 in ev.alts if ex2 is None or ex2[0] == "continue")]
                exits = [ex2 for tr, ex2 in ev.alts]
                if all(good) and all(x is None for x in exits):
                    ok = True
    ctx.instance(construct(g, "traversal"))
    if not ok:
        ctx.violation(construct(g, "traversal"), g.loc(), "BaseProduct.check_state does not call check_state() on every component (skips, filters or early exits)")
    # initialize order: workflow before product; component initialize re-derives its state
    h = ctx.repo.method(PROJECT, "initialize")
    I = mk_interp(ctx)
    outs = I.run_function(h, bind={"state_info": Const(True), "log_info": Const(True)})
    for st, ex in outs:
        order = [x.callees[0] for x in st.trace if isinstance(x, Call) and x.callees]
        ctx.instance(construct(h, "order"), sample={"calls": order})
        wi = [i for i, q in enumerate(order) if q == f"{WORKFLOW}.initialize"]
        pi = [i for i, q in enumerate(order) if q == f"{PRODUCT}.initialize"]
        if not wi or not pi or max(wi) > min(pi):
            ctx.violation(construct(h, "product-after-workflow"), h.loc(), f"BaseProject.initialize must initialize the workflow before the product (calls: {order})")
    ci = ctx.repo.method(COMPONENT, "initialize")
    I = mk_interp(ctx, inline=lambda call, callee, depth: False)
    outs = I.run_function(ci, bind={"state_info": Const(True), "log_info": Const(True), "__defaults__": True})
    for st, ex in outs:
        seq = [x for x in st.trace if (isinstance(x, Store) and x.attr == "state") or (isinstance(x, Call) and f"{COMPONENT}.check_state" in x.callees)]
        ctx.instance(construct(ci, "rederive"))
        if not seq or not isinstance(seq[-1], Call):
            ctx.violation(construct(ci, "rederive-state"), ci.loc(), "BaseComponent.initialize(state_info=True) resets the state without re-deriving it from the task states afterwards")
    ctx.end()


def run(ctx):
    r14_1(ctx)
    r14_2(ctx)
    # "never returns to NONE": a resumed run must not re-derive component states from scratch (initialize(False, False) is a no-op)
    from .C15 import r15_1
    r15_1(ctx)
    # the clauses are read off the per-step *records*: tasks and components must show an absence step the same way (a WORKING
    # task and its WORKING component are both logged READY; nothing else is altered) -- the display tables of C10
    from .C10 import r10_3
    r10_3(ctx)
    # ... and an absence step inserted afterwards too: what the component editor inserts must be what the task editor inserts
    from .C18 import r18_6
    r18_6(ctx)
