"""C11 -- priority rules order candidates as documented and allocation never inverts them."""
import ast

from ..common import *
from ..errors import AnalysisError
from ..alloc import alloc_func, allocation_sites
from ..interp import Interp
from ..sorters import sorter_table

CLAIM = ("Every armed rule instance held: (R11.1) each of the four sort functions returns, on every branch, sorted(<its list "
         "parameter>, key=..., reverse=...) -- a stable sorted permutation -- and the unchanged parameter on fall-through; "
         "(R11.2) per rule member the leading key component reads exactly the documented attribute(s) in the documented direction "
         "(18 branches); (R11.3) for every call site and every member of the rule enum the callee either has a branch or falls "
         "through, and every kwargs[...] a branch reads unguarded is supplied by each call site that can reach it; (R11.4) no key "
         "compares ID strings by identity; (R11.5) each allocation loop iterates, through order-preserving operations only, a list "
         "whose last assignment is the matching sort function called with the task's own rule, and tasks are visited in the order "
         "returned by sort_task_list. The no-inversion clause under run-time contention is decided only in this structural part.")
EXPLANATION = ("Each sort function is interpreted abstractly once per member of its rule enum; every path must return the input "
               "or sorted(<input>, key, reverse); the key's AST gives reads and direction (whatever the dispatch idiom: if-chain, "
               "early return, rule table); call-site / kwargs agreement; order provenance of the allocator's loops.")
ASSUMPTIONS = ["Python's sorted() is stable", "greedy per-task allocation (C06 R6.3) and shrinking of the shared free list (C03 R3.2)"]
TECHNIQUE = "per-rule-member abstract interpretation of sibling sort functions (result = permutation value with key AST) + call-site/kwargs agreement + order-provenance dataflow"

SORTERS = {"sort_task_list": "TaskPriorityRuleMode", "sort_worker_list": "ResourcePriorityRuleMode",
           "sort_facility_list": "ResourcePriorityRuleMode", "sort_workplace_list": "WorkplacePriorityRuleMode"}

# documented key table: (function, member) -> (set of attributes the leading key reads, direction)
SPEC = {
    ("sort_task_list", "TSLACK"): ({"lst", "est"}, "asc"),
    ("sort_task_list", "EST"): ({"est"}, "asc"),
    ("sort_task_list", "SPT"): ({"default_work_amount"}, "asc"),
    ("sort_task_list", "LPT"): ({"default_work_amount"}, "desc"),
    ("sort_task_list", "FIFO"): ({"state_record_list"}, "desc"),
    ("sort_task_list", "LRPT"): ({"remaining_work_amount"}, "desc"),
    ("sort_task_list", "SRPT"): ({"remaining_work_amount"}, "asc"),
    ("sort_task_list", "LWRPT"): ({"parent_workflow", "critical_path_length"}, "desc"),
    ("sort_task_list", "SWRPT"): ({"parent_workflow", "critical_path_length"}, "asc"),
    ("sort_worker_list", "MW"): ({"main_workplace_id"}, "asc"),
    ("sort_worker_list", "SSP"): ({"workamount_skill_mean_map"}, "asc"),
    ("sort_worker_list", "VC"): ({"cost_per_time"}, "asc"),
    ("sort_worker_list", "HSV"): ({"workamount_skill_mean_map"}, "desc"),
    ("sort_facility_list", "SSP"): ({"workamount_skill_mean_map"}, "asc"),
    ("sort_facility_list", "VC"): ({"cost_per_time"}, "asc"),
    ("sort_facility_list", "HSV"): ({"workamount_skill_mean_map"}, "desc"),
    ("sort_workplace_list", "FSS"): ({"get_available_space_size()"}, "desc"),
    ("sort_workplace_list", "SSP"): ({"facility_list", "workamount_skill_mean_map", "has_workamount_skill()"}, "desc"),
}


def r11_1(ctx):
    ctx.begin("R11.1", "sort functions return a sorted permutation of their input for every rule member on every path", floor=4)
    for fname in SORTERS:
        f, enum, table = sorter_table(ctx, fname)
        p0 = f.params[0]
        ctx.require(enum == SORTERS[fname], f"{fname} dispatches on {enum}, expected {SORTERS[fname]}")
        ctx.instance(fname, cells=sum(len(v) for v in table.values()), sample={m: [repr(o.value)[:60] for o in outs] for m, outs in table.items()})
        for member, outs in table.items():
            if not outs:
                ctx.violation(f"{fname}:return", f.loc(), f"{fname} has no normally returning path for rule {member}")
            for o in outs:
                if isinstance(o.value, Const) and o.value.v is None:
                    ctx.violation(f"{fname}:return", f.loc(), f"{fname} does not return its (re-assigned) list parameter `{p0}` on every path (rule {member} returns None)")
                elif not o.permutation:
                    loc = f.loc(o.sorts[-1].node) if o.sorts else f.loc()
                    ctx.violation(f"{fname}:not-a-permutation", loc, f"{fname} returns `{o.value!r}` for rule {member}: not sorted(<the input list>, ...) nor the input itself -- elements may be dropped, duplicated or re-built")
        for n in ast.walk(f.node):
            if isinstance(n, ast.Call) and isinstance(n.func, ast.Attribute) and isinstance(n.func.value, ast.Name) and n.func.value.id == p0 \
                    and n.func.attr in ("pop", "remove", "append", "clear", "extend", "insert", "sort", "reverse"):
                ctx.violation(f"{fname}:mutates-input", f.loc(n), f"{fname} mutates its input list by `{n.func.attr}`")
    ctx.end()


def sorting_outcomes(ctx, fname, member):
    f, enum, table = sorter_table(ctx, fname)
    return f, [o for o in table.get(member, []) if o.sorted_call is not None], table.get(member, [])


def r11_2(ctx):
    ctx.begin("R11.2", "documented key and direction per rule member", floor=18)
    from ..exprnorm import normalise
    for (fname, member), (want_reads, want_dir) in SPEC.items():
        f, outs, allouts = sorting_outcomes(ctx, fname, member)
        con = f"{fname}:{member}"
        if not outs or len(outs) != len(allouts):
            ctx.instance(con)
            ctx.violation(con + ":branch-missing", f.loc(), f"{fname} does not sort for documented rule {member}" + (" on every path" if outs else ""))
            continue
        ctx.instance(con, sample={"reads": sorted(outs[0].reads()), "direction": outs[0].direction(), "paths": len(outs)})
        for o in outs:
            call = o.sorted_call.node
            reads, direction = o.reads(), o.direction()
            if reads != want_reads:
                ctx.violation(con + ":key", f.loc(call), f"{fname}/{member}: the leading sort key reads {sorted(reads)} (documented: {sorted(want_reads)})")
            if direction != want_dir:
                ctx.violation(con + ":direction", f.loc(call), f"{fname}/{member}: sorts {direction}ending (documented: {want_dir}ending)")
            lead, neg = o.lead()
            src = " ".join(ast.unparse(n) for n in o.key_nodes())
            if (fname, member) == ("sort_task_list", "TSLACK") and isinstance(lead, ast.expr) and o.key_param():
                p = o.key_param()
                want = normalise(ast.parse(f"{p}.lst - {p}.est", mode="eval").body)
                if neg or normalise(lead) != want:
                    ctx.violation("sort_task_list:TSLACK:formula", f.loc(call), f"TSLACK key is `{ast.unparse(lead)}`, not latest start minus earliest start")
            if member == "HSV" and fname in ("sort_worker_list", "sort_facility_list"):
                ok = False
                if isinstance(lead, ast.Call) and isinstance(lead.func, ast.Attribute) and lead.func.attr == "get" and len(lead.args) == 2:
                    d = ast.unparse(lead.args[1]).replace('"', "'").replace(" ", "")
                    dv = {"-float('inf')": -1, "float('-inf')": -1, "float('inf')": 1}.get(d)
                    if dv is not None:
                        k = -dv if neg else dv
                        ok = (k == 1 and not o.reverse()) or (k == -1 and o.reverse())
                if not ok:
                    ctx.violation(f"{fname}:HSV:missing-last", f.loc(call), f"{fname}/HSV: a resource without an entry for the task must sort last (its default key must be the worst value)")
    ctx.end()


def r11_7(ctx):
    """Small concrete inputs through the task sorter: three tasks with known numbers / histories in an order that the documented key
    must change (ties keep the input order).  Decides the *value* of the key where R11.2 decides which attributes it reads: a FIFO
    key that counts only part of the READY records, a slack computed from the wrong pair, reads the right attributes and sorts in
    the right direction, but orders these inputs differently."""
    ctx.begin("R11.7", "sort_task_list orders small concrete inputs by the documented key (stable for ties)", floor=6)
    g = ctx.repo.functions["sort_task_list"]
    R, W, N, Fi = (E(TS, x) for x in ("READY", "WORKING", "NONE", "FINISHED"))
    names = ["A", "B", "C"]
    cases = {
        # attribute values per task (A, B, C) and the expected order when the list is given as [B, A, C]
        "FIFO": ({"state_record_list": [ListV([R, R, W], True, "list"), ListV([N, N, R], True, "list"), ListV([R, W, R], True, "list")]}, ["A", "C", "B"]),
        "TSLACK": ({"lst": [Poly.const(5), Poly.const(9), Poly.const(4)], "est": [Poly.const(4), Poly.const(2), Poly.const(3)]}, ["A", "C", "B"]),
        "EST": ({"est": [Poly.const(2), Poly.const(7), Poly.const(2)]}, ["A", "C", "B"]),
        "SPT": ({"default_work_amount": [Poly.const(3), Poly.const(8), Poly.const(3)]}, ["A", "C", "B"]),
        "LPT": ({"default_work_amount": [Poly.const(8), Poly.const(3), Poly.const(8)]}, ["A", "C", "B"]),
        "LRPT": ({"remaining_work_amount": [Poly.const(6), Poly.const(1), Poly.const(6)]}, ["A", "C", "B"]),
        "SRPT": ({"remaining_work_amount": [Poly.const(1), Poly.const(6), Poly.const(1)]}, ["A", "C", "B"]),
    }
    members = ctx.repo.enums["TaskPriorityRuleMode"]
    for member, (attrs, want) in cases.items():
        if member not in members:
            continue
        objs = {n: Obj(n, TASK) for n in names}
        heap = {}
        for a, vals in attrs.items():
            for n, v in zip(names, vals):
                heap[(n, a)] = v
        I = mk_interp(ctx)
        outs = I.run_function(g, bind={g.params[0]: ListV([objs["B"], objs["A"], objs["C"]], True, "list"), g.params[1]: E("TaskPriorityRuleMode", member)}, heap=heap)
        for st, ex in outs:
            r = ex[1] if ex and ex[0] == "return" else None
            con = f"sort_task_list:{member}:concrete"
            if not (isinstance(r, ListV) and all(isinstance(x, Obj) for x in r.items)):
                raise AnalysisError(f"R11.7: sort_task_list({member}) on a concrete three-task input is not determined ({r!r})")
            got = [x.name for x in r.items]
            ctx.instance(con, sample={"input": ["B", "A", "C"], "result": got})
            if got != want:
                ctx.violation(con, g.loc(), f"sort_task_list({member}) orders the tasks {got}, the documented key gives {want} "
                              f"(values: { {a: [repr(v) for v in vs] for a, vs in attrs.items()} }; equal keys keep the input order B, A, C)")
    ctx.end()


def r11_3(ctx):
    ctx.begin("R11.3", "every rule member is accepted at every call site; kwargs read unguarded are supplied", floor=5)
    sites = []
    for g in ctx.repo.all_funcs():
        for n in ast.walk(g.node):
            if isinstance(n, ast.Call) and isinstance(n.func, ast.Name) and n.func.id in SORTERS:
                sites.append((g, n))
    for fname in SORTERS:
        f, enum, table = sorter_table(ctx, fname)
        my_sites = [(g, n) for g, n in sites if n.func.id == fname]
        if not my_sites:
            ctx.note(f"no call site of {fname} (R11.5 reports the unsorted loop)")
        for member, outs in table.items():
            need = set()
            for o in outs:
                need |= o.kwargs_needed()
            for g, n in my_sites:
                given = {kw.arg for kw in n.keywords if kw.arg}
                con = f"{fname}:{member}@{g.qualname}"
                ctx.instance(con)
                miss = need - given
                if miss:
                    ctx.violation(f"{fname}:{member}:kwargs-missing:{','.join(sorted(miss))}", g.loc(n),
                                  f"{fname} reads kwargs{sorted(miss)} for rule {member} but the call in {g.qualname} does not pass it: selecting {enum}.{member} raises KeyError")
    ctx.end()


def r11_4(ctx):
    ctx.begin("R11.4", "no identity comparison of ID values in sort keys", floor=4)
    for fname in SORTERS:
        f = ctx.repo.func(fname)
        ctx.instance(fname)
        for n in ast.walk(f.node):
            if isinstance(n, ast.Compare):
                for op, l, r in zip(n.ops, [n.left] + n.comparators[:-1], n.comparators):
                    if isinstance(op, (ast.Is, ast.IsNot)):
                        def single(x):
                            return isinstance(x, ast.Constant) and x.value in (None, True, False)
                        if not single(l) and not single(r):
                            ctx.violation(f"{fname}:identity-comparison", f.loc(n), f"`{ast.unparse(n)[:60]}` compares IDs by identity: equal-but-distinct strings (after a JSON load) sort differently")
    ctx.end()


def order_provenance(ctx, f, name0, anchor, sorter, rule_attr):
    """Walk back from the candidate list `name0` used at `anchor` (a loop or a pick statement) through order-preserving
    derivations to the sort-function call that ordered it.  -> (ok, why)"""
    name = name0
    ok, why = False, "the candidates are not taken from a named list"
    hops = 0
    line = anchor.lineno
    while name is not None and hops < 6:
        hops += 1
        assigns = [a for a in ast.walk(f.node) if isinstance(a, ast.Assign) and any(isinstance(t, ast.Name) and t.id == name for t in a.targets)
                   and a.lineno < line]
        # `tasks, workers = self.__gather(...)`: the name is one component of what a private helper returns -- go on inside the helper
        unpacked = [(a, i) for a in ast.walk(f.node) if isinstance(a, ast.Assign) and a.lineno < line and len(a.targets) == 1 and isinstance(a.targets[0], (ast.Tuple, ast.List))
                    for i, t in enumerate(a.targets[0].elts) if isinstance(t, ast.Name) and t.id == name]
        if unpacked and (not assigns or max(a.lineno for a, _i in unpacked) > max(a.lineno for a in assigns)):
            a, i = max(unpacked, key=lambda x: x[0].lineno)
            if isinstance(a.value, (ast.Tuple, ast.List)) and len(a.value.elts) == len(a.targets[0].elts):
                assigns = assigns + [ast.copy_location(ast.Assign(targets=[ast.Name(id=name, ctx=ast.Store())], value=a.value.elts[i], type_comment=None), a)]
            elif isinstance(a.value, ast.Call):
                callees, resolved = ctx.types.ftypes(f).resolve_call(a.value)
                if resolved and len(callees) == 1 and is_private_helper(callees[0]):
                    h = callees[0]
                    nested = {id(n) for d in ast.walk(h.node) if isinstance(d, (ast.FunctionDef, ast.Lambda)) and d is not h.node for n in ast.walk(d)}
                    rets = [r for r in ast.walk(h.node) if isinstance(r, ast.Return) and id(r) not in nested]
                    if len(rets) == 1 and isinstance(rets[0].value, ast.Tuple) and len(rets[0].value.elts) == len(a.targets[0].elts):
                        comp = rets[0].value.elts[i]
                        tmp = "__ret%d" % i
                        # treat `return (..., comp, ...)` as `tmp = comp` at the return statement and continue there
                        fake = ast.copy_location(ast.Assign(targets=[ast.Name(id=tmp, ctx=ast.Store())], value=comp, type_comment=None), rets[0])
                        f, name, line = h, tmp, rets[0].lineno + 1
                        assigns = [fake]
        if not assigns:
            why = f"`{name}` is never assigned before it is used"
            break
        last = max(assigns, key=lambda a: a.lineno)
        v = last.value
        if isinstance(v, ast.Call) and isinstance(v.func, ast.Name) and v.func.id == sorter:
            rule = v.args[1] if len(v.args) > 1 else next((kw.value for kw in v.keywords if kw.arg == "priority_rule_mode"), None)
            if rule_attr is None or (isinstance(rule, ast.Attribute) and rule.attr == rule_attr):
                ok = True
            else:
                why = f"{sorter} is called with `{ast.unparse(rule) if rule is not None else 'the default rule'}` instead of the task's {rule_attr}"
            break
        if isinstance(v, ast.Call) and isinstance(v.func, ast.Name) and v.func.id in SORTERS:
            why = f"`{name}` is ordered by {v.func.id}, not {sorter}"
            break
        nxt = Interp._source_name(v)
        if nxt is None or (nxt == name and not isinstance(v, (ast.ListComp, ast.Call))):
            why = f"`{name}` is rebuilt by `{ast.unparse(v)[:50]}` (not an order-preserving derivation of a sorted list)"
            break
        if nxt == name:
            # self-refinement (filter / comprehension over itself): look at the assignment before this one
            earlier = [a for a in assigns if a.lineno < last.lineno]
            if not earlier:
                why = f"`{name}` is never sorted"
                break
            v2 = max(earlier, key=lambda a: a.lineno).value
            if isinstance(v2, ast.Call) and isinstance(v2.func, ast.Name) and v2.func.id == sorter:
                ok = True
            break
        name = nxt
    # every assignment that can reach the use -- not only the textually last one -- must be such a derivation:
    # a conditional branch that re-uses a remembered order (or skips the sort) visits candidates in a stale order
    if ok and name0 is not None:
        pm = parent_map(f.node)
        assigns0 = [a for a in ast.walk(f.node) if isinstance(a, ast.Assign) and any(isinstance(t, ast.Name) and t.id == name0 for t in a.targets) and a.lineno < line]

        def conditional(a):
            g = pm.get(id(a))
            while g is not None and g is not f.node:
                if isinstance(g, (ast.If, ast.Try, ast.While)) and not any(x is anchor for x in ast.walk(g)):
                    return True
                g = pm.get(id(g))
            return False
        uncond = [a for a in assigns0 if not conditional(a)]
        last_unc = max(uncond, key=lambda a: a.lineno) if uncond else None
        reaching = [a for a in assigns0 if conditional(a) and (last_unc is None or a.lineno > last_unc.lineno)]
        for a in reaching:
            v = a.value
            is_sorter = isinstance(v, ast.Call) and isinstance(v.func, ast.Name) and v.func.id == sorter
            derives = Interp._source_name(v) == name0 and isinstance(v, (ast.ListComp, ast.Call))
            if not (is_sorter or derives):
                ok = False
                why = f"on one branch `{name0}` is taken from `{ast.unparse(v)[:50]}` instead of {sorter}(...) evaluated in this step"
    return ok, why


def r11_5(ctx):
    ctx.begin("R11.5", "allocation loops iterate lists last ordered by the matching sort function with the task's own rule", floor=4)
    f = alloc_func(ctx)
    _, sites = allocation_sites(ctx)
    loops = {}
    picks = {}
    for s in sites:
        for lp in s.loops:
            loops[id(lp.node)] = lp
        if s.pick is not None:
            picks[id(s.pick["node"])] = s
    expect = {TASK: ("sort_task_list", None), WORKER: ("sort_worker_list", "worker_priority_rule"), FACILITY: ("sort_facility_list", "facility_priority_rule")}
    # the loop over candidate workplaces: the loop of the allocation trace whose body (helpers included) places a component
    from ..alloc import alloc_trace, walk_alts
    _f0, trace0, _I0 = alloc_trace(ctx)

    def all_loops(tr):
        for e in tr:
            if isinstance(e, Loop):
                yield e
                for t2, _x in e.alts:
                    yield from all_loops(t2)
    for lp0 in all_loops(trace0):
        if lp0.elem_cls == WORKPLACE and any(isinstance(e, Call) and e.callees and e.callees[0].endswith("set_placed_workplace") for t2, _x in lp0.alts for e in flatten(t2)):
            loops[id(lp0.node)] = lp0
    expect[WORKPLACE] = ("sort_workplace_list", "workplace_priority_rule")
    seen = set()
    for lp in loops.values():
        cls = lp.elem_cls
        if cls not in expect:
            continue
        seen.add(cls)
        sorter, rule_attr = expect[cls]
        con = construct(f, f"order:{cls}")
        ctx.instance(f"{con}@{lp.node.lineno}")
        host = getattr(lp, "func", None) or f   # the function whose body holds the loop (the allocator or one of its helpers)
        ok, why = order_provenance(ctx, host, Interp._source_name(lp.node.iter), lp.node, sorter, rule_attr)
        if not ok:
            ctx.violation(con, lp.loc if hasattr(lp, "loc") else f.loc(lp.node), f"allocation loop over {cls} candidates: {why}: candidates are not visited in priority order")
    for s in picks.values():
        # a worker picked by position from the candidate list: the list must be in priority order and the position the first
        sorter, rule_attr = expect[WORKER]
        con = construct(f, f"order:{WORKER}")
        node = s.pick["node"]
        ctx.instance(f"{con}@pick{node.lineno}")
        ok, why = order_provenance(ctx, s.pick.get("func") or s.ev["task<-worker"].func, s.cand_name, node, sorter, rule_attr)
        if ok and s.pick["index"] != 0:
            ok, why = False, f"the worker is picked as `{s.pick['text']}`, not the first of the ordered candidates"
        if not ok:
            ctx.violation(con, f.loc(node), f"worker picked from the candidate list: {why}: the highest-priority candidate is not the one allocated")
    ctx.require({TASK, WORKER, FACILITY, WORKPLACE} <= seen, f"allocation loops found only for {sorted(seen)}")
    # a candidate loop that is left early hands the remaining (eligible) workers to lower-priority tasks
    for s in sites:
        wl = s.worker_loop
        if wl is None:
            continue
        for tr, ex in wl.alts:
            if ex is not None and ex[0] in ("break", "return") and not any(isinstance(e, Mut) and e.attr == "allocated_worker_list" for e in tr):
                ctx.violation(construct(f, "candidate-loop-early-exit"), wl.loc,
                              f"the loop over a task's candidate workers can be left by `{ex[0]}` without allocating anybody: the candidates after the rejected one "
                              f"remain free and are given to lower-priority tasks in the same step although this task could still accept them")
    ctx.end()


def r11_6(ctx):
    """The rule the user selects for a task must be the rule the allocator later hands to the sort functions: the constructor
    (and the JSON reader, C16) must store every member of the rule enums unchanged -- including the member whose value is 0."""
    ctx.begin("R11.6", "BaseTask.__init__ stores every selectable priority rule unchanged", floor=9)
    f = ctx.repo.method(TASK, "__init__")
    for param, enum in (("worker_priority_rule", "ResourcePriorityRuleMode"), ("facility_priority_rule", "ResourcePriorityRuleMode"),
                        ("workplace_priority_rule", "WorkplacePriorityRuleMode")):
        ctx.require(param in f.params, f"BaseTask.__init__ has no parameter {param}")
        for m in ctx.repo.enums[enum]:
            I = mk_interp(ctx)
            outs = I.run_function(f, bind={param: E(enum, m), "name": Const("t"), "__defaults__": True})
            ctx.instance(construct(f, f"{param}={m}"), cells=len(outs))
            for st, ex in outs:
                if ex is not None and ex[0] == "raise":
                    continue
                v = st.heap.get(("self", param))
                if not (isinstance(v, EnumSet) and v.single() == m):
                    ctx.violation(construct(f, f"rule-not-stored:{param}"), f.loc(),
                                  f"BaseTask({param}={enum}.{m}) stores {v!r} as the task's {param}: the rule the user selected is replaced, so candidates are ordered by a different key")
    ctx.end()


def r11_8(ctx):
    """Keys compare values: an `is` / `is not` between two non-singletons in a sort function or a helper of its module (`main_workplace_id
    is not workplace_id`) orders by object identity -- equal ID strings that are different objects (after a JSON load) then rank as
    different.  (C09 R9.2 applied to the priority-rule module.)"""
    ctx.begin("R11.8", "sort keys compare by value, never by identity", floor=4)
    mods = {ctx.repo.func(n).module for n in ("sort_task_list", "sort_worker_list", "sort_facility_list", "sort_workplace_list")}
    for g in ctx.repo.all_funcs():
        if g.module not in mods or g.cls is not None:
            continue
        ctx.instance(g.qualname)
        for n in ast.walk(g.node):
            if isinstance(n, ast.Compare):
                for op, right, left in zip(n.ops, n.comparators, [n.left] + n.comparators[:-1]):
                    if isinstance(op, (ast.Is, ast.IsNot)):
                        def singleton(x):
                            return (isinstance(x, ast.Constant) and x.value in (None, True, False)) or ctx.repo.enum_of_member_expr(x) is not None
                        if not singleton(left) and not singleton(right):
                            ctx.violation(construct(g, f"identity-comparison:{ast.unparse(left)[:30]}"), g.loc(n),
                                          f"`{ast.unparse(n)[:70]}` in a sort key compares by identity: equal ID strings that are different objects (e.g. after a JSON load) compare unequal, "
                                          f"so the documented key is not the one that orders the candidates")
    ctx.end()


def run(ctx):
    r11_8(ctx)
    r11_1(ctx)
    r11_2(ctx)
    r11_7(ctx)
    r11_3(ctx)
    r11_4(ctx)
    r11_5(ctx)
    r11_6(ctx)
    # the no-inversion clause needs every free facility of the workplace to be tried for a task before a lower-priority task is
    # looked at: the greedy-shape rule of C06
    from .C06 import r6_3
    r6_3(ctx)
    # "a free worker who is eligible for a higher-priority task ... is never given to a lower-priority task": a worker whom the
    # allocator wrongly judges ineligible for the higher task is passed on to the lower one -- the eligibility tests of C04
    from .C04 import r4_1
    r4_1(ctx)
