"""C12 -- PERT/CPM values equal an independent critical-path computation (FS networks)."""
import ast

from ..common import *
from ..errors import AnalysisError
from ..simstruct import loop_paths, working_of

CLAIM = ("Every armed rule instance held: (R12.1) in both PERT passes every attribute used as a relaxation accumulator "
         "(read, compared, then overwritten) is first stored for every task by an unconditional store inside a plain loop over "
         "the whole task list in the same call, so no value of an earlier call can survive; (R12.2) on symbolic finish-to-start "
         "chains of two and three tasks (remaining work as non-negative symbols, time as a symbol) the values computed by "
         "update_PERT_data equal the CPM formulas as polynomials -- on a fresh workflow and again after a second call at a "
         "later time with changed remaining work; (R12.3) update_PERT_data is reached from workflow initialisation and once per "
         "step before allocation. Numeric equality with an independent CPM on all DAGs (joins, forks) is not decided.")
EXPLANATION = ("AST def-use for compare-then-write accumulators and their per-call initialisation; abstract interpretation of "
               "update_PERT_data over symbolic chains with polynomial equality of est/eft/lst/lft and the critical path length; "
               "phase query on the loop paths.")
ASSUMPTIONS = ["remaining work is non-negative", "only chains are verified symbolically: max/min over several predecessors needs value comparisons the analysis does not decide"]
TECHNIQUE = "def-use accumulator lint + polynomial normal forms from abstract interpretation on symbolic FS chains"

PERT_ATTRS = ("est", "eft", "lst", "lft")


def pert_funcs(ctx):
    top = ctx.repo.method(WORKFLOW, "update_PERT_data")
    return [g for g in ctx.eff.reachable([top], precise=True) if g.cls == WORKFLOW and g is not top]


def prior_dependence(ctx):
    """Every PERT value is recomputed from the network in every call: with *arbitrary* values left in est/eft/lst/lft/critical
    path length by an earlier call (symbols without bounds), one update of an FS chain must still end with values that do not
    mention them -- a relaxation (`if new < t.lst: t.lst = new`) that is not re-initialised first keeps the old symbol on some
    path.  -> (func, [(instance, cells)], [(key, message)])"""
    f = ctx.repo.method(WORKFLOW, "update_PERT_data")
    insts, bad = [], []
    for n in (2, 3):
        try:
            tasks, res = chain_run(ctx, n, False, symbolic_prior=True)
        except AnalysisError as e:
            if "path explosion" not in str(e) and "max_paths" not in str(e):
                raise
            insts.append((f"chain{n}-arbitrary-prior", 1))
            bad.append(("paths", f"update_PERT_data on a chain of {n} tasks forks on the values left by an earlier call (more than 400 paths): its result depends on them"))
            continue
        ctx.require(res, "no path through update_PERT_data on a chain")
        insts.append((f"chain{n}-arbitrary-prior", len(res)))
        seen = {k for k, _ in bad}
        for st, tname, rname in res:
            for t in tasks:
                for a in ("est", "eft", "lst", "lft"):
                    got = st.heap.get((t.name, a))
                    if "old_" in repr(got) and a not in seen:
                        seen.add(a)
                        bad.append((a, f"update_PERT_data: with an arbitrary previous value, {t.name}.{a} ends as `{got!r}` on some path: `{a}` is compared with / relaxed against the "
                                       f"value of the previous call instead of being re-initialised, so e.g. a critical path that grew is never propagated (negative slack)"))
            cpl = st.heap.get(("self", "critical_path_length"))
            if "old_" in repr(cpl) and "critical_path_length" not in seen:
                seen.add("critical_path_length")
                bad.append(("critical_path_length", f"critical_path_length ends as `{cpl!r}`: it depends on the value of the previous call"))
    return f, insts, bad


def r12_1(ctx):
    ctx.begin("R12.1", "PERT values do not depend on what an earlier update left behind (symbolic prior values)", floor=2)
    f, insts, bad = prior_dependence(ctx)
    for name, cells in insts:
        ctx.instance(construct(f, name), cells=cells)
    for key, msg in bad:
        ctx.violation(construct(f, f"stale-accumulator:{key}"), f.loc(), msg)
    ctx.end()


def chain_run(ctx, n, two_calls, symbolic_prior=False):
    """Interpret update_PERT_data on an FS chain T0 -> T1 -> ... with symbolic remaining work."""
    f = ctx.repo.method(WORKFLOW, "update_PERT_data")
    tasks = [Obj(f"T{i}", TASK) for i in range(n)]
    from ..interp import State
    st = State()
    for i, t in enumerate(tasks):
        st.heap[(t.name, "remaining_work_amount")] = Poly.sym(f"r{i}")
        st.bounds[f"r{i}"] = (0, None)
        st.heap[(t.name, "input_task_list")] = ListV([ListV([tasks[i - 1], E(DEP, "FS")], True, "list")] if i > 0 else [])
        st.heap[(t.name, "output_task_list")] = ListV([ListV([tasks[i + 1], E(DEP, "FS")], True, "list")] if i + 1 < n else [])
        for a, v in (("est", 0), ("eft", 0), ("lst", -1), ("lft", -1)):
            st.heap[(t.name, a)] = Poly.sym(f"old_{a}_{i}") if symbolic_prior else Poly.const(v)
    if symbolic_prior:
        st.heap[("self", "critical_path_length")] = Poly.sym("old_cpl")
    st.bounds["t"] = (0, None)
    st.bounds["u"] = (0, None)
    I = mk_interp(ctx, inline=lambda call, callee, depth: callee.cls == WORKFLOW, collections={"self.task_list": tasks}, max_depth=3, unroll_while=n + 3,
                  max_paths=400 if symbolic_prior else 3000)
    outs = I.run_function(f, bind={"time": Poly.sym("t")}, st=st)
    if not two_calls:
        return tasks, [(s1, "t", "r") for s1, ex in outs]
    res = []
    for s1, ex in outs:
        s1.trace = []
        for i, t in enumerate(tasks):
            s1.heap[(t.name, "remaining_work_amount")] = Poly.sym(f"q{i}")
            s1.bounds[f"q{i}"] = (0, None)
        s1.env = {}
        I2 = mk_interp(ctx, inline=lambda call, callee, depth: callee.cls == WORKFLOW, collections={"self.task_list": tasks}, max_depth=3, unroll_while=n + 3)
        outs2 = I2.run_function(f, bind={"time": Poly.sym("t") + Poly.sym("u") + Poly.const(1)}, st=s1)
        res.extend((s2, "t + u + 1", "q") for s2, ex2 in outs2)
    return tasks, res


def r12_2(ctx):
    ctx.begin("R12.2", "CPM formulas hold as polynomials on symbolic FS chains (fresh, and after a second update)", floor=4)
    f = ctx.repo.method(WORKFLOW, "update_PERT_data")
    for n in (2, 3):
        for two in (False, True):
            tasks, res = chain_run(ctx, n, two)
            ctx.require(res, "no path through update_PERT_data on a chain")
            for st, tname, rname in res:
                T = Poly.sym("t") if tname == "t" else Poly.sym("t") + Poly.sym("u") + Poly.const(1)
                r = [Poly.sym(f"{rname}{i}") for i in range(n)]
                total = T
                for x in r:
                    total = total + x
                ctx.instance(construct(f, f"chain{n}-{'second-call' if two else 'fresh'}"), cells=4 * n + 1)
                acc = T
                bad = []
                for i, t in enumerate(tasks):
                    exp = {"est": acc, "eft": acc + r[i]}
                    tail = total
                    for j in range(n - 1, i, -1):
                        tail = tail - r[j]
                    exp["lft"] = tail
                    exp["lst"] = tail - r[i]
                    for a, ev in exp.items():
                        got = st.heap.get((t.name, a))
                        if not (isinstance(got, Poly) and got == ev):
                            bad.append((t.name, a, repr(got), repr(ev)))
                    acc = acc + r[i]
                cpl = st.heap.get(("self", "critical_path_length"))
                if not (isinstance(cpl, Poly) and cpl == total):
                    bad.append(("workflow", "critical_path_length", repr(cpl), repr(total)))
                if bad:
                    tn, a, got, ev = bad[0]
                    ctx.violation(construct(f, f"formula:{a}:{'second-call' if two else 'fresh'}"), f.loc(),
                                  f"FS chain of {n} tasks, {'second update at a later time with changed remaining work' if two else 'fresh workflow'}: {tn}.{a} = `{got}` "
                                  f"but the critical-path formula gives `{ev}` ({len(bad)} value(s) differ)", {"differences": bad[:8]})
    ctx.end()


def dag_run(ctx, n, edges, rem, order):
    """Interpret update_PERT_data on an FS network given by edges (i -> j) with remaining work polynomials `rem`."""
    from ..interp import State
    f = ctx.repo.method(WORKFLOW, "update_PERT_data")
    tasks = [Obj(f"T{i}", TASK) for i in range(n)]
    st = State()
    for i, t in enumerate(tasks):
        st.heap[(t.name, "remaining_work_amount")] = rem[i]
        st.heap[(t.name, "input_task_list")] = ListV([ListV([tasks[a], E(DEP, "FS")], True, "list") for a, b in edges if b == i])
        st.heap[(t.name, "output_task_list")] = ListV([ListV([tasks[b], E(DEP, "FS")], True, "list") for a, b in edges if a == i])
        for a, v in (("est", 0), ("eft", 0), ("lst", -1), ("lft", -1)):
            st.heap[(t.name, a)] = Poly.const(v)
    for sym in ("t", "a", "b", "c", "d", "e"):
        st.bounds[sym] = (0, None)
    I = mk_interp(ctx, inline=lambda call, callee, depth: callee.cls == WORKFLOW, collections={"self.task_list": [tasks[i] for i in order]},
                  max_depth=3, unroll_while=n + 3, max_paths=400)
    return f, tasks, I.run_function(f, bind={"time": Poly.sym("t")}, st=st)


def r12_2b(ctx):
    """Joins, forks and a diamond: one branch is longer by a non-negative symbol `e`, so every max/min the passes take is
    decidable by interval reasoning (or forks on e == 0, where both outcomes coincide)."""
    import itertools
    ctx.begin("R12.2b", "CPM formulas on symbolic FS join / fork / diamond (branch lengths differ by a non-negative symbol)", floor=3)
    P = Poly.sym
    t, a, b, c, d, e = (P(x) for x in "tabcde")
    shapes = {
        # join: T0 -> T2 <- T1 ; r0 = b + e (longer), r1 = b
        "join": (3, [(0, 2), (1, 2)], [b + e, b, c],
                 lambda: {0: (t, t + b + e, t, t + b + e), 1: (t, t + b, t + e, t + b + e), 2: (t + b + e, t + b + e + c, t + b + e, t + b + e + c)}, t + b + e + c),
        # fork: T0 -> T1, T0 -> T2 ; r1 = b + e, r2 = b
        "fork": (3, [(0, 1), (0, 2)], [a, b + e, b],
                 lambda: {0: (t, t + a, t, t + a), 1: (t + a, t + a + b + e, t + a, t + a + b + e), 2: (t + a, t + a + b, t + a + e, t + a + b + e)}, t + a + b + e),
        # diamond: T0 -> T1 -> T3, T0 -> T2 -> T3 ; r1 = b + e, r2 = b
        "diamond": (4, [(0, 1), (0, 2), (1, 3), (2, 3)], [a, b + e, b, d],
                    lambda: {0: (t, t + a, t, t + a), 1: (t + a, t + a + b + e, t + a, t + a + b + e), 2: (t + a, t + a + b, t + a + e, t + a + b + e),
                             3: (t + a + b + e, t + a + b + e + d, t + a + b + e, t + a + b + e + d)}, t + a + b + e + d),
    }
    for name, (n, edges, rem, exp_f, cpl) in shapes.items():
        orders = list(itertools.permutations(range(n))) if ctx.thorough else [tuple(range(n)), tuple(reversed(range(n)))]
        for order in orders:
            f, tasks, outs = dag_run(ctx, n, edges, rem, order)
            exp = exp_f()
            ctx.instance(construct(f, f"{name}-order{''.join(map(str, order))}"), cells=len(outs) * (4 * n + 1))
            for st, ex in outs:
                bad = []
                for i, tk in enumerate(tasks):
                    for an, ev in zip(("est", "eft", "lst", "lft"), exp[i]):
                        got = st.heap.get((tk.name, an))
                        if not (isinstance(got, Poly) and got == ev):
                            # on the path where e == 0 was assumed the two branches coincide
                            lo, hi = st.bounds.get("e", (0, None))
                            if hi == 0 and isinstance(got, Poly) and got.subst({"e": Poly.const(0)}) == ev.subst({"e": Poly.const(0)}):
                                continue
                            bad.append((tk.name, an, repr(got), repr(ev)))
                got = st.heap.get(("self", "critical_path_length"))
                lo, hi = st.bounds.get("e", (0, None))
                same_at_zero = hi == 0 and isinstance(got, Poly) and got.subst({"e": Poly.const(0)}) == cpl.subst({"e": Poly.const(0)})
                if not (isinstance(got, Poly) and got == cpl) and not same_at_zero:
                    bad.append(("workflow", "critical_path_length", repr(got), repr(cpl)))
                if bad:
                    tn, an, g, ev = bad[0]
                    ctx.violation(construct(f, f"formula:{name}:{an}"), f.loc(),
                                  f"FS {name} (task_list order {list(order)}, one branch longer by e >= 0): {tn}.{an} = `{g}` but the critical-path computation gives `{ev}` "
                                  f"({len(bad)} value(s) differ)", {"differences": bad[:8]})
    ctx.end()


def r12_3(ctx):
    ctx.begin("R12.3", "update_PERT_data is called at initialisation and once per step before allocation", floor=2)
    wi = ctx.repo.method(WORKFLOW, "initialize")
    I = mk_interp(ctx)
    outs = I.run_function(wi, bind={"state_info": Const(True), "log_info": Const(True)})
    for st, ex in outs:
        calls = [e for e in st.trace if isinstance(e, Call) and f"{WORKFLOW}.update_PERT_data" in e.callees]
        ctx.instance(construct(wi, "pert-at-init"))
        if len(calls) != 1:
            ctx.violation(construct(wi, "pert-at-init"), wi.loc(), f"BaseWorkflow.initialize(state_info=True) calls update_PERT_data {len(calls)} time(s)")
    f, loop = sim_loop(ctx)
    for i, p in enumerate(loop_paths(ctx, key="plain")):
        if p["exit"] is not None or not working_of(p):
            continue
        names = [c for c, _ in p["phases"]]
        ctx.instance(construct(f, f"pert-per-step-path-{i}"))
        if names.count("pert") != 1 or "allocate" not in names or names.index("pert") > names.index("allocate"):
            ctx.violation(construct(f, "pert-before-allocate"), f.loc(loop), f"PERT data are updated {names.count('pert')} time(s) per working step / not before allocation: priorities use stale slack")
    ctx.end()


def r12_4(ctx):
    """'earliest finish = earliest start + remaining work ... slack is never negative': the passes relax `est`/`eft` upwards from the
    reset value t, which is right only while no task carries *negative* remaining work into the update.  In a finish-to-start
    network a task whose work is used up is FINISHED at the next finish check, and that check stores remaining work 0 with the
    state -- otherwise an overshoot (2.5 units of work done in steps of 1) stays negative for the rest of the run."""
    ctx.begin("R12.4", "the finish check stores remaining_work_amount = 0 together with FINISHED", floor=1)
    g = ctx.repo.method(WORKFLOW, "check_state")
    I = mk_interp(ctx, inline=lambda call, callee, depth: callee.cls == WORKFLOW)
    n = 0
    for st, ex in I.run_function(g, bind={"state": E(TS, "FINISHED"), "time": Poly.sym("t")}):
        for lp in [e for e in flatten(st.trace, into_loops=False) if isinstance(e, Loop)] + [e for e in flatten(st.trace) if isinstance(e, Loop)]:
            for tr, ex2 in lp.alts:
                fin = [e for e in tr if isinstance(e, Store) and e.attr == "state" and e.cls == TASK and isinstance(e.value, EnumSet) and e.value.single() == "FINISHED"]
                for e in fin:
                    n += 1
                    zero = [z for z in tr if isinstance(z, Store) and z.attr == "remaining_work_amount" and z.recv == e.recv and isinstance(z.value, Poly) and z.value.is_const() and z.value.const_value() == 0]
                    ctx.instance(construct(g, "finish-branch"), sample={"zeroed": bool(zero)})
                    if not zero:
                        ctx.violation(construct(g, "finish-without-zero"), e.loc, "a task is set FINISHED without its remaining_work_amount being set to 0 in the same branch: "
                                      "an overshoot stays negative, and the PERT passes (which only relax upwards from the current time) leave stale earliest finishes on its successors")
    ctx.require(n >= 1, "no store of FINISHED found in the finish check")
    ctx.end()


def run(ctx):
    r12_4(ctx)
    r12_1(ctx)
    r12_2(ctx)
    r12_2b(ctx)
    r12_3(ctx)
    # PERT = CPM presupposes the dependency structure the user built: a backward run must hand it back unchanged
    from .C17 import r17_1, r17_2, r17_3
    r17_1(ctx)
    r17_2(ctx)
    r17_3(ctx)
    # PERT on a reloaded project: predecessor and successor lists are re-linked as saved (C16 re-link table)
    from .C16 import r16_2
    from ..jsontab import JsonTables
    r16_2(ctx, JsonTables(ctx))
    # the forward pass walks output_task_list, the backward pass input_task_list: a dependency must be registered on both sides,
    # whatever kind of iterable it was declared with (C01 R1.5)
    from .C01 import r1_5
    r1_5(ctx)
