"""C03 -- resource allocation is exclusive and two-way consistent at every step."""
import ast

from ..common import *
from ..errors import AnalysisError
from ..interp import LocalSet, Interp
from ..alloc import allocation_sites, alloc_func

CLAIM = ("The statement is an inductive invariant; every local proof obligation of that induction held: (R3.1) each growth of a "
         "task's allocated worker/facility list is paired in the same block with the mirrored growth of that resource's "
         "assigned-task list; (R3.2) a worker is FREE when allocated and is filtered out of the shared free collection, from which "
         "all later candidate lists are derived, before the next candidate is looked at; facility re-use is excluded by a fresh "
         "can_add_resources (C04); (R3.3) on the path that stores FINISHED both task-side lists are reset to empty and each held "
         "resource drops the task and becomes FREE; (R3.4) READY->WORKING sets every allocated worker (and facility, when needed) "
         "WORKING, a WORKING task promotes its FREE resources, and nothing else in a step writes a resource's state besides the "
         "per-step absence update and the release; (R3.5) only READY/WORKING tasks reach an allocation site. The invariant itself "
         "is not observed in logs.")
EXPLANATION = ("Allocation sites with their facts from the interpreted allocator; def-use of the free-worker collection; concrete "
               "small-instance interpretation of the finish and working checks; who-may-write of resource state.")
ASSUMPTIONS = ["exclusivity follows by induction over steps from these local obligations together with C04's eligibility rules"]
TECHNIQUE = "pairing / dominance checks on interpreted allocation sites + concrete small-instance abstract interpretation"


def r3_1(ctx):
    ctx.begin("R3.1", "two-way pairing at every allocation site", floor=2)
    f, sites = allocation_sites(ctx)
    for i, s in enumerate(sites):
        ew, ewt = s.ev.get("task<-worker"), s.ev.get("worker<-task")
        ef, eft = s.ev.get("task<-facility"), s.ev.get("facility<-task")
        con = construct(f, "site-" + ("facility" if ef or eft else "worker-only"))
        ctx.instance(f"{con}#{i}", sample={"events": sorted(s.ev)})
        if ew is not None:
            if ewt is None or ewt.recv != ew.args[0] or not ewt.args or ewt.args[0] != ew.recv:
                ctx.violation(con + ":worker-side-missing", ew.loc, "a worker is appended to task.allocated_worker_list without the task being appended to that worker's assigned_task_list in the same block")
        elif ewt is not None:
            ctx.violation(con + ":task-side-missing", ewt.loc, "a task is appended to worker.assigned_task_list without the worker being appended to the task's allocated_worker_list")
        if ef is not None:
            if eft is None or eft.recv != ef.args[0] or not eft.args or eft.args[0] != ef.recv:
                ctx.violation(con + ":facility-side-missing", ef.loc, "a facility is appended to task.allocated_facility_list without the task being appended to that facility's assigned_task_list in the same block")
        elif eft is not None:
            ctx.violation(con + ":task-side-missing-facility", eft.loc, "a task is appended to facility.assigned_task_list without the facility being appended to the task's allocated_facility_list")
        for e in s.trace:
            if isinstance(e, Mut) and e.attr in ("allocated_worker_list", "allocated_facility_list", "assigned_task_list") and e.op not in ("append",):
                ctx.violation(con + ":other-mutation", e.loc, f"allocation block mutates {e.attr} by `{e.op}`")
    # no other simulation-reachable code grows these lists
    from ..alloc import alloc_region
    inside = {id(g.node) for g in alloc_region(ctx)}   # the allocator and the private helpers it is split into
    for g in sim_reach(ctx, precise=not ctx.thorough):
        if g is f or id(g.node) in inside:
            continue
        for ef_ in ctx.eff.of(g):
            if ef_.kind == "mut" and ef_.op in ("append", "extend", "insert") and ef_.attr in ("allocated_worker_list", "allocated_facility_list", "assigned_task_list"):
                ctx.violation(construct(g, f"grows:{ef_.attr}"), ef_.loc, f"{g.qualname} grows {ef_.attr} outside the allocator")
    ctx.end()


def r3_2(ctx):
    ctx.begin("R3.2", "an allocated worker leaves the shared free collection before the next candidate is considered", floor=2)
    f, sites = allocation_sites(ctx)
    for i, s in enumerate(sites):
        ew = s.ev.get("task<-worker")
        if ew is None:
            continue
        W = ew.args[0]
        con = construct(f, "site-" + ("facility" if s.facility is not None else "worker-only"))
        if s.worker_loop is None and s.pick is None:
            ctx.instance(f"{con}#{i}")
            ctx.violation(con + ":candidate-source", ew.loc, "the allocated worker is neither the variable of a candidate loop nor an element picked from a candidate list: cannot tell where it comes from")
            continue
        idx = s.trace.index(ew)
        # a collection bound after the append whose elements are known to differ from the allocated worker (by ID or identity)
        narrowed = []
        wtag = "<" + W.name + ">" if isinstance(W, Obj) else None
        for e in s.trace[idx:]:
            if isinstance(e, LocalSet) and isinstance(e.value, CollV) and wtag:
                if any(wtag in cp and (" NotEq " in cp or " IsNot " in cp or "!=" in cp or " is not " in cp) for cp in e.value.cpreds):
                    narrowed.append(e)
        ctx.instance(f"{con}#{i}", sample={"narrowed": [e.name for e in narrowed]})
        if not narrowed:
            ctx.violation(con + ":free-list-not-narrowed", ew.loc, "after allocating a worker the shared collection of free workers is not rebuilt without that worker: a later task can take the same worker in this step")
            continue
        # the narrowed collection must be the one the worker candidates are drawn from (same origin)
        cand = s.cand_coll
        cbase = cand.base if isinstance(cand, CollV) else (cand.tag if isinstance(cand, Unk) else None)
        if not any(e.value.base == cbase for e in narrowed):
            ctx.violation(con + ":narrowed-wrong-collection", ew.loc, f"the collection narrowed after allocation (`{narrowed[0].name}`, drawn from `{narrowed[0].value.base}`) is not the one the worker candidates "
                          f"are drawn from (`{cbase}`)")
        else:
            # ... and it is the *free* list: whatever the candidates were filtered by on the worker's state alone (FREE), the narrowed
            # collection was filtered by, too (the unfiltered list of all workers has the same origin but is not what later tasks draw from)
            def state_filters(cv):
                out = set()
                for pn, b in cv.preds:
                    for cj in (b.values if isinstance(b, ast.BoolOp) and isinstance(b.op, ast.And) else [b]):
                        reads = {n.attr for n in ast.walk(cj) if isinstance(n, ast.Attribute) and isinstance(n.value, ast.Name) and n.value.id == pn}
                        others = {n.id for n in ast.walk(cj) if isinstance(n, ast.Name) and n.id != pn and not (n.id in ctx.repo.classes)}
                        if reads == {"state"} and not others:
                            out.add(ast.unparse(cj).replace(pn + ".", "_."))
                return out
            want = state_filters(cand) if isinstance(cand, CollV) else set()
            if want and not any(e.value.base == cbase and want <= state_filters(e.value) for e in narrowed):
                e0 = next(e for e in narrowed if e.value.base == cbase)
                ctx.violation(con + ":narrowed-wrong-collection", ew.loc, f"the collection narrowed after allocation (`{e0.name}`) is not the list the worker candidates are drawn from: "
                              f"the candidates are filtered by {sorted(want)}, `{e0.name}` is not")
        st = ew.heap.get((W.name, "state")) if isinstance(W, Obj) else None
        if not (isinstance(st, EnumSet) and st.members <= {"FREE"}):
            ctx.violation(con + ":worker-not-free", ew.loc, "allocated worker is not known to be FREE")
    ctx.end()


def finish_run(ctx, need_facility, shared=False, rstate="WORKING"):
    wf_check = ctx.repo.method(WORKFLOW, "check_state")
    T, W, F, T2 = Obj("T", TASK), Obj("W", WORKER), Obj("F", FACILITY), Obj("T2", TASK)
    heap = {("T", "state"): E(TS, "WORKING"), ("T", "remaining_work_amount"): Poly.const(0), ("T", "need_facility"): Const(need_facility),
            ("T", "input_task_list"): ListV([]), ("T", "allocated_worker_list"): ListV([W]), ("T", "allocated_facility_list"): ListV([F] if need_facility else []),
            ("W", "assigned_task_list"): ListV([T], fresh=True), ("F", "assigned_task_list"): ListV([T], fresh=True),
            ("W", "state"): E(WS, rstate), ("F", "state"): E(FS_, rstate)}
    I = mk_interp(ctx, inline=lambda call, callee, depth: callee.cls == WORKFLOW, collections={"self.task_list": [T]}, max_depth=3, unroll_while=3)
    return wf_check, I.run_function(wf_check, bind={"state": E(TS, "FINISHED"), "time": Poly.sym("t"), "__defaults__": True}, heap=heap)


def r3_3(ctx):
    ctx.begin("R3.3", "release on finish: task-side lists emptied, resources drop the task and become FREE", floor=2)
    for nf, rstate in ((False, "WORKING"), (True, "WORKING"), (False, "ABSENCE"), (True, "ABSENCE")):
        f, outs = finish_run(ctx, nf, rstate=rstate)
        for st, ex in outs:
            evs = flatten(st.trace)
            fin = [e for e in evs if isinstance(e, Store) and e.attr == "state" and isinstance(e.recv, Obj) and e.recv.name == "T"
                   and isinstance(e.value, EnumSet) and e.value.single() == "FINISHED"]
            ctx.instance(construct(f, f"finish-need_facility={nf}-resource={rstate}"), sample={"finished": bool(fin)})
            ctx.require(fin, "model task with zero remaining work does not finish (positive control)")
            loc = fin[0].loc

            def emptied(attr):
                v = st.heap.get(("T", attr))
                return isinstance(v, ListV) and not v.items
            who = [("worker", "W", "allocated_worker_list", WS)] + ([("facility", "F", "allocated_facility_list", FS_)] if nf else [])
            for kind, name, attr, enum in who:
                if not emptied(attr):
                    ctx.violation(construct(f, f"release:{attr}-not-emptied"), loc, f"a task that becomes FINISHED keeps its {attr} (need_facility={nf})")
                rm = [e for e in evs if isinstance(e, Mut) and e.attr == "assigned_task_list" and e.op == "remove" and isinstance(e.recv, Obj) and e.recv.name == name
                      and e.args and isinstance(e.args[0], Obj) and e.args[0].name == "T"]
                if not rm:
                    ctx.violation(construct(f, f"release:{kind}-keeps-task"), loc,
                                  f"the {kind} (state {rstate}) of a task that becomes FINISHED keeps the task in its assigned_task_list (need_facility={nf}): "
                                  f"it is reported WORKING for ever and can never be allocated again")
                v = st.heap.get((name, "state"))
                ok_states = {"FREE"} if rstate == "WORKING" else {"FREE", "ABSENCE"}
                if not (isinstance(v, EnumSet) and v.single() in ok_states):
                    ctx.violation(construct(f, f"release:{kind}-not-free"), loc, f"the {kind} of a task that becomes FINISHED is left in state {v!r} (expected FREE)")
            rem = st.heap.get(("T", "remaining_work_amount"))
            if not (isinstance(rem, Poly) and rem.is_const() and rem.const_value() == 0):
                ctx.violation(construct(f, "release:remaining-not-zero"), loc, f"remaining work of a FINISHED task is {rem!r}")
    ctx.end()


def r3_4(ctx):
    ctx.begin("R3.4", "resource state follows the task: WORKING on start, promotion of FREE holders, no other writer in a step", floor=4)
    wf_check = ctx.repo.method(WORKFLOW, "check_state")
    for tstate in ("READY", "WORKING"):
        for nf in (False, True):
            for rstate in ("FREE", "WORKING", "ABSENCE"):
                T, W, F = Obj("T", TASK), Obj("W", WORKER), Obj("F", FACILITY)
                heap = {("T", "state"): E(TS, tstate), ("T", "need_facility"): Const(nf), ("T", "auto_task"): Const(False), ("T", "target_component"): Const(None),
                        ("T", "allocated_worker_list"): ListV([W]), ("T", "allocated_facility_list"): ListV([F] if nf else []),
                        ("W", "state"): E(WS, rstate), ("F", "state"): E(FS_, rstate)}
                I = mk_interp(ctx, inline=lambda call, callee, depth: callee.cls == WORKFLOW, collections={"self.task_list": [T]}, max_depth=3)
                outs = I.run_function(wf_check, bind={"state": E(TS, "WORKING"), "time": Poly.sym("t")}, heap=heap)
                for st, ex in outs:
                    ws, fs = st.heap.get(("W", "state")), st.heap.get(("F", "state"))
                    w1 = ws.single() if isinstance(ws, EnumSet) else None
                    f1 = fs.single() if isinstance(fs, EnumSet) else None
                    ts1 = st.heap.get(("T", "state"))
                    ctx.instance(f"working-check:{tstate},need_facility={nf},resource={rstate}", sample={"worker": w1, "facility": f1})
                    ctx.require(isinstance(ts1, EnumSet) and ts1.single() == "WORKING", "positive control: task with a worker is not WORKING after the working check")
                    if tstate == "READY":
                        exp = "WORKING"
                    else:
                        exp = "WORKING" if rstate == "FREE" else rstate
                    if w1 != exp:
                        ctx.violation(construct(wf_check, f"worker-state:{tstate}"), wf_check.loc(), f"task {tstate}->WORKING with a {rstate} worker leaves the worker {w1} (expected {exp})")
                    if nf and f1 != exp:
                        ctx.violation(construct(wf_check, f"facility-state:{tstate}"), wf_check.loc(), f"task {tstate}->WORKING (need_facility) with a {rstate} facility leaves the facility {f1} (expected {exp})")
    # who-may-write resource state within a step
    allowed = {"check_update_state_from_absence_time_list", "set_absence_state_to_all_workers", "set_absence_state_to_all_facilities"}
    for g in sim_reach(ctx, precise=not ctx.thorough):
        for ef in ctx.eff.of(g):
            if ef.kind in ("store", "mut") and ef.attr == "state" and ef.cls in (WORKER, FACILITY):
                ctx.instance(construct(g, "resource-state-writer"))
                if g.name not in allowed and g.cls != WORKFLOW:
                    ctx.violation(construct(g, "resource-state-writer"), ef.loc, f"{g.qualname} writes a {ef.cls}'s state during a step (only the absence update, the working check and the release may)")
    ctx.end()


def r3_5(ctx):
    ctx.begin("R3.5", "only READY or WORKING tasks reach an allocation site", floor=2)
    f, sites = allocation_sites(ctx)
    for i, s in enumerate(sites):
        e = s.ev.get("task<-worker") or s.ev.get("task<-facility")
        T = s.task
        v = e.heap.get((T.name, "state")) if isinstance(T, Obj) else None
        ctx.instance(f"{construct(f, 'site')}#{i}", sample={"task_states": sorted(v.members) if isinstance(v, EnumSet) else None})
        if not (isinstance(v, EnumSet) and v.members <= {"READY", "WORKING"}):
            ctx.violation(construct(f, "site-task-state"), e.loc, f"resources can be allocated to a task in state {sorted(v.members) if isinstance(v, EnumSet) else '?'} (only READY/WORKING tasks may hold resources)")
    ctx.end()


def r3_6(ctx):
    """Facility exclusivity inside one step rests on can_add_resources (busy-facility / solo / fixed-ID conjuncts): shared with C04 R4.2."""
    from .C04 import r4_2
    r4_2(ctx)


def run(ctx):
    r3_1(ctx)
    r3_2(ctx)
    r3_3(ctx)
    r3_4(ctx)
    r3_5(ctx)
    r3_6(ctx)
    from ..initflags import group_rule
    group_rule(ctx, "R3.7", "pairing", "a task keeps a resource that no longer knows the task (or the reverse), so the next allocation hands the resource to a second task")
    # "WORKING exactly when it holds a task and is not absent": the per-step absence refresh must be the last writer of resource state
    # before allocation (a release inside the finish check that runs after it would overwrite ABSENCE with FREE)
    from .C04 import r4_4
    r4_4(ctx)
    # "... and is not absent": the per-step state table of workers and facilities
    from .C10 import r10_2, r10_2b
    r10_2(ctx)
    r10_2b(ctx)
    # a run resumed from a saved file starts from the links the reader rebuilds: both ends of every allocation are saved as IDs and
    # must be re-linked to the objects of the loaded project, whole-organization wide and unconditionally (C16's codec table)
    from .C16 import r16_2
    from ..jsontab import JsonTables
    r16_2(ctx, JsonTables(ctx))
