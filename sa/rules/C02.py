"""C02 -- remaining work changes only by the allocated resources' contribution."""
import ast
import re

from ..common import *
from ..errors import AnalysisError
from ..simstruct import loop_paths, working_of

CLAIM = ("Every armed rule instance held: (R2.1) remaining_work_amount is written only by the constructor, initialize, perform, "
         "the finishing block and the JSON loaders; (R2.2) perform changes it only for a WORKING task and stores exactly "
         "old - p; (R2.3) p is, as a polynomial over the return values of the progress helper, the unit rate for automatic "
         "tasks, the sum over allocated workers otherwise, and the sum of worker x same-index facility products when a facility "
         "is needed, every helper being called with the task's own name; (R2.4) the two progress helpers are the same function "
         "modulo the enum class, return a non-zero value only for a skilled, non-absent resource, and build it from the mean/sd "
         "skill maps; (R2.5) a task is picked for finishing iff it is WORKING with remaining work below a tolerance <= 1e-6, and "
         "its remaining work is then stored as 0.0; (R2.6) initialize stores default_work_amount*(1-default_progress); "
         "(R2.7) perform precedes record inside a step. The numeric per-step balance against logs is not observed.")
EXPLANATION = ("Who-may-write from effect sets; abstract interpretation of BaseTask.perform with concrete two-element resource lists "
               "and polynomial equality over call-result symbols; sibling AST comparison; threshold table of the finish candidates.")
ASSUMPTIONS = ["numpy.random.normal(m, 0) == m", "a worker's denominator (number of WORKING tasks it is assigned to) is 1 by exclusivity (C03)"]
TECHNIQUE = "who-may-write + polynomial normal forms over call-result symbols from abstract interpretation + sibling cross-check"


def r2_1(ctx):
    ctx.begin("R2.1", "writers of remaining_work_amount", floor=4)
    allowed = {(TASK, "__init__"), (TASK, "initialize"), (TASK, "perform"), (PROJECT, "append_project_log_from_simple_json")}
    allowed_q = with_private_pieces(ctx, {f"{c}.{n}" for c, n in allowed})   # (private pieces of the allowed writers count as them)
    reach = {id(g.node) for g in sim_reach(ctx, precise=not ctx.thorough)}
    fin = set()
    wf_check = ctx.repo.method(WORKFLOW, "check_state")
    for g in ctx.eff.reachable([wf_check], precise=True):
        if g.cls == WORKFLOW:
            fin.add((g.cls, g.name))
    for g in ctx.repo.all_funcs():
        for ef in ctx.eff.of(g):
            if ef.kind in ("store", "mut", "del") and ef.attr == "remaining_work_amount":
                ctx.instance(construct(g, "writer"), sample={"loc": ef.loc, "stmt": ast.unparse(ef.node)[:70]})
                if (g.cls, g.name) in allowed or g.qualname in allowed_q:
                    continue
                if (g.cls, g.name) in fin:
                    v = ef.value
                    if not (isinstance(v, ast.Constant) and v.value == 0):
                        ctx.violation(construct(g, "finish-writes-nonzero"), ef.loc, f"the state check writes remaining work `{ast.unparse(ef.node)[:60]}` (only the clamp to 0.0 on finishing is allowed)")
                    continue
                ctx.violation(construct(g, "unexpected-writer"), ef.loc, f"{g.qualname} writes a task's remaining_work_amount" + (" during a simulation step" if id(g.node) in reach else ""))
    ctx.end()


def perform_run(ctx, heap, colls=None):
    f = ctx.repo.method(TASK, "perform")
    I = mk_interp(ctx, collections=colls or {}, inline=same_class_helpers(TASK), max_depth=3)
    h = {("self", "remaining_work_amount"): Poly.sym("old"), ("self", "target_component"): Const(None), ("self", "name"): Const("taskname")}
    h.update(heap)
    return f, I.run_function(f, bind={"time": Poly.sym("t"), "seed": Const(None), "__defaults__": True}, heap=h)


def r2_2(ctx):
    ctx.begin("R2.2", "perform changes remaining work only when WORKING, by old - p", floor=5)
    for s in ctx.repo.enums[TS]:
        f, outs = perform_run(ctx, {("self", "state"): E(TS, s), ("self", "auto_task"): Const(True), ("self", "work_amount_progress_of_unit_step_time"): Poly.sym("rate")})
        for st, ex in outs:
            ws = [e for e in flatten(st.trace) if isinstance(e, Store) and e.attr == "remaining_work_amount"]
            ctx.instance(construct(f, f"state={s}"), sample={"stores": [repr(e.value) for e in ws]})
            if s != "WORKING" and ws:
                ctx.violation(construct(f, "progress-when-not-working"), ws[0].loc, f"perform() changes the remaining work of a task in state {s}")
            if s == "WORKING":
                if len(ws) != 1 or ws[0].value != Poly.sym("old") - Poly.sym("rate"):
                    ctx.violation(construct(f, "auto-rate"), f.loc(), f"automatic WORKING task: remaining work becomes {[repr(e.value) for e in ws]} (expected `old - rate`)")
    ctx.end()


def r2_3(ctx):
    ctx.begin("R2.3", "contribution = sum of worker (x paired facility) progress values, helpers called with the task's name", floor=4)
    W = [Obj(f"W{i}", WORKER) for i in range(2)]
    F = [Obj(f"F{i}", FACILITY) for i in range(2)]
    cases = [("workers", False, W, []), ("one-worker", False, W[:1], []), ("pairs", True, W, F), ("pairs-fewer-facilities", True, W, F[:1]), ("no-resource", False, [], [])]
    for name, nf, ws, fs in cases:
        f, outs = perform_run(ctx, {("self", "state"): E(TS, "WORKING"), ("self", "auto_task"): Const(False), ("self", "need_facility"): Const(nf),
                                    ("self", "allocated_worker_list"): ListV(ws), ("self", "allocated_facility_list"): ListV(fs)})
        for st, ex in outs:
            evs = flatten(st.trace)
            calls = [e for e in evs if isinstance(e, Call) and e.callees and e.callees[0].endswith(".get_work_amount_skill_progress")]
            sym = {}
            for c in calls:
                if isinstance(c.recv, Obj) and isinstance(c.ret, Poly):
                    sym.setdefault(c.recv.name, []).append(c)
            exp = Poly.sym("old")
            ok_calls = True
            n = min(len(ws), len(fs)) if nf else len(ws)
            for i in range(n):
                cw = sym.get(ws[i].name, [])
                if len(cw) != 1:
                    ok_calls = False
                    continue
                term = cw[0].ret
                if nf:
                    cf = sym.get(fs[i].name, [])
                    if len(cf) != 1:
                        ok_calls = False
                        continue
                    term = term * cf[0].ret
                exp = exp - term
            stv = [e for e in evs if isinstance(e, Store) and e.attr == "remaining_work_amount"]
            got = stv[-1].value if stv else None
            ctx.instance(construct(f, f"sources:{name}"), sample={"case": name, "result": repr(got)[:120]})
            if not ok_calls:
                ctx.violation(construct(f, f"helper-calls:{name}"), f.loc(), f"case {name}: each allocated worker{' and paired facility' if nf else ''} must be asked exactly once for its progress (calls: { {k: len(v) for k, v in sym.items()} })")
            elif got != exp:
                ctx.violation(construct(f, f"contribution:{name}"), stv[-1].loc if stv else f.loc(),
                              f"case {name}: remaining work becomes `{got!r}`; the statement requires old minus the sum of worker progress{' times same-index facility progress' if nf else ''}")
            for c in calls:
                a0 = c.args.get(0, c.args.get("task_name"))
                if not (isinstance(a0, Const) and a0.v == "taskname"):
                    ctx.violation(construct(f, "helper-argument"), c.loc, f"progress helper is called with `{a0!r}` instead of the task's own name")
            extra = [k for k in sym if k not in {o.name for o in ws[:n] + (fs[:n] if nf else [])}]
            if extra:
                ctx.violation(construct(f, f"contribution-from-unpaired:{name}"), f.loc(), f"case {name}: progress is requested from {extra}, which is not an allocated (paired) resource")
    ctx.end()


def r2_4(ctx):
    ctx.begin("R2.4", "progress helpers: siblings agree; non-zero only for skilled, present resources; value from the skill maps", floor=2)
    gw = ctx.repo.method(WORKER, "get_work_amount_skill_progress")
    gf = ctx.repo.method(FACILITY, "get_work_amount_skill_progress")

    # (the two siblings are held to the same table and the same provenance below; their texts need not be equal)
    ctx.instance("sibling:get_work_amount_skill_progress")
    for cls, enum, g in ((WORKER, WS, gw), (FACILITY, FS_, gf)):
        for skilled in (True, False):
            for s in ctx.repo.enums[enum]:
                from ..interp import State
                st0 = State()
                st0.facts["<self>.has_workamount_skill('a')"] = (skilled, frozenset())
                I = mk_interp(ctx)
                outs = I.run_function(g, bind={"task_name": Const("a"), "seed": Const(None)}, heap={("self", "state"): E(enum, s)}, st=st0)
                for st, ex in outs:
                    ret = ex[1] if ex and ex[0] == "return" else None
                    zero = isinstance(ret, Poly) and ret.is_const() and ret.const_value() == 0
                    ctx.instance(construct(g, f"skilled={skilled},state={s}"))
                    if (not skilled or s == "ABSENCE") and not zero:
                        ctx.violation(construct(g, "contributes-without-skill-or-absent"), g.loc(), f"{cls}: skilled={skilled}, state {s} => contributes `{ret!r}` (must be 0)")
                    if skilled and s != "ABSENCE" and zero:
                        ctx.violation(construct(g, "skilled-present-contributes-nothing"), g.loc(), f"{cls}: a skilled resource in state {s} contributes nothing")
        # value provenance: the draw's mean is the skill-map entry of *this task*, and nothing but the skill maps, the assignment
        # list and the state feeds the value (the method and the private helpers of its class it is split into)
        draws = []

        def hook(I, call, st, fr):
            fn = ast.unparse(call.func)
            if fn.endswith("random.normal") or fn.endswith(".normal"):
                draws.append([I.eval(a, st, fr) for a in call.args])
                return Poly.sym("draw")
            return None
        from ..interp import State
        st0 = State()
        st0.facts["<self>.has_workamount_skill('a')"] = (True, frozenset())
        I = mk_interp(ctx, call_hook=hook)
        pouts = I.run_function(g, bind={"task_name": Const("a"), "seed": Const(None)}, heap={("self", "state"): E(enum, "WORKING")}, st=st0)
        ctx.instance(construct(g, "value-provenance"), sample={"draws": [[repr(x)[:60] for x in d] for d in draws][:2]})
        # a resource that works on several tasks at once splits its progress: the returned value is the draw divided by a count
        for st1, ex1 in pouts:
            rv = ex1[1] if ex1 and ex1[0] == "return" else None
            txt = repr(rv)
            if not (isinstance(rv, Poly) and re.fullmatch(r"\(draw\)/\((.+)\)", txt) and not re.fullmatch(r"\(draw\)/\([\d./]+\)", txt)):
                ctx.violation(construct(g, "not-shared-among-tasks"), g.loc(), f"{cls}: a skilled, working resource contributes `{txt[:60]}`: the drawn progress is not divided by the number of tasks "
                              "the resource is working on at this step")
        if not draws:
            raise AnalysisError(f"R2.4: no random draw found in {g.qualname} for a skilled, working resource (unrecognised formulation)")
        for d in draws:
            mean = repr(d[0]) if d else ""
            if "workamount_skill_mean_map" not in mean or not ("'a'" in mean or "task_name" in mean):
                ctx.violation(construct(g, "mean-lookup"), g.loc(), f"{cls}: the mean of the progress draw is `{mean[:70]}`, not the skill-map entry of the task's name")
        region = [g] + [h for h in ctx.eff.reachable([g], precise=True) if h.cls == cls and h.name.startswith("_") and not h.name.endswith("__")]
        reads = set()
        for h in region:
            for e in ctx.eff.of(h):
                if e.kind == "read" and ctx.types.field_type(cls, e.attr) is not None:
                    reads.add(e.attr)
        ok = "workamount_skill_mean_map" in reads and "assigned_task_list" in reads and reads <= {"workamount_skill_mean_map", "workamount_skill_sd_map", "assigned_task_list", "state"}
        if not ok:
            ctx.violation(construct(g, "value-provenance"), g.loc(), f"{cls}: the contribution is computed from {sorted(reads)} (expected the work-amount skill maps)")
    ctx.end()


def r2_5(ctx):
    ctx.begin("R2.5", "finish candidates: WORKING and remaining < tolerance; remaining clamped to 0.0", floor=4)
    wf_check = ctx.repo.method(WORKFLOW, "check_state")
    for st_name in ("WORKING", "READY"):
        for rem, small in ((0.0, True), (1e-12, True), (-1e-3, True), (1e-3, False), (5.0, False)):
            T = Obj("T", TASK)
            heap = {("T", "state"): E(TS, st_name), ("T", "remaining_work_amount"): Poly.const(rem), ("T", "need_facility"): Const(False),
                    ("T", "input_task_list"): ListV([]), ("T", "allocated_worker_list"): ListV([]), ("T", "allocated_facility_list"): ListV([])}
            I = mk_interp(ctx, inline=lambda call, callee, depth: callee.cls == WORKFLOW, collections={"self.task_list": [T]}, max_depth=3, unroll_while=3)
            outs = I.run_function(wf_check, bind={"state": E(TS, "FINISHED"), "time": Poly.sym("t"), "__defaults__": True}, heap=heap)
            for s1, ex in outs:
                v = s1.heap.get(("T", "state"))
                fin = isinstance(v, EnumSet) and v.single() == "FINISHED"
                exp = small and st_name == "WORKING"
                ctx.instance(construct(wf_check, f"finish:{st_name},rem={rem}"), sample={"finished": fin})
                if fin != exp:
                    ctx.violation(construct(wf_check, "finish-threshold"), wf_check.loc(), f"a {st_name} task with remaining work {rem} {'is' if fin else 'is not'} finished by the finish check (expected {'yes' if exp else 'no'})")
                if fin:
                    r = s1.heap.get(("T", "remaining_work_amount"))
                    if not (isinstance(r, Poly) and r.is_const() and r.const_value() == 0):
                        ctx.violation(construct(wf_check, "finish-clamp"), wf_check.loc(), f"a finished task reports remaining work `{r!r}` instead of 0")
    ctx.end()


def r2_6(ctx):
    ctx.begin("R2.6", "initial remaining work = default_work_amount * (1 - default_progress)", floor=2)
    exp = Poly.sym("self.default_work_amount") - Poly.sym("self.default_work_amount") * Poly.sym("self.default_progress")
    g = ctx.repo.method(TASK, "initialize")
    I = mk_interp(ctx)
    for st, ex in I.run_function(g, bind={"state_info": Const(True), "log_info": Const(True), "__defaults__": True}):
        v = st.heap.get(("self", "remaining_work_amount"))
        ctx.instance(construct(g, "initial-remaining"), sample={"value": repr(v)})
        if v != exp:
            ctx.violation(construct(g, "initial-remaining"), g.loc(), f"initialize() sets remaining work to `{v!r}` (expected `{exp!r}`)")
    c = ctx.repo.method(TASK, "__init__")
    # constructor: interpreted with no saved remaining work given and symbolic work amount / progress
    dw, dp = Poly.sym("DW"), Poly.sym("DP")
    want = dw - dw * dp
    Ic = mk_interp(ctx)
    got = set()
    for st, ex in Ic.run_function(c, bind={"__defaults__": True, "remaining_work_amount": Const(None), "default_work_amount": dw, "default_progress": dp}):
        if ex is not None and ex[0] == "raise":
            continue
        v = st.heap.get(("self", "remaining_work_amount"))
        got.add(repr(v))
        ctx.instance(construct(c, "initial-remaining"), sample={"value": repr(v)})
        if not (isinstance(v, Poly) and v == want):
            ctx.violation(construct(c, "initial-remaining"), c.loc(), f"BaseTask.__init__ without a saved remaining work sets it to `{v!r}` (expected default_work_amount*(1-default_progress) = `{want!r}`)")
    ctx.require(got, "BaseTask.__init__ has no normal path")
    ctx.end()


def r2_7(ctx):
    ctx.begin("R2.7", "perform precedes record within a step; finish check unconditional and first", floor=2)
    f, loop = sim_loop(ctx)
    for i, p in enumerate(loop_paths(ctx, key="plain")):
        if p["exit"] is not None:
            continue
        names = [c for c, _ in p["phases"]]
        ctx.instance(construct(f, f"loop-path-{i}"))
        if "perform" in names and "record-workflow" in names and names.index("perform") > names.index("record-workflow"):
            ctx.violation(construct(f, "record-before-perform"), f.loc(loop), "tasks are recorded before they are performed: every logged remaining work lags one step behind")
        if names.count("perform") > 1:
            ctx.violation(construct(f, "perform-twice"), f.loc(loop), f"tasks are performed {names.count('perform')} times in one step: remaining work falls by a multiple of the contribution")
        if working_of(p) and names.count("perform") != 1:
            ctx.violation(construct(f, "perform-missing"), f.loc(loop), "a working step does not perform the tasks")
        if "finish-check" not in names or names.index("finish-check") != 0:
            ctx.violation(construct(f, "finish-check-first"), f.loc(loop), "the finish check is not the first action of a step: a task whose remaining work reached zero is not FINISHED at the next step")
    ctx.end()


def r2_8(ctx):
    ctx.begin("R2.8", "workflow.perform performs every task exactly once", floor=1)
    from ..fanout import FanOut
    g = ctx.repo.method(WORKFLOW, "perform")
    I = mk_interp(ctx)
    outs = I.run_function(g, bind={"only_auto_task": Const(False), "__defaults__": True})

    def m(ev):
        if isinstance(ev, Call) and f"{TASK}.perform" in ev.callees:
            return "perform"
        return None
    for st, ex in outs:
        fo = FanOut(ctx, m)
        c = fo.counts(st.trace)
        ctx.instance(construct(g, "traversal"), sample={"per_task_calls": sorted(c.get("perform", {0}))})
        if c.get("perform", {0}) != {1}:
            ctx.violation(construct(g, "perform-traversal"), g.loc(), f"workflow.perform() calls task.perform {sorted(c.get('perform', {0}))} time(s) per task (expected exactly once for every task)")
    # each progress helper is consulted once per resource: the time argument is passed through
    ctx.end()


def run(ctx):
    r2_1(ctx)
    r2_2(ctx)
    r2_3(ctx)
    r2_4(ctx)
    r2_5(ctx)
    r2_6(ctx)
    r2_7(ctx)
    r2_8(ctx)
    # "FINISHED at the first step after its remaining work reached zero, dependencies permitting": the finish check must be closed
    # over FF/SF chains of tasks that reach zero in the same step (shared with C06)
    from .C06 import r6_4
    r6_4(ctx)
    # "nothing from an absent resource": the resource state the progress helpers read must be right at perform time
    from .C10 import r10_2
    from .C03 import r3_4
    r10_2(ctx)
    r3_4(ctx)
    # an absent resource must not be newly paired with a task: allocation sites require state FREE (C04)
    from .C04 import r4_1, r4_2
    r4_1(ctx)
    # "worker skill times paired facility skill": a facility's contribution is divided by the number of tasks it serves, so the
    # product is the task's only while a facility serves one task -- the busy / solo cells of the can_add_resources table (C04)
    r4_2(ctx)
