"""C16 -- saving to JSON and loading restores everything that was saved."""
import ast

from ..common import *
from ..errors import AnalysisError
from .. import spec
from ..jsontab import JsonTables

CLAIM = ("Every armed rule instance held (apart from listed known findings): (R16.1) for each of the ten exported classes the "
         "keys a reader subscripts are exported, every exported key is passed back to the constructor, and every constructor "
         "parameter whose attribute is read by simulation-reachable code or by a priority rule is part of the saved format; "
         "(R16.2) each exported key's encoder shape meets the matching decoder (enum int <-> Enum(n), ID <-> re-link in "
         "read_simple_json, seconds string <-> timedelta, strftime <-> strptime, identity otherwise); (R16.3) exporters read "
         "only attributes assigned on every path of the constructor chain; (R16.4) no constructor coerces a legitimately "
         "saved value into a different one; (R16.5) every subclass of an exported class has a branch in the reader's type "
         "dispatch. 'Re-simulates to the same result' is not decided.")
EXPLANATION = ("Four-way table agreement (constructor parameters, exported keys with encoder shapes, keys read with decoder "
               "shapes, re-link assignments) extracted from the syntax tree; definite-assignment check of constructors by "
               "abstract interpretation; SIMREL(C) from the effect sets of simulation-reachable code.")
ASSUMPTIONS = ["files are written by the same version of the library"]
EXHAUSTIVE = True  # the deciding tables range over the complete finite domain
TECHNIQUE = "table agreement between sibling codecs extracted from the AST + definite assignment by abstract interpretation"

# constructor parameters that are deliberately not part of the base saved format (one line of reason each)
EXEMPT = {
    ("BaseWorker", "quality_skill_mean_map"): "customised-simulation parameter (quality model), no base log depends on it",
    ("BaseWorker", "quality_skill_sd_map"): "customised-simulation parameter (quality model)",
    ("BaseTask", "additional_work_amount"): "customised-simulation parameter (rework model)",
    ("BaseTask", "additional_task_flag"): "advanced variable of the rework model",
    ("BaseTask", "actual_work_amount"): "advanced variable recomputed by the constructor",
    ("BaseTask", "parent_workflow"): "back-reference restored by BaseWorkflow.initialize / append_child_task",
    ("BaseComponent", "parent_product"): "back-reference restored by BaseProduct.append_child_component",
    ("BaseComponent", "error_tolerance"): "customised-simulation parameter (quality model)",
    ("BaseComponent", "error"): "advanced variable of the quality model",
}

PAIR = {
    "identity": {"identity"},
    "int-enum": {"enum"},
    "list-int-enum": {"list-enum"},
    "id": {"identity+id-relink"},
    "id-list": {"identity+id-list-relink"},
    "pair-list": {"identity+pair-list-relink"},
    "seconds-str": {"timedelta-seconds"},
    "strftime": {"strptime"},
}


def simrel(ctx):
    """(class, attr) read by simulation-reachable code or priority rules."""
    out = set()
    funcs = list(sim_reach(ctx, precise=True))
    for n in ("sort_task_list", "sort_worker_list", "sort_facility_list", "sort_workplace_list"):
        funcs.extend(ctx.eff.reachable([ctx.repo.func(n)], precise=True))
    for g in funcs:
        for e in ctx.eff.of(g):
            if e.kind == "read" and e.cls:
                owner = ctx.types.field_owner(e.cls, e.attr) or e.cls
                out.add((owner, e.attr))
    # attributes that backward_simulate swaps into simulation-relevant ones are relevant too
    for cls in (WORKFLOW, ORG):
        g = ctx.repo.lookup_method(cls, "reverse_dependencies")
        if g is None:
            continue
        sw = {(ctx.types.field_owner(e.cls, e.attr) or e.cls, e.attr) for e in ctx.eff.of(g) if e.kind == "store" and e.cls and not e.attr.startswith("dummy_")}
        if sw & out:
            out |= sw
    return out


def r16_1(ctx, J):
    ctx.begin("R16.1", "key agreement: read keys are exported; exported keys are passed back; simulation-relevant ctor params are saved", floor=8)
    rel = simrel(ctx)
    for cn, exp in sorted(J.export.items()):
        f = J.export_func[cn]
        rk = J.read_keys.get(cn)
        ctx.require(rk is not None, f"no reader found for exported class {cn}")
        ctx.instance(f"{cn}:keys", cells=len(exp), sample={"class": cn, "exported": len(exp), "read": len(rk)})
        for k in sorted(rk - set(exp)):
            site = J.read_site.get(cn)
            ctx.violation(f"{cn}:read-not-exported:{k}", site[0].loc(site[1]) if site else f.loc(), f"the reader of {cn} subscripts key '{k}' which {cn}.export_dict_json_data never writes (KeyError on load)")
        params = J.read.get(cn)
        if params is not None:
            passed_keys = {v[1] for v in params.values() if v[1]} | {p for p, v in params.items() if v[0].startswith("local:")}
            for k in sorted(set(exp) - passed_keys - {"type"}):
                ctx.violation(f"{cn}:exported-not-restored:{k}", f.loc(), f"{cn} exports key '{k}' but the reader never passes it back to the constructor: the value is lost on load")
        # constructor parameters that matter for simulation
        for p in J.ctor.get(cn, []):
            owner = ctx.types.field_owner(cn, p) or cn
            if (cn, p) in EXEMPT or (owner, p) in EXEMPT:
                continue
            relevant = (owner, p) in rel or (cn, p) in rel
            if not relevant:
                continue
            saved = p in exp
            restored = params is None or p in params
            ctx.instance(f"{cn}:param:{p}")
            if not saved or not restored:
                ctx.violation(f"{cn}:param-not-saved:{p}", f.loc(),
                              f"constructor parameter `{p}` of {cn} is read by simulation code but is {'not exported' if not saved else 'exported but not passed back on load'}: "
                              f"a saved-and-loaded model silently falls back to the default and simulates differently")
    # project level
    ctx.instance("BaseProject:keys", cells=len(J.project_export))
    for attr, (shape, key, node) in J.project_read.items():
        if key not in J.project_export:
            ctx.violation(f"BaseProject:read-not-exported:{key}", ctx.repo.method(PROJECT, "read_simple_json").loc(node), f"read_simple_json reads project key '{key}' that write_simple_json never writes")
    for k in J.project_export:
        if k != "type" and k not in {v[1] for v in J.project_read.values()}:
            ctx.violation(f"BaseProject:exported-not-restored:{k}", ctx.repo.method(PROJECT, "write_simple_json").loc(), f"write_simple_json writes project key '{k}' that read_simple_json never restores")
    ctx.end()


def r16_2(ctx, J):
    ctx.begin("R16.2", "codec pairing per exported key (encoder shape vs decoder + re-link)", floor=100)
    for cn, exp in sorted(J.export.items()):
        params = J.read.get(cn)
        if params is None:
            continue
        f = J.export_func[cn]
        for k, (shape, attr, node) in sorted(exp.items()):
            if shape in ("type", "nested", "nested-list"):
                continue
            p = next((pn for pn, v in params.items() if v[1] == k), None)
            if p is None:
                continue
            dshape = params[p][0]
            d = dshape.split(":")[0]
            owner_cls = next((c for c in ctx.repo.mro(cn) if (c, p) in J.relink), None)
            rl = J.relink.get((owner_cls, p)) if owner_cls else None
            full = d + ("+" + rl[0] if rl else "")
            ctx.instance(f"{cn}:codec:{k}", sample={"class": cn, "key": k, "encoder": shape, "decoder": full})
            want = PAIR.get(shape)
            if want is None:
                ctx.violation(f"{cn}:codec-unknown:{k}", f.loc(node), f"{cn}.{k}: encoder shape `{shape}` is not one of the recognised codecs")
                continue
            if full not in want:
                site = J.read_site[cn]
                why = ("a saved value that is falsy (0, 0.0, an enum member whose value is 0) is replaced by the reader's default, so the loaded model differs from the saved one"
                       if "falsy-to-default" in full else "the loaded attribute has a different type than the saved one")
                ctx.violation(f"{cn}:codec:{k}", site[0].loc(params[p][2]),
                              f"{cn}.{k} is written as `{shape}` ({ast.unparse(node)[:50]}) but read back as `{full}` (expected {sorted(want)}): {why}")
            if d in ("enum", "list-enum"):
                ecls = dshape.split(":")[1]
                ft = ctx.types.field_type(cn, attr or p)
                decl = ft[1] if ft and ft[0] == "enum" else (ft[1][1] if ft and ft[0] == "list" and ft[1] and ft[1][0] == "enum" else None)
                if decl and decl != ecls:
                    ctx.violation(f"{cn}:codec-enum-class:{k}", J.read_site[cn][0].loc(params[p][2]), f"{cn}.{k} is decoded with {ecls} but the attribute is a {decl}")
    for k, (shape, attr, node) in J.project_export.items():
        if shape == "type":
            continue
        rd = next((v for v in J.project_read.values() if v[1] == k), None)
        if rd is None:
            continue
        ctx.instance(f"BaseProject:codec:{k}")
        d = rd[0].split(":")[0]
        if d not in PAIR.get(shape, set()):
            ctx.violation(f"BaseProject:codec:{k}", ctx.repo.method(PROJECT, "read_simple_json").loc(rd[2]), f"project key '{k}' is written as `{shape}` but read back as `{d}`")
    # every re-link targets an ID-encoded key
    for (cls, attr), (shape, node) in J.relink.items():
        ctx.instance(f"{cls}:relink:{attr}")
        exp = J.export.get(cls, {})
        enc = exp.get(attr)
        if enc is None or enc[0] not in ("id", "id-list", "pair-list"):
            ctx.violation(f"{cls}:relink-without-id-encoding:{attr}", ctx.repo.method(PROJECT, "read_simple_json").loc(node), f"read_simple_json re-links {cls}.{attr} but it is exported as `{enc[0] if enc else 'nothing'}`")
    for (cls, attr), cond in J.relink_conditional.items():
        rd = ctx.repo.method(PROJECT, "read_simple_json")
        test = ast.unparse(cond.test)[:60] if isinstance(cond, (ast.If, ast.While)) else "try"
        ctx.violation(f"{cls}:relink-conditional:{attr}", rd.loc(cond),
                      f"read_simple_json re-links {cls}.{attr} only under `{test}`: for the other objects the attribute keeps raw ID strings, "
                      f"so cross references do not resolve and a re-export (or a resumed run) fails")
    ctx.require(len(J.relink) >= 18, f"re-link table shrank to {len(J.relink)} (<18)")
    ctx.end()


def assigned_on_all_paths(ctx, cn):
    """Attributes of `self` definitely assigned by cn.__init__ (super().__init__ inlined)."""
    init = ctx.repo.lookup_method(cn, "__init__")
    I = mk_interp(ctx, inline=lambda call, callee, depth: callee.name == "__init__", max_depth=3, max_paths=20000)
    # constructor if-chains are independent diamonds: enumerate statement by statement and merge assigned sets
    assigned = None
    outs = run_ctor(I, init)
    for st, ex in outs:
        if ex is not None and ex[0] == "raise":
            continue
        names = {k[1] for k in st.heap if k[0] == "self"} | {e.attr for e in flatten(st.trace) if isinstance(e, Store) and isinstance(e.recv, Obj) and e.recv.name == "self"}
        assigned = names if assigned is None else (assigned & names)
    return assigned or set()


def run_ctor(I, init):
    """Run a constructor keeping the number of paths small: after every top-level statement, states that agree
    on the set of assigned attributes are merged (values are irrelevant for definite assignment)."""
    from ..interp import State, Frame
    st = State()
    st.env["self"] = Obj("self", init.cls)
    ft = I.types.ftypes(init)
    for p in init.params:
        if p != "self":
            st.env[p] = I.value_for_type(p, ft.lookup(p, init.node))
    fr = Frame(init, ft, ())
    outs = [(st, None)]
    for s in init.body():
        nxt = []
        for s0, ex in outs:
            if ex is not None:
                nxt.append((s0, ex))
            else:
                nxt.extend(I.exec_stmt(s, s0, fr))
        merged = {}
        for s1, ex in nxt:
            key = (frozenset(k for k in s1.heap if k[0] == "self"), ex[0] if ex else None,
                   frozenset(e.attr for e in flatten(s1.trace) if isinstance(e, Store)))
            merged.setdefault(key, (s1, ex))
        outs = list(merged.values())
    return outs


def r16_3(ctx, J):
    ctx.begin("R16.3", "exporters read only attributes assigned on every constructor path", floor=8)
    for cn, f in sorted(J.export_func.items()):
        have = assigned_on_all_paths(ctx, cn)
        reads = set()
        funcs = [f]
        for base in ctx.repo.mro(cn)[1:]:
            b = ctx.repo.classes[base].methods.get("export_dict_json_data")
            if b and any(isinstance(n, ast.Call) and ast.unparse(n.func) == "super().export_dict_json_data" for n in ast.walk(f.node)):
                funcs.append(b)
        for g in funcs:
            for n in ast.walk(g.node):
                if isinstance(n, ast.Attribute) and isinstance(n.value, ast.Name) and n.value.id == "self" and isinstance(n.ctx, ast.Load) \
                        and not n.attr.startswith("__") and ctx.repo.lookup_method(cn, n.attr) is None:
                    reads.add((n.attr, g.loc(n)))
        ctx.instance(f"{cn}:exporter-reads", cells=len(reads), sample={"class": cn, "assigned": len(have), "reads": len(reads)})
        for a, loc in sorted(reads):
            if a not in have:
                ctx.violation(f"{cn}:exporter-reads-unassigned:{a}", loc, f"{cn}.export_dict_json_data reads self.{a}, which {cn}.__init__ does not assign on every path: "
                              f"write_simple_json raises AttributeError for a freshly constructed {cn}")
    # project
    cn = PROJECT
    have = assigned_on_all_paths(ctx, cn)
    w = ctx.repo.method(PROJECT, "write_simple_json")
    for n in ast.walk(w.node):
        if isinstance(n, ast.Attribute) and isinstance(n.value, ast.Name) and n.value.id == "self" and isinstance(n.ctx, ast.Load) and n.attr not in ("__class__",):
            ctx.instance(f"{cn}:writer-reads:{n.attr}")
            if n.attr not in have and ctx.repo.lookup_method(cn, n.attr) is None:
                ctx.violation(f"{cn}:exporter-reads-unassigned:{n.attr}", w.loc(n), f"write_simple_json reads self.{n.attr}, not assigned on every constructor path")
    ctx.end()


def r16_4(ctx, J):
    ctx.begin("R16.4", "no lossy constructor coercion `p if p != c else d` with c != d", floor=10)
    for cn in sorted(J.export):
        init = ctx.repo.classes[cn].methods.get("__init__")
        if init is None:
            continue
        for n in ast.walk(init.node):
            if isinstance(n, ast.Assign) and isinstance(n.value, ast.IfExp) and len(n.targets) == 1 and isinstance(n.targets[0], ast.Attribute):
                v = n.value
                t = v.test
                if isinstance(t, ast.Compare) and len(t.ops) == 1 and isinstance(t.ops[0], (ast.NotEq, ast.IsNot)) and isinstance(t.left, ast.Name) \
                        and isinstance(v.body, ast.Name) and v.body.id == t.left.id:
                    ctx.instance(f"{cn}:coercion:{n.targets[0].attr}")
                    c, d = t.comparators[0], v.orelse
                    try:
                        cv, dv = ast.literal_eval(c), ast.literal_eval(d)
                    except Exception:
                        continue
                    if cv is None:
                        continue  # `p if p is not None else default`: the ordinary default idiom; a saved value is never None here
                    if cv != dv or type(cv) is not type(dv):
                        if n.targets[0].attr in J.export.get(cn, {}) or n.targets[0].attr in {p for p in J.read.get(cn, {})}:
                            ctx.violation(f"{cn}:lossy-coercion:{n.targets[0].attr}", init.loc(n),
                                          f"{cn}.__init__ rewrites `{t.left.id}` == {cv!r} into {dv!r} (`{ast.unparse(n)[:70]}`): a legitimately saved value {cv!r} "
                                          f"comes back as {dv!r}, so a re-export differs from the file")
    ctx.end()


def r16_5(ctx, J):
    ctx.begin("R16.5", "reader type dispatch covers every exported subclass", floor=1)
    for base, reader_cls in ((TASK, WORKFLOW),):
        f = ctx.repo.method(reader_cls, "read_json_data")
        handled = set()
        reads_type = any(isinstance(n, ast.Subscript) and isinstance(n.slice, ast.Constant) and n.slice.value == "type" for n in ast.walk(f.node))
        for n in ast.walk(f.node):
            # `j["type"] == "BaseTask"` or, through a local, `task_type == "BaseTask"`; also membership in a literal tuple
            if isinstance(n, ast.Compare) and len(n.ops) == 1 and reads_type:
                for side in [n.left] + list(n.comparators):
                    if isinstance(side, ast.Constant) and isinstance(side.value, str):
                        handled.add(side.value)
                    if isinstance(side, (ast.Tuple, ast.List, ast.Set)):
                        handled |= {x.value for x in side.elts if isinstance(x, ast.Constant) and isinstance(x.value, str)}
            if isinstance(n, ast.Dict) and reads_type:
                handled |= {k.value for k in n.keys if isinstance(k, ast.Constant) and isinstance(k.value, str) and k.value in ctx.repo.classes}
            # a (type name, class) table: the name is dispatched on when it is paired with the class it stands for
            if isinstance(n, (ast.Tuple, ast.List)) and reads_type and len(n.elts) >= 2 and isinstance(n.elts[0], ast.Constant) and isinstance(n.elts[0].value, str) \
                    and any(isinstance(x, ast.Name) and x.id == n.elts[0].value and x.id in ctx.repo.classes for x in n.elts[1:]):
                handled.add(n.elts[0].value)   # (the row may carry more columns: a decoder, defaults ...)
        for sc in ctx.repo.subclasses(base):
            ctx.instance(f"{reader_cls}:dispatch:{sc}")
            if sc not in handled:
                ctx.violation(f"{reader_cls}:dispatch-missing:{sc}", f.loc(), f"{reader_cls}.read_json_data has no branch for type '{sc}': such tasks are silently dropped on load")
            elif sc not in J.read:
                ctx.violation(f"{reader_cls}:dispatch-no-ctor:{sc}", f.loc(), f"{reader_cls}.read_json_data never constructs a {sc}")
    ctx.end()


def r16_7(ctx, J):
    """'re-simulates to the same result ... every simulation-relevant parameter ... is part of the saved format': the reader hands
    every saved value to the constructor; the value arrives only if the constructor (through its base-class constructors) puts it
    somewhere on the object.  For every parameter the readers pass, a marker value given for it must show up in some attribute
    after construction -- a subclass constructor that accepts a parameter but does not forward it silently restores the default."""
    ctx.begin("R16.7", "every constructor parameter the JSON readers pass reaches an attribute of the constructed object", floor=60)
    from ..interp import State, Frame
    for cn, params in sorted(J.read.items()):
        init = ctx.repo.lookup_method(cn, "__init__")
        if init is None:
            continue
        for pname in sorted(params):
            if pname not in init.params:
                continue
            I = mk_interp(ctx, inline=lambda call, callee, depth: callee.name == "__init__", max_depth=4, max_paths=4000)
            bind = {q: Const(None) for q in init.params if q not in ("self", pname)}
            for q, d in init.defaults.items():
                if q in bind and isinstance(d, ast.Constant):
                    bind[q] = Const(d.value) if not isinstance(d.value, (int, float)) or isinstance(d.value, bool) else Poly.const(d.value)
            bind[pname] = Const("MARK:" + pname)   # a value that is not None, not a number and not empty: every `is not None` / default test is decided
            try:
                outs = I.run_function(init, bind=bind)
            except AnalysisError as e:
                raise AnalysisError(f"R16.7: {cn}.__init__ with only `{pname}` given could not be interpreted: {e}")
            reached, npaths = False, 0
            for st, ex in outs:
                if ex is not None and ex[0] == "raise":
                    continue
                npaths += 1
                if any(k[0] == "self" and ("MARK:" + pname) in repr(v) for k, v in st.heap.items()) or \
                        any(isinstance(e, Store) and isinstance(e.recv, Obj) and e.recv.name == "self" and ("MARK:" + pname) in repr(e.value) for e in flatten(st.trace)):
                    reached = True
            ctx.instance(f"{cn}:ctor-param:{pname}", sample={"paths": npaths, "reaches_an_attribute": reached})
            if npaths and not reached:
                ctx.violation(f"{cn}:ctor-drops:{pname}", init.loc(), f"{cn}.__init__ accepts `{pname}` (the JSON reader passes the saved value for it) but no attribute of the new object "
                              f"depends on it: the saved value is dropped on load and the object falls back to the default")
    ctx.end()


def r16_8(ctx, J, only_keys=None):
    """'equals the original file value-for-value': every saved object is rebuilt from its *own* JSON object.  All keys a constructor
    call is fed with must be read through one variable -- a key read through another one (a loop variable left over from an inner
    loop, the enclosing object's record) hands the object somebody else's value under the right name."""
    ctx.begin("R16.8", "every constructor call of the JSON readers reads all of its keys from one and the same JSON object", floor=6)
    for cn, bases in sorted(J.read_bases.items()):
        site = J.read_site.get(cn)
        if not bases or site is None:
            continue
        main = max(bases, key=lambda b: len(bases[b]))
        ctx.instance(f"{cn}:one-source", cells=sum(len(v) for v in bases.values()), sample={"read_through": {b: len(v) for b, v in bases.items()}})
        for b, uses in sorted(bases.items()):
            if b == main:
                continue
            for key, node in uses:
                if only_keys is not None and key not in only_keys:
                    continue
                ctx.violation(f"{cn}:foreign-source:{key}", site[0].loc(node),
                              f"the reader builds a {cn} from `{main}[...]` ({len(bases[main])} keys) but takes '{key}' from `{b}`: the object is restored with the value saved "
                              f"for another object (or fails when that variable was never bound)")
    ctx.end()


def r16_6(ctx):
    """'writing never fails for a constructible model' / 'equals the original file value-for-value': the writer serialises with
    options under which every str, float and nesting the model can hold is writable in the file's encoding (the json defaults:
    pure ASCII output, NaN allowed), opens the file with the caller's encoding, and the reader opens it the same way."""
    ctx.begin("R16.6", "writer: json.dump with total options into a file opened with the given encoding; reader opens symmetrically", floor=2)
    from ..guards import region
    w = ctx.repo.method(PROJECT, "write_simple_json")
    # options of json.dump/dumps that can make serialisation of a valid model fail or lose information when changed from the default
    strict = {"ensure_ascii": True, "allow_nan": True, "check_circular": True, "skipkeys": False}
    ndump = 0
    for g in region(ctx, [w]):
        for n in ast.walk(g.node):
            if isinstance(n, ast.Call) and ast.unparse(n.func) in ("json.dump", "json.dumps", "dump", "dumps"):
                ndump += 1
                ctx.instance(construct(g, "json.dump"), sample={"call": ast.unparse(n)[:80]})
                for kw in n.keywords:
                    if kw.arg is None:
                        ctx.violation(construct(g, "json-options-unknown"), g.loc(n), f"`{ast.unparse(n)[:70]}` passes **options that are not known statically")
                    elif kw.arg in strict:
                        ok = isinstance(kw.value, ast.Constant) and kw.value.value is strict[kw.arg]
                        if not ok:
                            why = {"ensure_ascii": "non-ASCII names are then written as raw characters: writing raises UnicodeEncodeError for an `encoding` that lacks them (or a lone surrogate), "
                                                   "and a file read back with another codec no longer restores the names",
                                   "allow_nan": "a model holding inf/nan (e.g. an unset due time) can then not be written",
                                   "check_circular": "a cyclic structure then recurses without bound", "skipkeys": "entries with non-string keys are then silently dropped"}[kw.arg]
                            ctx.violation(construct(g, f"json-option:{kw.arg}"), g.loc(n), f"`{ast.unparse(n)[:70]}`: {kw.arg}={ast.unparse(kw.value)} (default {strict[kw.arg]}): {why}")
            if isinstance(n, ast.Call) and isinstance(n.func, ast.Name) and n.func.id == "open":
                enc = next((kw.value for kw in n.keywords if kw.arg == "encoding"), None)
                ctx.instance(construct(g, "open"), sample={"call": ast.unparse(n)[:80]})
                if not (isinstance(enc, ast.Name) and enc.id in g.params):
                    ctx.violation(construct(g, "open-encoding"), g.loc(n), f"`{ast.unparse(n)[:70]}` does not open the file with the caller's `encoding` argument")
                for kw in n.keywords:
                    if kw.arg == "errors":
                        ctx.violation(construct(g, "open-errors"), g.loc(n), f"`{ast.unparse(n)[:70]}` sets errors={ast.unparse(kw.value)}: characters the codec lacks are then silently altered in the saved file")
    ctx.require(ndump >= 1, "no json.dump call found in write_simple_json")
    for rn in ("read_simple_json", "append_project_log_from_simple_json"):
        g = ctx.repo.method(PROJECT, rn)
        for n in ast.walk(g.node):
            if isinstance(n, ast.Call) and isinstance(n.func, ast.Name) and n.func.id == "open":
                enc = next((kw.value for kw in n.keywords if kw.arg == "encoding"), None)
                ctx.instance(construct(g, "open"), sample={"call": ast.unparse(n)[:80]})
                if not (isinstance(enc, ast.Name) and enc.id in g.params) or any(kw.arg == "errors" for kw in n.keywords):
                    ctx.violation(construct(g, "open-encoding"), g.loc(n), f"`{ast.unparse(n)[:70]}` does not open the file with the caller's `encoding` argument (strictly)")
    ctx.end()


def run(ctx):
    J = JsonTables(ctx)
    r16_6(ctx)
    r16_1(ctx, J)
    r16_2(ctx, J)
    r16_3(ctx, J)
    r16_4(ctx, J)
    r16_5(ctx, J)
    r16_7(ctx, J)
    r16_8(ctx, J)
    # "at any stage (... finished backward)": a backward run must hand back a model without helper tasks and with restored links,
    # otherwise the file holds IDs of tasks that are not saved (C17's restoration and helper rules)
    from .C17 import r17_1, r17_3
    r17_1(ctx)
    r17_3(ctx)
