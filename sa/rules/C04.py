"""C04 -- only eligible resources are ever allocated to a task."""
import ast
import itertools

from ..common import *
from ..errors import AnalysisError
from ..interp import State
from ..alloc import allocation_sites, alloc_func, permutation_sorters

CLAIM = ("Every armed rule instance held: (R4.1) at every allocation site of the allocator the facts that hold for the worker "
         "include: state FREE, positive skill for the task, its team targets the task, and a can_add_resources() result that was "
         "evaluated after the last allocation to this task (a stale filter is accepted only where the loop leaves after one "
         "allocation); for facility tasks additionally: the facility is FREE, skilled, its workplace targets the task, it is "
         "drawn from the workplace where the task's component is placed, and can_add_resources(worker, facility) is fresh; "
         "the two team/workplace helpers mean what their names say; (R4.2) can_add_resources returns True only if the task is "
         "READY/WORKING, no solo resource is or would be combined with another, fixed-ID lists are respected, the facility is "
         "idle, and the skill predicates hold (decision table, exhaustive in the thorough tier); (R4.3) the skill predicates "
         "return True only for a map entry that exists and is strictly positive.")
EXPLANATION = ("Abstract interpretation of the allocator with collection provenance (element facts of filtered lists, dropped when "
               "stale) and a fact store for opaque predicates; exhaustive decision table of BaseTask.can_add_resources; interval "
               "facts on the skill value on every True-returning path of the skill predicates.")
ASSUMPTIONS = ["the priority sorters return permutations (checked structurally here, in detail by C11 R11.1)"]
EXHAUSTIVE = "thorough"  # the deciding tables range over the complete finite domain
TECHNIQUE = "guard dominance via collection-provenance dataflow + exhaustive decision table (abstract interpretation)"


def fact(ev, text):
    v = ev.facts.get(text)
    return v[0] if v else None


def r4_1(ctx):
    ctx.begin("R4.1", "eligibility facts at every allocation site (fresh can_add_resources, FREE, skilled, targeted, right workplace)", floor=2)
    f, sites = allocation_sites(ctx)
    srt = permutation_sorters(ctx)
    for name, ok in srt.items():
        ctx.require(ok, f"{name} is not recognised as a sorted permutation of its input (R11.1): provenance facts cannot be carried through it")
    kinds = set()
    for i, s in enumerate(sites):
        e = s.ev.get("task<-worker")
        if e is None:
            ctx.violation(construct(f, "facility-without-worker"), s.ev["task<-facility"].loc, "a facility is allocated to a task without a paired worker")
            continue
        T, W, F = s.task, s.worker, s.facility
        kind = "facility" if F is not None else "worker-only"
        kinds.add(kind)
        if isinstance(F, Obj) and F.name.startswith("<None>."):
            continue   # the path on which the task has no component: reading its placed_workplace raises AttributeError before this site
        con = construct(f, f"site-{kind}")
        ctx.instance(f"{con}#{i}", cells=8, sample={"loc": e.loc, "kind": kind, "facts": sorted(k for k, v in e.facts.items() if v[0] is True and "<" in k)[:8]})
        if not (isinstance(W, Obj) and isinstance(T, Obj)):
            ctx.violation(con + ":unknown-objects", e.loc, "allocated worker/task are not loop elements of candidate collections")
            continue
        need = {
            "worker is FREE": isinstance(e.heap.get((W.name, "state")), EnumSet) and e.heap[(W.name, "state")].members <= {"FREE"},
            "worker has a positive skill for the task": fact(e, f"<{W.name}>.has_workamount_skill(<{T.name}>.name)") is True,
            "worker's team targets the task": any(v[0] is True and ((k.startswith("<self>.") and k.endswith(f"(<{W.name}>, <{T.name}>)")) or
                                                                     (k.startswith(f"<{T.name}> In ") and "targeted_task_list" in k and "team" in k.lower()))
                                                  for k, v in e.facts.items()),
        }
        if F is None:
            need["can_add_resources(worker) holds and is fresh"] = fact(e, f"<{T.name}>.can_add_resources(worker=<{W.name}>)") is True
            nf = e.heap.get((T.name, "need_facility"))
            need["task does not need a facility"] = isinstance(nf, Const) and nf.v is False
        else:
            ef = s.ev.get("task<-facility")
            need["can_add_resources(worker, facility) holds and is fresh"] = fact(e, f"<{T.name}>.can_add_resources(facility=<{F.name}>, worker=<{W.name}>)") is True
            if isinstance(F, Obj) and ef is not None:
                need["facility is FREE"] = isinstance(ef.heap.get((F.name, "state")), EnumSet) and ef.heap[(F.name, "state")].members <= {"FREE"}
                need["facility has a positive skill for the task"] = fact(ef, f"<{F.name}>.has_workamount_skill(<{T.name}>.name)") is True
                need["facility's workplace targets the task"] = any(
                    v[0] is True and ((k.startswith("<self>.") and k.endswith(f"(<{F.name}>, <{T.name}>)")) or
                                      (k.startswith(f"<{T.name}> In ") and "targeted_task_list" in k and "workplace" in k.lower())) for k, v in ef.facts.items())
                need["facility belongs to the workplace where the task's component is placed"] = \
                    F.name.replace("task.", T.name + ".").startswith(f"{T.name}.target_component.placed_workplace.facility_list[")
            else:
                need["facility is a candidate element"] = False
        auto = e.heap.get((T.name, "auto_task"))
        need["task is not automatic"] = isinstance(auto, Const) and auto.v is False
        for what, ok in need.items():
            if not ok:
                ctx.violation(f"{con}:{what.split(' holds')[0].replace(' ', '-')}", e.loc,
                              f"allocation site ({kind}): not established that {what} at the moment of allocation "
                              f"(a candidate filter that no longer holds after an earlier allocation counts as not established)")
    ctx.require(kinds == {"facility", "worker-only"}, f"expected both a worker-only and a worker+facility allocation site, found {sorted(kinds)}")
    # helpers mean what the facts are read as
    for helper_kind, coll, idattr, member_attr in (("worker", "team_list", "team_id", WORKER), ("facility", "workplace_list", "workplace_id", FACILITY)):
        hs = [g for g in ctx.repo.classes[PROJECT].methods.values() if g.name.endswith(f"is_allocated_{helper_kind}")]
        if len(hs) != 1:
            ctx.note(f"no targeting helper for {helper_kind}: the site facts above must establish targeting directly")
            continue
        h = hs[0]
        for own_targets, other_targets, exp in ((True, False, True), (False, True, False)):
            A, B = Obj("A", TEAM if helper_kind == "worker" else WORKPLACE), Obj("B", TEAM if helper_kind == "worker" else WORKPLACE)
            R, T = Obj("R", member_attr), Obj("T", TASK)
            heap = {("A", "ID"): Const("idA"), ("B", "ID"): Const("idB"), ("R", idattr): Const("idB"),
                    ("A", "targeted_task_list"): ListV([T] if other_targets else []), ("B", "targeted_task_list"): ListV([T] if own_targets else [])}
            I = mk_interp(ctx, collections={f"self.organization.{coll}": [A, B]})
            outs = I.run_function(h, bind={h.params[1]: R, h.params[2]: T}, heap=heap)
            for st, ex in outs:
                r = ex[1] if ex and ex[0] == "return" else None
                got = r.v if isinstance(r, Const) else None
                ctx.instance(construct(h, f"own={own_targets}"))
                if got is not exp:
                    ctx.violation(construct(h, "meaning"), h.loc(), f"{h.name}: resource of unit idB, task targeted by {'its own' if own_targets else 'another'} unit only => returns {r!r} (expected {exp})")
    ctx.end()


def car_run(ctx, f, cfg):
    st = State()
    S, W, F = Obj("self", TASK), Obj("W", WORKER), Obj("F", FACILITY)
    w0, f0 = Obj("w0", WORKER), Obj("f0", FACILITY)
    heap = {("self", "state"): E(TS, cfg["state"]), ("W", "solo_working"): Const(cfg["w_solo"]), ("W", "ID"): Const("W"), ("F", "ID"): Const("F"),
            ("w0", "solo_working"): Const(cfg["aw"] == "solo"), ("f0", "solo_working"): Const(cfg["af"] == "solo"),
            ("self", "allocated_worker_list"): ListV([] if cfg["aw"] == "none" else [w0]),
            ("self", "allocated_facility_list"): ListV([] if cfg["af"] == "none" else [f0]),
            ("self", "fixing_allocating_worker_id_list"): {"none": Const(None), "in": ListV([Const("W")]), "out": ListV([Const("X")]), "empty": ListV([])}[cfg["fix_w"]],
            ("self", "fixing_allocating_facility_id_list"): {"none": Const(None), "in": ListV([Const("F")]), "out": ListV([Const("X")]), "empty": ListV([])}[cfg["fix_f"]]}
    if cfg["fac"] != "none":
        heap[("F", "solo_working")] = Const(cfg["fac"] == "solo")
        heap[("F", "assigned_task_list")] = ListV([Obj("other", TASK)] if cfg["busy"] else [])
    st.heap.update(heap)
    dep = frozenset()
    st.facts["<W>.has_workamount_skill(<self>.name)"] = (cfg["w_skill"], dep)
    st.facts["<F>.has_workamount_skill(<self>.name)"] = (cfg["f_skill"], dep)
    st.facts["<W>.has_facility_skill(<F>.name)"] = (cfg["wf_skill"], dep)
    I = mk_interp(ctx)
    bind = {"worker": W, "facility": F if cfg["fac"] != "none" else Const(None)}
    outs = I.run_function(f, bind=bind, st=st, self_obj=S)
    res = set()
    for s1, ex in outs:
        r = ex[1] if ex and ex[0] == "return" else None
        res.add(r.v if isinstance(r, Const) else repr(r))
    return res


def car_expected(cfg):
    ok = cfg["state"] in ("READY", "WORKING", "WORKING_ADDITIONALLY")
    ok = ok and cfg["aw"] != "solo" and cfg["af"] != "solo"
    ok = ok and not (cfg["w_solo"] and cfg["aw"] != "none")
    ok = ok and cfg["fix_w"] not in ("out", "empty") and cfg["w_skill"]   # (an empty list of allowed IDs allows nobody)
    if cfg["fac"] != "none":
        ok = ok and not (cfg["fac"] == "solo" and cfg["af"] != "none")
        ok = ok and cfg["fix_f"] not in ("out", "empty") and not cfg["busy"] and cfg["f_skill"] and cfg["wf_skill"]
    return ok


def r4_2(ctx):
    ctx.begin("R4.2", "can_add_resources decision table: True only if every conjunct of the statement holds", floor=50)
    f = ctx.repo.method(TASK, "can_add_resources")
    dims = {
        "state": [s for s in ctx.repo.enums[TS]],
        "aw": ["none", "plain", "solo"], "af": ["none", "plain", "solo"],
        "w_solo": [False, True], "fac": ["none", "plain", "solo"],
        "fix_w": ["none", "in", "out", "empty"], "fix_f": ["none", "in", "out", "empty"], "busy": [False, True],
        "w_skill": [True, False], "f_skill": [True, False], "wf_skill": [True, False],
    }
    base_nf = {"state": "READY", "aw": "none", "af": "none", "w_solo": False, "fac": "none", "fix_w": "none", "fix_f": "none", "busy": False,
               "w_skill": True, "f_skill": True, "wf_skill": True}
    cfgs = []
    if ctx.thorough:
        keys = list(dims)
        for vals in itertools.product(*[dims[k] for k in keys]):
            c = dict(zip(keys, vals))
            if c["fac"] == "none" and (c["fix_f"] != "none" or c["busy"] or not c["f_skill"] or not c["wf_skill"] or c["af"] != "none"):
                continue
            cfgs.append(c)
    else:
        seen = set()
        for facv in ("none", "plain", "solo"):
            b = dict(base_nf, fac=facv)
            for k1 in dims:
                for v1 in dims[k1]:
                    for k2 in dims:
                        for v2 in dims[k2]:
                            c = dict(b)
                            c[k1] = v1
                            c[k2] = v2
                            if c["fac"] == "none" and (c["fix_f"] != "none" or c["busy"] or not c["f_skill"] or not c["wf_skill"]):
                                continue
                            t = tuple(sorted(c.items()))
                            if t not in seen:
                                seen.add(t)
                                cfgs.append(c)
    n_true = 0
    for c in cfgs:
        got = car_run(ctx, f, c)
        exp = car_expected(c)
        if not got or any(not isinstance(x, bool) for x in got):
            raise AnalysisError(f"R4.2: can_add_resources is not decided for {c}: {sorted(map(str, got))[:3]}")
        n_true += exp
        if True in got and not exp:
            why = [k for k in c if c[k] != base_nf.get(k) and k != "fac"]
            ctx.violation(construct(f, "accepts:" + "+".join(sorted(why))[:60]), f.loc(),
                          f"can_add_resources returns True for {c}: the statement forbids this combination", {"config": c})
        if got != {True} and exp and c["state"] != "WORKING_ADDITIONALLY":
            ctx.note(f"can_add_resources rejects an eligible combination {c}: {got}")
            if False in got:
                ctx.violation(construct(f, "rejects-eligible"), f.loc(), f"can_add_resources returns False for an eligible combination {c} (idle-worker clause of C06 depends on it)")
    ctx.instance(construct(f, "table"), cells=len(cfgs), sample={"cells": len(cfgs), "expected_true": n_true})
    ctx.require(n_true >= 3, "decision table has no accepting cell")
    ctx.rules[ctx._cur]["instances"] = max(ctx.rules[ctx._cur]["instances"], len(cfgs))
    ctx.end()


def r4_3(ctx):
    ctx.begin("R4.3", "skill predicates: True only for an existing, strictly positive map entry", floor=3)
    for cls, name, mp in ((WORKER, "has_workamount_skill", "workamount_skill_mean_map"), (FACILITY, "has_workamount_skill", "workamount_skill_mean_map"),
                          (WORKER, "has_facility_skill", "facility_skill_map")):
        g = ctx.repo.method(cls, name)
        I = mk_interp(ctx)
        outs = I.run_function(g, bind={"__defaults__": True})
        trues = 0
        for st, ex in outs:
            r = ex[1] if ex and ex[0] == "return" else None
            if not (isinstance(r, Const) and r.v is True):
                if not (isinstance(r, Const) and r.v is False):
                    ctx.violation(construct(g, "non-boolean"), g.loc(), f"{cls}.{name} returns {r!r}")
                continue
            trues += 1
            member = any(mp in k and ((v[0] is True and " In " in k) or (v[0] is False and " NotIn " in k)) for k, v in st.facts.items())
            pos = False
            for sym, (lo, hi) in st.bounds.items():
                if mp in sym and lo is not None and lo > 0:
                    pos = True
                if mp in sym and lo is not None and lo == 0 and 0 in st.neq.get(sym, ()):
                    pos = True
            ctx.instance(construct(g, "true-path"), sample={"member_test": member, "positive": pos})
            if not member:
                ctx.violation(construct(g, "missing-entry"), g.loc(), f"{cls}.{name} can return True without testing that the name is a key of {mp} (missing entries must mean 'no skill')")
            if not pos:
                ctx.violation(construct(g, "non-positive"), g.loc(), f"{cls}.{name} can return True although the {mp} entry is not known to be > 0 (a zero skill must mean 'no skill')")
        ctx.require(trues >= 1, f"{cls}.{name} has no True-returning path")
    ctx.end()


def r4_4(ctx):
    """'not absent at the moment of allocation': the FREE fact of R4.1 is only as good as the state it reads -- the per-step
    absence update must be the last writer of worker/facility state before the allocation phase of the same step."""
    from ..simstruct import loop_paths, working_of, _closure_effects
    ctx.begin("R4.4", "the per-step absence update is the last writer of resource state before allocation", floor=1)
    f, loop = sim_loop(ctx)
    n = 0
    for i, p in enumerate(loop_paths(ctx, key="plain")):
        names = [c for c, _ in p["phases"]]
        if "allocate" not in names:
            continue
        n += 1
        ai = names.index("allocate")
        ctx.instance(construct(f, f"loop-path-{i}"), sample={"phases_before_allocation": names[:ai]})
        if "resource-state" not in names[:ai]:
            ctx.violation(construct(f, "no-absence-update-before-allocation"), p["phases"][ai][1].loc,
                          "resources are allocated without their individual absence lists having been applied in this step")
            continue
        ri = max(j for j, c in enumerate(names[:ai]) if c == "resource-state")
        for c, e in p["phases"][ri + 1: ai]:
            if not isinstance(e, Call):
                continue
            for ef in _closure_effects(ctx, e.callees):
                if ef.kind in ("store", "mut") and ef.attr == "state" and ef.cls in (WORKER, FACILITY, None):
                    ctx.violation(construct(f, f"state-writer-after-absence-update:{c}"), e.loc,
                                  f"phase `{c}` runs between the per-step absence update and allocation and can write a {ef.cls or 'resource'}'s state ({ef.loc}): "
                                  f"a worker who is absent in this step can be made FREE again and be allocated")
                    break
    ctx.require(n >= 1, "no loop path with an allocation phase")
    ctx.end()


def r4_5(ctx):
    """'belongs to a team assigned to the task': the allocator finds a worker's team through worker.team_id (a facility's workplace
    through facility.workplace_id), while the candidates are drawn from team.worker_list / workplace.facility_list.  The two
    notions of membership agree only if every method that puts a resource into such a list gives it the owner's ID -- whatever ID
    it carried before (a worker moved from another team).  Constructors are exempt: they keep an ID given by the caller."""
    ctx.begin("R4.5", "methods that add a worker / facility to a team / workplace set its membership ID to the new owner, unconditionally", floor=2)
    n = 0
    for cls, coll, idattr in ((TEAM, "worker_list", "team_id"), (WORKPLACE, "facility_list", "workplace_id")):
        for g in ctx.repo.all_funcs():
            if g.cls != cls or g.name in ("__init__", "read_json_data") or getattr(g, "parent", None) is not None:
                continue
            pieces = [g] + [h for h in ctx.eff.reachable([g], precise=True) if h is not g and is_private_helper(h)]   # (the method and the private pieces it is written with)
            if not any(ef.kind == "mut" and ef.attr == coll and ef.op in ("append", "insert", "extend") and ef.cls in (cls, None) for h in pieces for ef in ctx.eff.of(h)):
                continue
            I = mk_interp(ctx)
            for st, ex in I.run_function(g, heap={("self", "ID"): Unk("self.ID", ("prim", "str"))}):
                if ex is not None and ex[0] == "raise":
                    continue
                evs = list(flatten(st.trace))
                for a in [e for e in evs if isinstance(e, Mut) and e.attr == coll and e.op in ("append", "insert") and isinstance(e.recv, Obj) and e.recv.name == "self"]:
                    member = a.args[-1] if a.args else None
                    n += 1
                    ctx.instance(construct(g, f"adds-to-{coll}"), sample={"member": repr(member)})
                    stores = [e for e in evs if isinstance(e, Store) and e.attr == idattr and isinstance(e.recv, Obj) and isinstance(member, Obj) and e.recv == member]
                    ok = stores and isinstance(stores[-1].value, Unk) and stores[-1].value.tag == "self.ID"
                    if not ok:
                        ctx.violation(construct(g, f"membership-id:{idattr}"), a.loc,
                                      f"{g.qualname} puts {member!r} into {cls}.{coll} but does not set its {idattr} to this {cls}'s ID on every path "
                                      f"({'it stores ' + repr(stores[-1].value) if stores else 'no store, or only under a condition'}): a resource moved here from another "
                                      f"{'team' if cls == TEAM else 'workplace'} keeps the old ID, so the allocator judges its eligibility by the wrong {'team' if cls == TEAM else 'workplace'}")
    ctx.require(n >= 2, "no add_worker / add_facility style method found")
    ctx.end()


def r4_6(ctx):
    """'if the task fixes its allowed worker IDs, the worker is one of them': the constructor keeps the fixed-ID lists as they are
    given -- in particular an *empty* list (nobody is allowed) must not turn into None (no restriction), and None must stay None."""
    ctx.begin("R4.6", "BaseTask.__init__ keeps the fixed-ID lists as given (empty list stays a list, None stays None)", floor=6)
    c = ctx.repo.method(TASK, "__init__")
    for pname in ("fixing_allocating_worker_id_list", "fixing_allocating_facility_id_list"):
        ctx.require(pname in c.params, f"BaseTask.__init__ has no parameter {pname}")
        for label, given in (("empty list", ListV([], True, "list")), ("None", Const(None)), ("one ID", ListV([Const("w1")], True, "list"))):
            I = mk_interp(ctx)
            for st, ex in I.run_function(c, bind={"__defaults__": True, pname: given}):
                if ex is not None and ex[0] == "raise":
                    continue
                v = st.heap.get(("self", pname))
                ctx.instance(construct(c, f"{pname}:{label}"), sample={"stored": repr(v)})
                if label == "None":
                    ok = isinstance(v, Const) and v.v is None
                elif label == "empty list":
                    ok = isinstance(v, ListV) and not v.items
                else:
                    ok = isinstance(v, ListV) and len(v.items) == 1 and isinstance(v.items[0], Const) and v.items[0].v == "w1"
                if not ok:
                    ctx.violation(construct(c, f"fixed-id-list:{pname}"), c.loc(), f"BaseTask(..., {pname}=<{label}>) stores `{v!r}`: " +
                                  ("an empty list means that nobody is allowed; stored as None it means no restriction, and the task takes any eligible resource"
                                   if label == "empty list" else "the restriction the caller gave is changed by the constructor"))
    ctx.end()


def run(ctx):
    r4_4(ctx)
    r4_5(ctx)
    r4_6(ctx)
    r4_1(ctx)
    r4_2(ctx)
    r4_3(ctx)
    # "not absent at the moment of allocation" is decided through the resource state: FREE must exclude the resource's own absence
    from .C10 import r10_2
    r10_2(ctx)
