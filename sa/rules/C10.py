"""C10 -- absence is dead time: no work, no cost, it only stretches the schedule."""
import ast
import itertools

from ..common import *
from ..errors import AnalysisError
from .. import spec
from ..simstruct import loop_paths, working_of
from ..fanout import FanOut
from .C07 import org_run

CLAIM = ("Every armed rule instance held: (R10.1) a step is an absence step exactly when its time is in the absence list; on "
         "that path there is no allocation phase, every worker and facility is set to ABSENCE through a complete traversal, "
         "the only perform call is workflow.perform(only_auto_task=True) under the perform_auto_task_while_absence_time flag, "
         "and that call performs only tasks flagged auto_task; the cost call charges 0 to everyone; (R10.2) a worker or "
         "facility whose state is ABSENCE contributes 0 progress and is charged 0, and its state is ABSENCE exactly when the "
         "step is in its own absence list; (R10.3) record_state(working=False) logs ABSENCE for workers and facilities and "
         "READY for WORKING tasks/components. The equality 'remove_absence_time_list(result) == result without absence' is "
         "not decided; its structural half is C18.")
EXPLANATION = ("Phase queries on the enumerated loop paths with a concrete absence list; fan-out of the absence setter; "
               "decision tables of perform(only_auto_task), get_work_amount_skill_progress, "
               "check_update_state_from_absence_time_list and record_state for both resource siblings.")
ASSUMPTIONS = ["numpy.random.normal(m, 0) == m (deterministic skills)"]
TECHNIQUE = "path/phase queries on the interpreted step loop + finite-domain decision tables"


def r10_1(ctx):
    ctx.begin("R10.1", "absence step <=> time in list; no allocation; all resources ABSENCE; only flagged auto tasks performed; zero cost", floor=6)
    f, loop = sim_loop(ctx)
    # (a) working flag shape with a concrete list
    for t, exp in ((5, False), (4, True), (7, False), (6, True)):
        paths = loop_paths(ctx, bind={"absence_time_list": ListV([Poly.const(5), Poly.const(7)])}, heap={("self", "time"): Poly.const(t)})
        for p in paths:
            if p["exit"] is not None:
                continue
            w = working_of(p)
            ctx.instance(construct(f, f"working-flag:time={t}"), sample={"time": t, "absence_list": [5, 7], "working": w})
            if w is not exp:
                ctx.violation(construct(f, "working-flag"), f.loc(loop), f"with absence list [5, 7] the step at time {t} is treated as {'working' if w else 'absence'} (working={w})")
    # (b) phases per path
    for i, p in enumerate(loop_paths(ctx, key="plain")):
        if p["exit"] is not None:
            continue
        w = working_of(p)
        names = [c for c, _ in p["phases"]]
        ctx.instance(construct(f, f"phases-path-{i}"), sample={"working": w, "phases": names})
        ctx.require(w is not None, "a step path on which `working` is undecided")
        if not w:
            if "allocate" in names:
                ctx.violation(construct(f, "allocate-on-absence-step"), next(e for c, e in p["phases"] if c == "allocate").loc,
                              "resources are allocated on a project-wide absence step")
            if "absence-state" not in names:
                ctx.violation(construct(f, "absence-state-missing"), f.loc(loop), "on an absence step workers/facilities are not set to ABSENCE")
            if "resource-state" in names:
                ctx.violation(construct(f, "resource-state-on-absence"), f.loc(loop), "individual resource states are recomputed on a project-wide absence step (overrides ABSENCE)")
            for c, e in p["phases"]:
                if c == "perform":
                    oa = e.args.get("only_auto_task", e.args.get(1))
                    flag_conds = [x for x in p["trace"] if isinstance(x, Cond) and x.establishes("perform_auto_task_while_absence_time") is True]
                    if not (isinstance(oa, Const) and oa.v is True):
                        ctx.violation(construct(f, "perform-all-on-absence"), e.loc, "on an absence step tasks are performed without only_auto_task=True")
                    if not flag_conds:
                        ctx.violation(construct(f, "perform-without-flag"), e.loc, "on an absence step automatic tasks are performed although perform_auto_task_while_absence_time is not tested")
            has_flag_true = any(isinstance(x, Cond) and x.establishes("perform_auto_task_while_absence_time") is True for x in p["trace"])
            if has_flag_true and "perform" not in names:
                ctx.violation(construct(f, "auto-not-performed"), f.loc(loop), "perform_auto_task_while_absence_time is set but automatic tasks are not performed on absence steps")
        else:
            if "resource-state" not in names or "allocate" not in names or names.index("resource-state") > names.index("allocate"):
                ctx.violation(construct(f, "resource-state-before-allocate"), f.loc(loop), "on a working step individual absences must be applied before allocation")
            if "absence-state" in names:
                ctx.violation(construct(f, "absence-state-on-working-step"), f.loc(loop), "all resources are set ABSENCE on a working step")
    # (c) the absence setter reaches every worker and facility
    g = ctx.repo.method(ORG, "set_absence_state_to_all_workers_facilities")
    I = mk_interp(ctx, inline=lambda call, callee, depth: True, max_depth=4)
    outs = I.run_function(g)

    def m(ev):
        if isinstance(ev, Store) and ev.attr == "state" and ev.cls in (WORKER, FACILITY) and isinstance(ev.value, EnumSet) and ev.value.single() == "ABSENCE":
            return ev.cls
        return None
    for st, ex in outs:
        fo = FanOut(ctx, m)
        c = fo.counts(st.trace)
        ctx.instance(construct(g, "traversal"), sample={k: sorted(v) for k, v in c.items()})
        for cls in (WORKER, FACILITY):
            if c.get(cls, {0}) != {1}:
                ctx.violation(construct(g, f"absence-setter:{cls}"), g.loc(), f"project-wide absence does not set every {cls} to ABSENCE exactly once (per-object count {sorted(c.get(cls, {0}))})")
    # (d) workflow.perform(only_auto_task=True) performs only auto tasks; (False) performs all
    h = ctx.repo.method(WORKFLOW, "perform")
    for only in (True, False):
        for auto in (True, False):
            T = Obj("T", TASK)
            I = mk_interp(ctx, collections={"self.task_list": [T]})
            outs = I.run_function(h, bind={"only_auto_task": Const(only), "__defaults__": True}, heap={("T", "auto_task"): Const(auto)})
            for st, ex in outs:
                performed = any(isinstance(e, Call) and f"{TASK}.perform" in e.callees and isinstance(e.recv, Obj) and e.recv.name == "T" for e in flatten(st.trace))
                exp = auto or not only
                ctx.instance(construct(h, f"only_auto={only},auto={auto}"), sample={"performed": performed})
                if performed != exp:
                    ctx.violation(construct(h, "only-auto-task"), h.loc(), f"workflow.perform(only_auto_task={only}) {'performs' if performed else 'skips'} a task with auto_task={auto}")
    # (e) cost on the absence path: zero for everyone
    for p in loop_paths(ctx, key="plain"):
        if p["exit"] is None and working_of(p) is False:
            fo = ctx.repo.method(ORG, "add_labor_cost")
            for c, e in p["phases"]:
                if c == "cost":
                    flags = {k: v for k, v in e.args.items() if isinstance(k, str)}
                    for ws in ctx.repo.enums[WS]:
                        for fs in ctx.repo.enums[FS_]:
                            _, res = org_run(ctx, flags, ws, fs)
                            for ent, ret in res:
                                for who in ("w", "fa"):
                                    v = ent[who][0] if len(ent[who]) == 1 else None
                                    if not (isinstance(v, Poly) and v.is_const() and v.const_value() == 0):
                                        ctx.violation(construct(f, "absence-step-cost"), e.loc, f"on an absence step a {'worker' if who == 'w' else 'facility'} (state {ws if who == 'w' else fs}) is charged `{v!r}`")
                    ctx.instance(construct(f, "absence-step-cost"), cells=9)
    ctx.end()


SIBS = [(WORKER, WS), (FACILITY, FS_)]


def r10_2(ctx):
    ctx.begin("R10.2", "ABSENCE resources contribute 0 progress; state is ABSENCE exactly when the step is in the own absence list", floor=4)
    for cls, enum in SIBS:
        g = ctx.repo.method(cls, "get_work_amount_skill_progress")
        for s in ctx.repo.enums[enum]:
            I = mk_interp(ctx, inline=lambda call, callee, depth: callee.cls == cls, max_depth=2)
            outs = I.run_function(g, bind={"task_name": Const("a"), "seed": Const(None)}, heap={("self", "state"): E(enum, s)})
            for st, ex in outs:
                ret = ex[1] if ex and ex[0] == "return" else None
                zero = isinstance(ret, Poly) and ret.is_const() and ret.const_value() == 0
                skilled = [c for c in st.trace if isinstance(c, Cond)]
                ctx.instance(construct(g, f"state={s}"), sample={"returns": repr(ret)[:60]})
                if s == "ABSENCE" and not zero:
                    ctx.violation(construct(g, "absent-contributes"), g.loc(), f"{cls}.get_work_amount_skill_progress returns `{ret!r}` for a resource in state ABSENCE (must be 0)")
        h = ctx.repo.method(cls, "check_update_state_from_absence_time_list")
        # (own absence list, step): sorted, unsorted (the list is whatever the user wrote), empty
        for lst, step in (([3], 3), ([3], 2), ([6, 2], 6), ([6, 2], 2), ([6, 2], 4), ([], 0), ([0], 0)):
            absent = step in lst
            for held in (False, True):
                I = mk_interp(ctx)
                heap = {("self", "absence_time_list"): ListV([Poly.const(x) for x in lst]), ("self", "assigned_task_list"): ListV([Obj("T", TASK)] if held else [])}
                outs = I.run_function(h, bind={"step_time": Poly.const(step)}, heap=heap)
                for st, ex in outs:
                    v = st.heap.get(("self", "state"))
                    got = v.single() if isinstance(v, EnumSet) else None
                    if ex is not None and ex[0] == "raise":
                        got = "an exception"
                    exp = "ABSENCE" if absent else ("WORKING" if held else "FREE")
                    ctx.instance(construct(h, f"list={lst},step={step},holds={held}"), sample={"state": got})
                    if got != exp:
                        ctx.violation(construct(h, "state-table"), h.loc(), f"{cls}: own absence list {lst}, step {step} ({'in' if absent else 'not in'} the list), {'holds' if held else 'holds no'} task => state {got} (expected {exp})")
    ctx.end()


def r10_2b(ctx):
    ctx.begin("R10.2b", "the per-step absence update reaches every worker and facility exactly once", floor=1)
    g = ctx.repo.method(ORG, "check_update_state_from_absence_time_list")
    I = mk_interp(ctx, inline=lambda call, callee, depth: True, max_depth=4)
    outs = I.run_function(g)

    def m(ev):
        if isinstance(ev, Store) and ev.attr == "state" and ev.cls in (WORKER, FACILITY):
            return ev.cls
        return None
    for st, ex in outs:
        fo = FanOut(ctx, m)
        c = fo.counts(st.trace)
        ctx.instance(construct(g, "traversal"), sample={k: sorted(v) for k, v in c.items()})
        for cls in (WORKER, FACILITY):
            if c.get(cls, {0}) != {1}:
                ctx.violation(construct(g, f"absence-update:{cls}"), g.loc(), f"the per-step absence update sets the state of a {cls} {sorted(c.get(cls, {0}))} time(s) (expected exactly once for every one): "
                              f"a resource that is skipped keeps last step's state and works through its own absence")
    # the same table as R10.2, but through the entry point the simulation actually calls: one team with two workers, one workplace
    # with two facilities (whatever the per-class methods say, this is the state a step starts from)
    tm, wp = Obj("tm", TEAM), Obj("wp", WORKPLACE)
    members = {WORKER: [Obj("w1", WORKER), Obj("w2", WORKER)], FACILITY: [Obj("f1", FACILITY), Obj("f2", FACILITY)]}
    colls = {"self.team_list": [tm], "self.workplace_list": [wp], "tm.worker_list": members[WORKER], "wp.facility_list": members[FACILITY]}
    cases = [(lst, step, held) for lst, step in (([3], 3), ([3], 2), ([6, 2], 2), ([], 0)) for held in (False, True)]
    for first in cases:
        for second in cases:
            if first[1] != second[1]:
                continue
            heap = {}
            for cls in (WORKER, FACILITY):
                for o, (lst, _step, held) in zip(members[cls], (first, second)):
                    heap[(o.name, "absence_time_list")] = ListV([Poly.const(x) for x in lst])
                    heap[(o.name, "assigned_task_list")] = ListV([Obj("T", TASK)] if held else [])
            I = mk_interp(ctx, inline=lambda call, callee, depth: True, collections=colls, max_depth=4)
            outs = I.run_function(g, bind={g.params[1]: Poly.const(first[1])}, heap=heap)
            for st, ex in outs:
                for cls in (WORKER, FACILITY):
                    for o, (lst, step, held) in zip(members[cls], (first, second)):
                        v = st.heap.get((o.name, "state"))
                        got = v.single() if isinstance(v, EnumSet) else None
                        if ex is not None and ex[0] == "raise":
                            got = "an exception"
                        exp = "ABSENCE" if step in lst else ("WORKING" if held else "FREE")
                        ctx.instance(construct(g, f"{o.name}:list={lst},step={step},holds={held}|other={first if o.name.endswith('2') else second}"), sample={"state": got})
                        if got != exp:
                            ctx.violation(construct(g, f"state-table:{cls}"), g.loc(), f"per-step absence update, {cls} `{o.name}` (own absence list {lst}, step {step}, {'holds' if held else 'holds no'} task; "
                                          f"its neighbour: {first if o.name.endswith('2') else second}) => state {got} (expected {exp})")
    ctx.end()


def r10_3(ctx):
    ctx.begin("R10.3", "record_state(working=False): ABSENCE for workers/facilities; WORKING shown as READY for tasks/components", floor=4)
    for cls, enum in SIBS + [(TASK, TS), (COMPONENT, CS)]:
        g = ctx.repo.method(cls, "record_state")
        for working in (True, False):
            for s in ctx.repo.enums[enum]:
                I = mk_interp(ctx)
                outs = I.run_function(g, bind={"working": Const(working)}, heap={("self", "state"): E(enum, s)})
                if cls in (WORKER, FACILITY):
                    exp = s if working else "ABSENCE"
                else:
                    exp = "READY" if (not working and s == "WORKING") else s
                for st, ex in outs:
                    apps = [e for e in events(st.trace, "mut") if e.attr == "state_record_list" and e.op == "append"]
                    got = [a.args[0].single() if a.args and isinstance(a.args[0], EnumSet) else repr(a.args) for a in apps]
                    ctx.instance(construct(g, f"working={working},state={s}"))
                    if got != [exp]:
                        ctx.violation(construct(g, "display-table"), g.loc(), f"{cls}.record_state(working={working}) with state {s} appends {got}, expected [{exp}]")
    ctx.end()


def r10_4(ctx):
    """An individually absent resource stays ABSENCE for the whole step only if the per-step absence update is the last
    writer of resource state before allocation (shared with C04 R4.4)."""
    from .C04 import r4_4
    r4_4(ctx)


ABSOLUTE_TIME_ATTRS = {"due_time", "init_datetime"}


def r10_7(ctx):
    """'absence steps are dead time: after removing them the result equals that of the run without absences': a project-wide
    absence step shifts every later step number by one, so a step may depend on the clock only through quantities that move
    with it (PERT values are `time + ...`, logs are indexed by the step).  An attribute that holds an *absolute* step number or
    date -- a task's due_time, the project's init_datetime -- does not move: code of the forward step that reads it decides
    differently after an absence step than the absence-free run does at the same amount of work done."""
    ctx.begin("R10.7", "the forward step reads no absolute-time attribute (due_time, init_datetime)", floor=20)
    f, loop = sim_loop(ctx)
    reg = list(ctx.eff.reachable_from_stmts(f, [loop], precise=True))
    for g in reg:
        ctx.instance(g.qualname)
        for ef in ctx.eff.of(g):
            if ef.kind == "read" and ef.attr in ABSOLUTE_TIME_ATTRS:
                ctx.violation(construct(g, f"reads-absolute-time:{ef.attr}"), ef.loc,
                              f"{g.qualname} runs inside every forward step and reads {ef.cls or '?'}.{ef.attr} (an absolute step number / date): "
                              f"every elapsed absence step changes its relation to the clock, so the run with absences removed differs from the run without them")
    ctx.end()


def r10_6(ctx):
    """'automatic tasks progress at such steps exactly when perform_auto_task_while_absence_time is set': decided on the *value* of
    the argument of this call -- with the argument False no absence-step path performs anything (whatever an earlier run, the
    constructor or a loaded file left on the project), with True every absence-step path performs the automatic tasks."""
    ctx.begin("R10.6", "absence step performs automatic tasks iff the flag argument of this simulate() call is set", floor=2)
    f, loop = sim_loop(ctx)
    name = "perform_auto_task_while_absence_time"
    ctx.require(name in f.params, f"simulate() has no parameter {name}")
    for flag in (False, True):
        paths = loop_paths(ctx, bind={name: Const(flag)}, keep_heap=(name,))
        n = 0
        for p in paths:
            if p["exit"] is not None or working_of(p) is not False:
                continue
            n += 1
            performed = any(c == "perform" for c, _ in p["phases"])
            ctx.instance(construct(f, f"flag={flag}:absence-path-{n}"), sample={"flag": flag, "performs": performed})
            if performed != flag:
                e = next((e for c, e in p["phases"] if c == "perform"), None)
                ctx.violation(construct(f, f"auto-task-flag={flag}"), e.loc if e is not None else f.loc(loop),
                              f"simulate({name}={flag}): an absence step {'performs automatic tasks' if performed else 'does not perform the automatic tasks'}"
                              + (" -- the decision reads something other than this call's argument (a value left on the project by an earlier run, the constructor or a loaded file)" if performed else ""))
        ctx.require(n >= 1, f"no absence-step path for {name}={flag}")
    ctx.end()


def run(ctx):
    r10_6(ctx)
    r10_7(ctx)
    r10_1(ctx)
    r10_2(ctx)
    r10_2b(ctx)
    r10_3(ctx)
    r10_4(ctx)
    from .C04 import r4_1
    r4_1(ctx)  # an individually absent resource is never newly allocated: allocation sites require state FREE
    # an absent resource that is still held by a working task must stay ABSENCE (no progress, no cost, ABSENCE in the log)
    from .C03 import r3_4
    r3_4(ctx)
    # third clause: deleting the project-wide absence steps (remove_absence_time_list) gives the run without absence -- the editors
    # must take exactly those steps out of every log and out of project.time
    from .C18 import check as absence_editors
    absence_editors(ctx)
