"""C19 -- Gantt data, state queries and dates report exactly what the logs contain."""
import ast
import itertools

from ..common import *
from ..errors import AnalysisError
from ..exprnorm import normalise
from ..interp import State, Frame

CLAIM = ("Every armed rule instance held: (R19.1) for the four get_time_list_for_gannt_chart encoders the loop body, evaluated "
         "over every (previous state, state, run-start known?) cell with symbolic indices, emits exactly when the state changes "
         "and a run start is known, into the list of the *previous* state, the tuple (start, index - start - 1 + margin); resets "
         "the run start to the current index on every change; updates the previous state every iteration; the prologue starts "
         "from a non-reported state with no run open; the trailing flush emits (start, last - start + margin) under the same list "
         "map; task == component and worker == facility cell by cell -- together these give 'exactly the maximal runs' by "
         "induction over the log; (R19.2) every chart row maps start to init + start*unit and finish to init + (start+length)*unit; "
         "(R19.3) the four state-query helpers keep an object iff every requested time is inside the log and shows the target "
         "state (decision table over small logs), and each public wrapper passes its own state; (R19.4) set_last_datetime "
         "computes last - unit*(time-1).")
EXPLANATION = ("Transducer tables of the encoder loop bodies by abstract interpretation with symbolic indices (polynomial tuples); "
               "AST normal forms of the chart-row expressions; decision tables of the extract helpers; polynomial normal form of "
               "set_last_datetime.")
ASSUMPTIONS = ["the state domain is the declared enum of each class (the thorough tier includes members the library never stores)"]
EXHAUSTIVE = "thorough"  # the deciding tables range over the complete finite domain
TECHNIQUE = "transducer/decision tables by abstract interpretation with polynomial normal forms + AST expression normalisation"

ENCODERS = [
    (TASK, TS, {"READY": "ready", "WORKING": "working"}, "NONE"),
    (COMPONENT, CS, {"READY": "ready", "WORKING": "working"}, "NONE"),
    (WORKER, WS, {"FREE": "ready", "WORKING": "working", "ABSENCE": "absence"}, None),
    (FACILITY, FS_, {"FREE": "ready", "WORKING": "working", "ABSENCE": "absence"}, None),
]


def encoder_parts(ctx, cls):
    f = ctx.repo.method(cls, "get_time_list_for_gannt_chart")
    body = f.body()
    loops = [s for s in body if isinstance(s, ast.For)]
    if len(loops) != 1:
        raise AnalysisError(f"{cls}.get_time_list_for_gannt_chart: expected one top-level loop over the state log")
    lp = loops[0]
    i = body.index(lp)
    return f, body[:i], lp, body[i + 1:]


_KIND_BY_FUNC = {}


def list_kind(name, func=None):
    """Kind of an interval list.  Inside an encoder it is the position of the local in the returned tuple
    (ready, working[, absence]) -- the documented return order -- so local names do not matter."""
    if func is not None:
        m = _KIND_BY_FUNC.get(id(func.node))
        if m is None:
            m = {}
            rets = [n for n in ast.walk(func.node) if isinstance(n, ast.Return) and isinstance(n.value, ast.Tuple)]
            if rets and all(isinstance(x, ast.Name) for x in rets[-1].value.elts):
                for i, x in enumerate(rets[-1].value.elts):
                    if i < 3:
                        m[x.id] = ("ready", "working", "absence")[i]
            _KIND_BY_FUNC[id(func.node)] = m
        if name in m:
            return m[name]
    for k in ("ready", "working", "absence"):
        if k in name:
            return k
    return name


def run_cell(ctx, f, stmts, env):
    I = mk_interp(ctx, integral={"F", "T", "L"})
    st = State()
    st.env.update(env)
    st.env["self"] = Obj("self", f.cls)
    st.bounds["F"] = (0, None)
    st.bounds["T"] = (0, None)
    st.bounds["L"] = (0, None)
    ft = ctx.types.ftypes(f)
    return I.exec_block(stmts, st, Frame(f, ft, ()))


def emissions(st, func=None):
    out = []
    for e in flatten(st.trace):
        if isinstance(e, Mut) and e.attr.startswith("$") and e.op == "append":
            out.append((list_kind(e.attr[1:], func), e.args[0] if e.args else None))
    return out


def r19_1(ctx):
    ctx.begin("R19.1", "encoder transducer tables: emit on change into the previous state's list, exact tuples, flush, prologue", floor=4)
    tables = {}
    for cls, enum, lmap, init_prev in ENCODERS:
        try:
            f, pre, lp, post = encoder_parts(ctx, cls)
        except AnalysisError as e:
            # the run-length encoding lives elsewhere (a shared helper): no cell table; R19.1b decides this encoder as a black box
            ctx.note(f"{cls} encoder is not one loop over the state log in the method itself ({e}): cell table skipped, see R19.1b")
            ctx.instance(construct(ctx.repo.method(cls, "get_time_list_for_gannt_chart"), "encoder:black-box-only"))
            continue
        con0 = construct(f, "encoder")
        members = list(ctx.repo.enums[enum])
        # (every member the enum declares: a log may hold members the simulator itself never writes -- a hand-made or imported log)
        # prologue
        outs = run_cell(ctx, f, pre, {"finish_margin": Poly.sym("m")})
        ctx.require(len(outs) == 1, f"{cls} encoder prologue forks")
        st0 = outs[0][0]
        names = {k: v for k, v in st0.env.items()}
        tgt = lp.target
        ctx.require(isinstance(tgt, ast.Tuple) and len(tgt.elts) == 2 and isinstance(lp.iter, ast.Call) and ast.unparse(lp.iter.func) == "enumerate",
                    f"{cls} encoder loop is not `for <index>, <state> in enumerate(<log>)`")
        ctx.require(ast.unparse(lp.iter.args[0]) == "self.state_record_list", f"{cls} encoder iterates `{ast.unparse(lp.iter.args[0])}`, not its own state log")
        tname, sname = tgt.elts[0].id, tgt.elts[1].id
        # identify the three state variables from the prologue: two ints initialised to -1, one previous-state holder
        ints = [k for k, v in names.items() if isinstance(v, Poly) and v.is_const() and v.const_value() == -1]
        prevs = [k for k, v in names.items() if (isinstance(v, EnumSet) and v.cls == enum) or (isinstance(v, Const) and v.v is None and k not in ("self",))]
        lists = [k for k, v in names.items() if isinstance(v, ListV) and not v.items]
        ctx.instance(con0 + ":prologue", sample={"ints": ints, "prev": prevs, "lists": lists})
        if len(ints) != 2 or len(prevs) != 1:
            # another way of keeping the run state: the per-cell table below does not apply; R19.1b decides this encoder as a black box
            ctx.note(f"{cls} encoder does not keep its run in two markers and a previous-state holder (ints={ints}, prev={prevs}): cell table skipped, see R19.1b")
            continue
        pv = names[prevs[0]]
        pv_name = pv.single() if isinstance(pv, EnumSet) else None
        if pv_name in lmap:
            ctx.violation(con0 + ":initial-previous-state", f.loc(), f"{cls} encoder starts with previous state {pv_name}, a reported state: a log that begins with {pv_name} loses its first run")
        # which of the two ints is the run start?  the one assigned `time` when it is -1 on a change
        table = {}
        prev_dom = members + (["<none>"] if init_prev is None else [])
        from_name = to_name = None
        for a, b in (ints, ints[::-1]):
            env = {"finish_margin": Poly.sym("m"), tname: Poly.sym("T"), sname: E(enum, members[0]), prevs[0]: (E(enum, members[1])),
                   a: Poly.const(-1), b: Poly.const(-1)}
            env = {**{k: v for k, v in names.items() if k not in env}, **env}  # other prologue locals (lookup tables ...) are in scope too
            env.update({k: ListV([], True, "list") for k in lists})
            o = run_cell(ctx, f, lp.body, env)
            if len(o) == 1 and o[0][0].env.get(a) == Poly.sym("T") and o[0][0].env.get(b) == Poly.const(-1):
                from_name, to_name = a, b
                break
        if from_name is None:
            ctx.violation(con0 + ":run-start", f.loc(lp), f"{cls} encoder: on the first state change with no open run, neither marker is set to the current index")
            continue
        for prev in prev_dom:
            for cur in members:
                for known in (False, True):
                    env = {"finish_margin": Poly.sym("m"), tname: Poly.sym("T"), sname: E(enum, cur),
                           prevs[0]: (Const(None) if prev == "<none>" else E(enum, prev)),
                           from_name: (Poly.sym("F") if known else Poly.const(-1)), to_name: Poly.const(-1)}
                    env = {**{k: v for k, v in names.items() if k not in env}, **env}  # other prologue locals (lookup tables ...) are in scope too
                    env.update({k: ListV([], True, "list") for k in lists})
                    outs = run_cell(ctx, f, lp.body, env)
                    cellkey = (prev, cur, known)
                    if len(outs) != 1 or outs[0][1] is not None:
                        ctx.violation(con0 + ":undetermined-cell", f.loc(lp), f"{cls} encoder: cell previous={prev}, state={cur}, run-open={known} is not determined ({len(outs)} paths)")
                        continue
                    st = outs[0][0]
                    em = emissions(st, f)
                    table[cellkey] = (tuple((k, repr(v)) for k, v in em), repr(st.env.get(from_name)), repr(st.env.get(to_name)), repr(st.env.get(prevs[0])))
                    changed = prev != cur
                    # (iv) previous state always updated
                    pvn = st.env.get(prevs[0])
                    if not (isinstance(pvn, EnumSet) and pvn.single() == cur):
                        ctx.violation(con0 + ":previous-not-updated", f.loc(lp), f"{cls} encoder: after an entry {cur} (previous {prev}) the previous-state holder is {pvn!r}")
                    # (iii) run markers
                    exp_from = Poly.sym("T") if changed else (Poly.sym("F") if known else Poly.const(-1))
                    if st.env.get(from_name) != exp_from or st.env.get(to_name) != Poly.const(-1):
                        ctx.violation(con0 + ":run-markers", f.loc(lp), f"{cls} encoder: previous={prev}, state={cur}, run-open={known}: run start becomes {st.env.get(from_name)!r} / end marker "
                                      f"{st.env.get(to_name)!r} (expected {exp_from!r} / -1)")
                    # (i)+(ii) emissions
                    want = []
                    if changed and known and prev in lmap:
                        want = [(lmap[prev], ListV([Poly.sym("F"), Poly.sym("T") - Poly.sym("F") - Poly.const(1) + Poly.sym("m")], True, "tuple"))]
                    got = [(k, v) for k, v in em]
                    ok = len(got) == len(want) and all(g[0] == w[0] and isinstance(g[1], ListV) and g[1].items == w[1].items for g, w in zip(got, want))
                    if not ok:
                        ctx.violation(con0 + f":emission:{prev}->{cur}", f.loc(lp),
                                      f"{cls} encoder: log entry {cur} after a run of {prev} (run start {'known' if known else 'unknown'}): emits {[(k, repr(v)) for k, v in got]}, "
                                      f"expected {[(k, repr(v)) for k, v in want]}: the maximal run of {prev} is {'lost or misreported' if want else 'not to be reported here'}")
        ctx.instance(con0 + ":cells", cells=len(table), sample={"class": cls, "cells": len(table)})
        ctx.rules[ctx._cur]["instances"] += max(0, len(table) - 1)
        # (v) trailing flush
        for prev in members:
            for known in (False, True):
                env = {"finish_margin": Poly.sym("m"), tname: Poly.sym("L"), prevs[0]: E(enum, prev), from_name: (Poly.sym("F") if known else Poly.const(-1)), to_name: Poly.const(-1)}
                env = {**{k: v for k, v in names.items() if k not in env}, **env}  # other prologue locals (lookup tables ...) are in scope too
                env.update({k: ListV([], True, "list") for k in lists})
                outs = run_cell(ctx, f, post, env)
                for st, ex in outs:
                    em = emissions(st, f)
                    want = []
                    if known and prev in lmap:
                        want = [(lmap[prev], [Poly.sym("F"), Poly.sym("L") - Poly.sym("F") + Poly.sym("m")])]
                    got = [(k, v.items if isinstance(v, ListV) else v) for k, v in em]
                    table[("flush", prev, known)] = tuple((k, repr(v)) for k, v in got)
                    if got != want:
                        ctx.violation(con0 + f":flush:{prev}", f.loc(), f"{cls} encoder: after the loop with the last run in state {prev} (start {'known' if known else 'unknown'}) "
                                      f"it emits {[(k, [repr(x) for x in v]) for k, v in got]}, expected {[(k, [repr(x) for x in v]) for k, v in want]}")
                    # return order: (ready, working[, absence])
                    r = ex[1] if ex and ex[0] == "return" else None
                    if not (isinstance(r, ListV) and len(r.items) == (3 if "absence" in lmap.values() else 2)):
                        ctx.violation(con0 + ":return-shape", f.loc(), f"{cls} encoder returns {r!r}")
        nested = {id(n) for d in ast.walk(f.node) if isinstance(d, (ast.FunctionDef, ast.Lambda)) and d is not f.node for n in ast.walk(d)}
        rets = [n for n in ast.walk(f.node) if isinstance(n, ast.Return) and id(n) not in nested]   # (the encoder's own returns, not a nested helper's)
        order = [list_kind(x.id, f) for x in rets[-1].value.elts] if rets and isinstance(rets[-1].value, ast.Tuple) and all(isinstance(x, ast.Name) for x in rets[-1].value.elts) else None
        if order != ["ready", "working", "absence"][: (3 if "absence" in lmap.values() else 2)]:
            ctx.violation(con0 + ":return-order", f.loc(), f"{cls} encoder returns its lists in order {order}")
        def strip_enum(x):
            return repr(x).replace(enum + ".", "") if not isinstance(x, str) else x.replace(enum + ".", "")
        tables[cls] = {tuple(str(x) for x in k): strip_enum(v) for k, v in table.items()}
    for a, b in ((TASK, COMPONENT), (WORKER, FACILITY)):
        if a in tables and b in tables:
            ctx.instance(f"sibling:{a}=={b}")
            common = set(tables[a]) & set(tables[b])  # cells over state names both enums declare
            ta = {k: v for k, v in tables[a].items() if k in common}
            tb = {k: v for k, v in tables[b].items() if k in common}
            if ta != tb:
                diff = [k for k in ta if ta.get(k) != tb.get(k)][:3]
                ctx.violation(f"sibling:{a}!={b}", ctx.repo.method(b, "get_time_list_for_gannt_chart").loc(), f"the Gantt encoders of {a} and {b} differ in cells {diff}")
    ctx.end()


def expected_intervals(log, lmap):
    """Maximal runs of each reported state: {kind: [(start, end)]} (end inclusive)."""
    out = {k: [] for k in lmap.values()}
    i = 0
    while i < len(log):
        j = i
        while j + 1 < len(log) and log[j + 1] == log[i]:
            j += 1
        if log[i] in lmap:
            out[lmap[log[i]]].append((i, j))
        i = j + 1
    return out


def r19_1b(ctx):
    """The encoders as black boxes: every state log up to a small length is pushed through the analyser's interpreter (the
    margin stays a symbol) and the returned interval lists must be exactly the maximal runs of each reported state.  This does
    not depend on how the encoder keeps its run state (markers, helper closures, tables)."""
    ctx.begin("R19.1b", "encoders on every log up to length 3 (5 in the thorough tier): intervals == maximal runs, in (ready, working[, absence]) order", floor=4)
    maxlen = 5 if ctx.thorough else 3
    m = Poly.sym("m")
    for cls, enum, lmap, init_prev in ENCODERS:
        f = ctx.repo.method(cls, "get_time_list_for_gannt_chart")
        members = [x for x in ctx.repo.enums[enum] if ctx.thorough or x not in ("WORKING_ADDITIONALLY", "REMOVED")]
        kinds = ["ready", "working", "absence"][: (3 if "absence" in lmap.values() else 2)]
        n = 0
        bad = None
        for L in range(0, maxlen + 1):
            for log in itertools.product(members, repeat=L):
                I = mk_interp(ctx, max_paths=200)
                outs = I.run_function(f, bind={"finish_margin": m}, heap={("self", "state_record_list"): ListV([E(enum, x) for x in log], True, "list")})
                n += 1
                exp = expected_intervals(log, lmap)
                for st, ex in outs:
                    r = ex[1] if ex is not None and ex[0] == "return" else None
                    if not (isinstance(r, ListV) and len(r.items) == len(kinds) and all(isinstance(x, ListV) for x in r.items)):
                        raise AnalysisError(f"R19.1b: result of {f.qualname} on log {list(log)} is not determined: {r!r}")
                    for kind, lst in zip(kinds, r.items):
                        got = []
                        for it in lst.items:
                            if not (isinstance(it, ListV) and len(it.items) == 2 and all(isinstance(x, Poly) for x in it.items)):
                                raise AnalysisError(f"R19.1b: interval {it!r} returned by {f.qualname} on log {list(log)} is not determined")
                            got.append((it.items[0], it.items[1]))
                        want = [(Poly.const(a), Poly.const(b - a) + m) for a, b in exp[kind]]
                        if got != want and bad is None:
                            bad = (list(log), kind, [(repr(a), repr(b)) for a, b in got], [(repr(a), repr(b)) for a, b in want])
        ctx.instance(construct(f, "bounded"), cells=n, sample={"logs": n, "max_length": maxlen})
        if bad:
            log, kind, got, want = bad
            ctx.violation(construct(f, f"runs:{kind}"), f.loc(), f"{cls} encoder on the log {log}: the {kind} list is {got}, the maximal runs are {want} (start, length with margin m)")
    ctx.end()


def r19_2(ctx):
    """Interpret each create_data_for_gantt_plotly on one object whose interval lists hold one symbolic interval per kind
    (S_k, N_k): the rows that come back must be init + S_k*unit .. init + (S_k+N_k)*unit, labelled with the kind's state,
    and a kind switched off by its view_* flag must not appear.  How the rows are assembled does not matter."""
    ctx.begin("R19.2", "chart rows: Start = init + start*unit, Finish = init + (start+length)*unit, label = the list's state, view flags honoured", floor=8)
    from ..interp import DictV
    LABEL = {"ready": "READY", "working": "WORKING", "absence": "ABSENCE"}
    I_, U_ = Poly.sym("I"), Poly.sym("U")
    for cls, coll, ecls, kinds in ((TASK, None, None, ("ready", "working")), (COMPONENT, None, None, ("ready", "working")),
                                   (TEAM, "self.worker_list", WORKER, ("ready", "working", "absence")),
                                   (WORKPLACE, "self.facility_list", FACILITY, ("ready", "working", "absence"))):
        f = ctx.repo.method(cls, "create_data_for_gantt_plotly")
        lists = ListV([ListV([ListV([Poly.sym("S_" + k), Poly.sym("N_" + k)], True, "tuple")], True, "list") for k in kinds], True, "tuple")

        def hook(I, call, st, fr):
            if isinstance(call.func, ast.Attribute) and call.func.attr == "get_time_list_for_gannt_chart":
                return lists
            if isinstance(call.func, ast.Attribute) and call.func.attr == "strftime":
                return I.eval(call.func.value, st, fr)
            return None
        flags = [p for p in f.params if p.startswith("view_")]
        for combo in itertools.product((True, False), repeat=len(flags)):
            bind = {"init_datetime": I_, "unit_timedelta": U_, "finish_margin": Poly.sym("m")}
            bind.update({p: Const(v) for p, v in zip(flags, combo)})
            I = mk_interp(ctx, call_hook=hook, collections=({coll: [Obj("E", ecls)]} if coll else {}))
            outs = I.run_function(f, bind=bind)
            for st, ex in outs:
                if ex is not None and ex[0] == "raise":
                    continue
                r = ex[1] if ex is not None and ex[0] == "return" else None
                con = construct(f, "rows:" + ",".join(f"{p}={v}" for p, v in zip(flags, combo)))
                if not (isinstance(r, ListV) and all(isinstance(x, DictV) for x in r.items)):
                    raise AnalysisError(f"R19.2: rows returned by {f.qualname} are not determined: {r!r}")
                rows = []
                for d in r.items:
                    ent = {k.v: v for k, v, _r in d.entries if isinstance(k, Const)}
                    rows.append(ent)
                ctx.instance(con, cells=len(rows), sample={"rows": len(rows)})
                for k in kinds:
                    Sk, Nk = Poly.sym("S_" + k), Poly.sym("N_" + k)
                    mine = [e for e in rows if isinstance(e.get("Start"), Poly) and ("S_" + k) in repr(e["Start"]) or isinstance(e.get("Finish"), Poly) and ("S_" + k) in repr(e["Finish"])]
                    flag = next((p for p in flags if p == "view_" + k), None)
                    shown = True if flag is None else dict(zip(flags, combo))[flag]
                    if not shown:
                        if mine:
                            ctx.violation(construct(f, f"row-flag:{k}"), f.loc(), f"{cls} chart shows the {k} intervals although {flag}=False")
                        continue
                    if len(mine) != 1:
                        ctx.violation(construct(f, f"row-count:{k}"), f.loc(), f"{cls} chart builds {len(mine)} rows from one {k} interval (expected exactly one)")
                        continue
                    e = mine[0]
                    if e.get("Start") != I_ + Sk * U_:
                        ctx.violation(construct(f, "row-start"), f.loc(), f"{cls} chart row ({k}): Start is `{e.get('Start')!r}` (expected init + start*unit)")
                    if e.get("Finish") != I_ + (Sk + Nk) * U_:
                        ctx.violation(construct(f, "row-finish"), f.loc(), f"{cls} chart row ({k}): Finish is `{e.get('Finish')!r}` (expected init + (start+length)*unit)")
                    lbl = e.get("State")
                    if isinstance(lbl, Const) and lbl.v != LABEL[k]:
                        ctx.violation(construct(f, "row-label"), f.loc(), f"{cls} chart rows built from the {k} intervals are labelled {lbl.v!r}")
                    elif not isinstance(lbl, Const):
                        raise AnalysisError(f"R19.2: State label of a {k} row in {f.qualname} is not determined: {lbl!r}")
                extra = [e for e in rows if not any(("S_" + k) in repr(e.get("Start")) + repr(e.get("Finish")) for k in kinds)]
                if extra:
                    ctx.violation(construct(f, "row-foreign"), f.loc(), f"{cls} chart has a row that is not built from one of the interval lists: Start `{extra[0].get('Start')!r}`")
    ctx.end()


QUERIES = [
    (WORKFLOW, "task_list", TASK, TS, {"none": "NONE", "ready": "READY", "working": "WORKING", "finished": "FINISHED"}, "task"),
    (PRODUCT, "component_list", COMPONENT, CS, {"none": "NONE", "ready": "READY", "working": "WORKING", "finished": "FINISHED"}, "component"),
    (TEAM, "worker_list", WORKER, WS, {"free": "FREE", "working": "WORKING"}, "worker"),
    (WORKPLACE, "facility_list", FACILITY, FS_, {"free": "FREE", "working": "WORKING"}, "facility"),
]


def r19_3(ctx):
    ctx.begin("R19.3", "extract_*_list: object kept iff every requested time is inside its log and shows the target state", floor=8)
    for cls, coll, ecls, enum, wrappers, noun in QUERIES:
        members = list(ctx.repo.enums[enum])[:2]
        times = [[], [0], [1], [0, 1], [2], [1, 2]]
        for wname, member in wrappers.items():
            g = ctx.repo.method(cls, f"extract_{wname}_{noun}_list")
            other = next(m for m in ctx.repo.enums[enum] if m != member)
            ncell = 0
            for log in itertools.product((member, other), repeat=2):
                for tl in times:
                    O = Obj("O", ecls)
                    heap = {("O", "state_record_list"): ListV([E(enum, s) for s in log], True, "list")}
                    I = mk_interp(ctx, inline=lambda call, callee, depth: callee.cls == cls, collections={f"self.{coll}": [O]}, max_depth=2)
                    outs = I.run_function(g, bind={"target_time_list": ListV([Poly.const(t) for t in tl], True, "list")}, heap=heap)
                    exp = all(t < 2 and log[t] == member for t in tl)
                    for st, ex in outs:
                        ncell += 1
                        r = ex[1] if ex and ex[0] == "return" else None
                        got = isinstance(r, ListV) and any(isinstance(x, Obj) and x.name == "O" for x in r.items)
                        if not isinstance(r, ListV):
                            raise AnalysisError(f"R19.3: {g.qualname}: result not determined for log {log}, times {tl}: {r!r}")
                        elif got != exp:
                            ctx.violation(construct(g, "membership"), g.loc(), f"{g.qualname}: log {list(log)}, requested times {tl}: object is {'kept' if got else 'dropped'} (expected {'kept' if exp else 'dropped'})")
            # two distinct objects that carry the same ID string (a copy, an ID given twice) and both qualify: both are returned
            O1, O2 = Obj("O1", ecls), Obj("O2", ecls)
            heap = {}
            for o in (O1, O2):
                heap[(o.name, "state_record_list")] = ListV([E(enum, member), E(enum, member)], True, "list")
                heap[(o.name, "ID")] = Const("same-id")
                heap[(o.name, "name")] = Const("same-name")
            I = mk_interp(ctx, inline=lambda call, callee, depth: callee.cls == cls, collections={f"self.{coll}": [O1, O2]}, max_depth=2)
            for st, ex in I.run_function(g, bind={"target_time_list": ListV([Poly.const(0), Poly.const(1)], True, "list")}, heap=heap):
                ncell += 1
                r = ex[1] if ex and ex[0] == "return" else None
                if not isinstance(r, ListV):
                    raise AnalysisError(f"R19.3: {g.qualname}: result for two qualifying objects with equal IDs is not determined ({r!r})")
                kept = sorted({x.name for x in r.items if isinstance(x, Obj)})
                if kept != ["O1", "O2"]:
                    ctx.violation(construct(g, "equal-ids"), g.loc(), f"{g.qualname}: two distinct objects with the same ID string both show {member} at the requested times, "
                                  f"but the result holds {kept or 'neither'}: objects are identified by ID somewhere on the way (a dict / set keyed by ID), so one of them is lost")
            ctx.instance(construct(g, "table"), cells=ncell)
    ctx.end()


def r19_4(ctx):
    ctx.begin("R19.4", "set_last_datetime: init = last - unit*(time - 1)", floor=1)
    g = ctx.repo.method(PROJECT, "set_last_datetime")
    for given_unit, set_init in ((True, True), (False, True), (True, False), (False, False)):
        I = mk_interp(ctx)
        bind = {"last_datetime": Poly.sym("LAST"), "unit_timedelta": Poly.sym("U") if given_unit else Const(None), "set_init_datetime": Const(set_init)}
        outs = I.run_function(g, bind=bind, heap={("self", "time"): Poly.sym("TIME"), ("self", "unit_timedelta"): Poly.sym("SU"), ("self", "init_datetime"): Poly.sym("OLD")})
        u = Poly.sym("U") if given_unit else Poly.sym("SU")
        exp = Poly.sym("LAST") - u * (Poly.sym("TIME") - Poly.const(1))
        for st, ex in outs:
            r = ex[1] if ex and ex[0] == "return" else None
            stored = st.heap.get(("self", "init_datetime"))
            if not set_init:
                stored = exp if stored == Poly.sym("OLD") else stored
            ctx.instance(construct(g, f"unit-given={given_unit},set_init={set_init}"), sample={"returns": repr(r)})
            if r != exp or stored != exp:
                ctx.violation(construct(g, "formula"), g.loc(), f"set_last_datetime returns `{r!r}` / stores `{stored!r}` (expected `{exp!r}`: the last simulated step, index time-1, must fall on the given date)")
    ctx.end()


def r19_5(ctx):
    """State values in logs may be equal to an enum member without being that object (plain ints after a JSON load, members of
    the sibling enum written by append_project_log_from_simple_json): reporting code must compare them with == / != only."""
    ctx.begin("R19.5", "reporting functions compare state values by equality, never by identity", floor=8)
    from ..guards import property_roots, region
    roots, _ = property_roots(ctx, "C19")
    for g in region(ctx, roots):
        ctx.instance(g.qualname)
        for n in ast.walk(g.node):
            if isinstance(n, ast.Compare):
                for op, l, r in zip(n.ops, [n.left] + n.comparators[:-1], n.comparators):
                    if isinstance(op, (ast.Is, ast.IsNot)):
                        def single(x):
                            return isinstance(x, ast.Constant) and x.value in (None, True, False)
                        if not single(l) and not single(r):
                            ctx.violation(construct(g, "identity-comparison"), g.loc(n),
                                          f"`{ast.unparse(n)[:70]}` compares a state value by identity: a log entry that is equal to the member but not the same object "
                                          f"(a reloaded or appended log) is not recognised, so its run is dropped from the chart")
    ctx.end()


def run(ctx):
    r19_1(ctx)
    r19_2(ctx)
    r19_3(ctx)
    r19_4(ctx)
    r19_1b(ctx)
    r19_5(ctx)
    # set_last_datetime and the chart rows are computed from project.time and the logs: the absence editors must keep them equal
    from .C18 import check as absence_editors
    absence_editors(ctx)
