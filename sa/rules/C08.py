"""C08 -- every log has one entry per simulated step, equal to that step's live state."""
import ast

from ..common import *
from ..errors import AnalysisError
from .. import spec
from ..simstruct import loop_paths, working_of
from ..fanout import FanOut, log_append_matcher, relevant_callees

CLAIM = ("Every armed rule instance held (apart from listed known findings): (R8.1) on every path through one simulate() "
         "step each of the 17 per-step logs receives exactly one append per object through a complete traversal of the "
         "containment tree, and none on the two returning paths; (R8.2) each record append stores a snapshot (scalar, fresh "
         "list or display constant) derived only from its paired live attribute, never the live list itself; (R8.3) the "
         "record phase writes nothing but logs; (R8.4) initialize(log_info) resets and reverse_log_information reverses "
         "every one of the 17 logs exactly once per object; (R8.5) project.time is written only by initialize, the per-step "
         "increment (last action of a step), the absence editors and the JSON loaders, and the increment is one per "
         "recorded step. 'Entry k equals the live value' follows by induction and is not observed.")
EXPLANATION = ("Fan-out summaries (per-object append counts over the containment tree) of the interpreted loop body with all "
               "log-appending callees inlined; def-use of every appended value inside its record method; effect closure of "
               "the record phase; the same fan-out device on initialize / reverse_log_information; who-may-write of time.")
ASSUMPTIONS = ["simulate(unit_time=1) for the time==steps clause (unit_time != 1 is a listed known finding)",
               "no user code mutates logs between calls"]
TECHNIQUE = "fan-out counting over the containment tree on interpreted paths + def-use snapshot check + who-may-write"


def log_rel(ctx):
    return relevant_callees(ctx, lambda e: e.kind == "mut" and e.op == "append" and any(e.attr == a for (c, a) in spec.LOGS))


def step_paths_inlined(ctx):
    rel = log_rel(ctx)
    return loop_paths(ctx, inline=lambda call, callee, depth: id(callee.node) in rel, max_depth=6, key="logs-inlined")


def r8_1(ctx):
    ctx.begin("R8.1", "exactly one append per log per object per step (17 logs), none on returning paths", floor=3)
    f, loop = sim_loop(ctx)
    nstep = 0
    for i, p in enumerate(step_paths_inlined(ctx)):
        fo = FanOut(ctx, log_append_matcher(ctx))
        c = fo.counts(p["trace"])
        w = working_of(p)
        ctx.instance(construct(f, f"loop-path-{i}"), cells=len(spec.LOGS), sample={"exit": p["exit"][0] if p["exit"] else "next-iteration", "working": w,
                                                                                  "counts": {f"{k[0]}.{k[1]}": sorted(v) for k, v in sorted(c.items())}})
        if p["exit"] is not None:
            bad = {k: v for k, v in c.items() if v != {0}}
            if bad:
                k = sorted(bad)[0]
                ctx.violation(construct(f, f"partial-step:{k[0]}.{k[1]}"), f.loc(loop), f"log {k[0]}.{k[1]} may be appended ({sorted(bad[k])} times) on a path that returns before the step completes")
            continue
        nstep += 1
        for key in spec.LOGS:
            got = c.get(key, {0})
            if got != {1}:
                what = "is not appended" if got == {0} else (f"is appended {sorted(x for x in got if x >= 0)} times per object" if -1 not in got else
                                                               "is appended through an incomplete/filtered traversal or on a foreign receiver")
                ctx.violation(construct(f, f"append-count:{key[0]}.{key[1]}"), f.loc(loop),
                              f"on the {'working' if w else 'absence'} step path log {key[0]}.{key[1]} {what} (expected exactly once per object)",
                              {"counts": sorted(got), "working": w})
        for ev in fo.irregular:
            ctx.violation(construct(ev.func, f"irregular-append:{ev.attr}"), ev.loc, f"log append on a receiver that is not the traversed element: {ev!r}")
    ctx.require(nstep >= 2, "expected a working and an absence step path")
    ctx.end()


def _enclosing_ifs(func, node):
    pm = parent_map(func.node)
    g = pm.get(id(node))
    while g is not None and g is not func.node:
        if isinstance(g, ast.If):
            yield g
        g = pm.get(id(g))


def feeding_reads(func, expr_nodes, row_attr=None, repo=None, _depth=0):
    """Attribute reads on `self` that can flow into the given expressions inside `func` (flow-insensitive def-use
    through local names, including the tests of `if` statements that guard assignments to those names).  A loop variable
    over a literal table is defined by the table's elements; with `row_attr`, only by the rows that mention `self.<row_attr>`
    (the row of the log being written)."""
    names_done, reads, todo = set(), set(), list(expr_nodes)
    pm = parent_map(func.node)

    def table_of(it):
        """the literal a loop iterates over: written in place, or a local bound once to one"""
        if isinstance(it, ast.Name):
            defs = [a.value for a in ast.walk(func.node) if isinstance(a, ast.Assign) and any(isinstance(t, ast.Name) and t.id == it.id for t in a.targets)]
            if len(defs) == 1:
                it = defs[0]
        return it if isinstance(it, (ast.Tuple, ast.List)) else None
    while todo:
        e = todo.pop()
        for n in ast.walk(e):
            if isinstance(n, ast.Attribute) and isinstance(n.value, ast.Name) and n.value.id == "self":
                reads.add(n.attr)
            if isinstance(n, ast.Call) and isinstance(n.func, ast.Attribute) and isinstance(n.func.value, ast.Name) and n.func.value.id == "self" and repo is not None \
                    and func.cls and _depth < 3:
                # the value comes out of a private helper of the same object: what feeds the helper's return values feeds this one
                m = repo.lookup_method(func.cls, n.func.attr)
                if m is not None and n.func.attr.startswith("_") and not n.func.attr.endswith("__"):
                    nested = {id(x) for d in ast.walk(m.node) if isinstance(d, (ast.FunctionDef, ast.Lambda)) and d is not m.node for x in ast.walk(d)}
                    rets = [r.value for r in ast.walk(m.node) if isinstance(r, ast.Return) and r.value is not None and id(r) not in nested]
                    conds = [g.test for r in ast.walk(m.node) if isinstance(r, ast.Return) and id(r) not in nested for g in _enclosing_ifs(m, r)]
                    reads |= feeding_reads(m, rets + conds, repo=repo, _depth=_depth + 1)
            if isinstance(n, ast.Name) and n.id not in names_done and n.id != "self":
                names_done.add(n.id)
                for lp in ast.walk(func.node):
                    if isinstance(lp, (ast.For, ast.comprehension)) and table_of(lp.iter) is not None \
                            and any(isinstance(x, ast.Name) and x.id == n.id for x in ast.walk(lp.target)):
                        rows = list(table_of(lp.iter).elts)
                        if row_attr is not None:
                            sel = [r for r in rows if any(isinstance(x, ast.Attribute) and x.attr == row_attr for x in ast.walk(r))]
                            rows = sel or rows
                        for r in rows:
                            if isinstance(lp.target, ast.Name):
                                todo.append(r)
                            elif isinstance(lp.target, (ast.Tuple, ast.List)) and isinstance(r, (ast.Tuple, ast.List)) and len(r.elts) == len(lp.target.elts):
                                for tg, el in zip(lp.target.elts, r.elts):
                                    if isinstance(tg, ast.Name) and tg.id == n.id:
                                        todo.append(el)
                            else:
                                todo.append(r)
                for a in ast.walk(func.node):
                    if isinstance(a, ast.Assign) and any(isinstance(t, ast.Name) and t.id == n.id for t in a.targets):
                        todo.append(a.value)
                        g = pm.get(id(a))
                        while g is not None and g is not func.node:
                            if isinstance(g, ast.If):
                                todo.append(g.test)
                            g = pm.get(id(g))
    return reads


def r8_2(ctx):
    ctx.begin("R8.2", "record appends store a snapshot derived only from the paired live attribute; never an alias of a live list", floor=10)
    seen = set()
    for p in step_paths_inlined(ctx):
        if p["exit"] is not None:
            continue
        for ev in events(p["trace"], "mut"):
            if ev.op != "append":
                continue
            key = next(((c, a) for (c, a) in spec.LOGS if a == ev.attr and ev.cls and is_subclass(ctx, ev.cls, c)), None)
            if key is None or spec.LOGS[key] is None or (id(ev.node), key) in seen:
                continue
            seen.add((id(ev.node), key))
            live = spec.LOGS[key]
            func = ev.func
            argn = ev.argnodes[0] if ev.argnodes else None
            ctx.require(argn is not None, f"append without argument at {ev.loc}")
            con = construct(func, f"snapshot:{key[1]}")
            reads = feeding_reads(func, [argn], row_attr=ev.attr, repo=ctx.repo)
            own = {r for r in reads if ctx.types.field_type(ev.cls, r) is not None}
            ctx.instance(con, sample={"log": f"{key[0]}.{key[1]}", "live": live, "reads": sorted(own), "value": ast.unparse(argn)[:80]})
            # only the paired attribute (and the display flag handled by conds on self.<live>) may feed the value
            extra = own - {live}
            # conditions of enclosing ifs (display rule) may read the paired attribute only
            pm = parent_map(func.node)
            g = pm.get(id(ev.node))
            cond_reads = set()
            while g is not None and g is not func.node:
                if isinstance(g, ast.If):
                    cond_reads |= feeding_reads(func, [g.test], row_attr=ev.attr, repo=ctx.repo)
                g = pm.get(id(g))
            extra |= {r for r in cond_reads if ctx.types.field_type(ev.cls, r) is not None} - {live}
            if extra:
                ctx.violation(con, ev.loc, f"log {key[0]}.{key[1]} is fed from attribute(s) {sorted(extra)} instead of only `{live}`")
            const_under_flag = ctx.repo.enum_of_member_expr(argn) is not None
            if const_under_flag:
                # display constant (absence rule): legal only under a test of the method's own boolean parameter;
                # which constant for which state is decided by the display tables R1.3 / R10.3 / R14-display
                g2 = pm.get(id(ev.node))
                flag_ok = False
                while g2 is not None and g2 is not func.node:
                    if isinstance(g2, ast.If):
                        names = {n.id for n in ast.walk(g2.test) if isinstance(n, ast.Name)}
                        if names & set(func.params) - {"self"}:
                            flag_ok = True
                    g2 = pm.get(id(g2))
                if not flag_ok:
                    ctx.violation(con, ev.loc, f"log {key[0]}.{key[1]} gets the constant `{ast.unparse(argn)}` unconditionally instead of a snapshot of `{live}`")
            elif live not in own and live not in cond_reads:
                ctx.violation(con, ev.loc, f"log {key[0]}.{key[1]} entry does not depend on its live attribute `{live}`: `{ast.unparse(argn)[:80]}`")
            # alias check: the argument must not be the live container object itself
            t = ctx.types.field_type(ev.cls, live)
            if t and t[0] in ("list", "set", "dict"):
                def is_alias(n):
                    return isinstance(n, ast.Attribute) and isinstance(n.value, ast.Name) and n.value.id == "self" and n.attr == live
                srcs = [argn]
                if isinstance(argn, ast.Name):
                    srcs = [a.value for a in ast.walk(func.node) if isinstance(a, ast.Assign) and any(isinstance(x, ast.Name) and x.id == argn.id for x in a.targets)]
                if any(is_alias(sn) for sn in srcs):
                    ctx.violation(construct(func, f"alias:{key[1]}"), ev.loc,
                                  f"log {key[0]}.{key[1]} stores the live list `self.{live}` itself (an alias): later changes rewrite history; a copy is required")
    ctx.end()


def r8_3(ctx):
    ctx.begin("R8.3", "the record phase writes nothing but per-step logs", floor=3)
    f, loop = sim_loop(ctx)
    done = set()
    for p in loop_paths(ctx, key="plain"):
        for c, e in p["phases"]:
            if not c.startswith("record") or not isinstance(e, Call):
                continue
            for q in e.callees:
                if q in done:
                    continue
                done.add(q)
                cls, _, name = q.partition(".")
                g0 = ctx.repo.lookup_method(cls, name)
                n = 0
                for g in ctx.eff.reachable([g0], precise=not ctx.thorough):
                    for ef in ctx.eff.of(g):
                        if ef.kind in ("store", "mut", "del"):
                            n += 1
                            islog = ef.kind == "mut" and ef.op == "append" and any(ef.attr == a for (c2, a) in spec.LOGS)
                            if not islog:
                                ctx.violation(construct(g, f"record-phase-writes:{ef.attr}"), ef.loc,
                                              f"record phase ({q}) writes {ef.cls or '?'}.{ef.attr} ({ef.kind} {ef.op or ''}): live state must not change while it is recorded")
                ctx.instance(q, cells=n)
    ctx.end()


def tree_method_run(ctx, name, bind):
    """Interpret BaseProject.<name> with every same-named method down the tree inlined."""
    f = ctx.repo.method(PROJECT, name)
    I = mk_interp(ctx, inline=lambda call, callee, depth: callee.name == name, max_depth=6)
    return f, I.run_function(f, bind=bind)


def r8_4(ctx):
    ctx.begin("R8.4", "initialize(log_info) resets and reverse_log_information reverses each of the 17 logs once per object", floor=2)

    def reset_match(ev):
        if isinstance(ev, Store) and ev.cls:
            for (c, a) in spec.LOGS:
                if ev.attr == a and is_subclass(ctx, ev.cls, c) and isinstance(ev.value, ListV) and ev.value.fresh and not ev.value.items:
                    return (c, a)
        return None

    f, outs = tree_method_run(ctx, "initialize", {"state_info": Const(False), "log_info": Const(True)})
    for st, ex in outs:
        fo = FanOut(ctx, reset_match)
        c = fo.counts(st.trace)
        ctx.instance(construct(f, "log-reset"), cells=len(spec.LOGS), sample={"counts": {f"{k[0]}.{k[1]}": sorted(v) for k, v in sorted(c.items())}})
        for key in spec.LOGS:
            if c.get(key, {0}) != {1}:
                ctx.violation(construct(f, f"log-reset:{key[0]}.{key[1]}"), f.loc(),
                              f"initialize(log_info=True) resets log {key[0]}.{key[1]} {sorted(c.get(key, {0}))} time(s) per object (expected exactly once, to a fresh empty list)")
        tv = st.heap.get(("self", "time"))
        if not (isinstance(tv, Poly) and tv.is_const() and tv.const_value() == 0):
            ctx.violation(construct(f, "time-reset"), f.loc(), f"initialize(log_info=True) leaves project.time = {tv!r} (expected 0)")

    def rev_match(ev):
        if isinstance(ev, Store) and ev.cls:
            for (c, a) in spec.LOGS:
                if ev.attr == a and is_subclass(ctx, ev.cls, c):
                    # semantic form first: the stored value is the reversed slice of the same attribute of the same object
                    # (possibly through a local), as the interpreter names it
                    if isinstance(ev.value, Unk) and isinstance(ev.recv, Obj) and ev.value.tag == f"{ev.recv.name}.{a}[::-1]":
                        return (c, a)
                    v = ev.node.value if isinstance(ev.node, ast.Assign) else None
                    if isinstance(v, ast.Subscript) and isinstance(v.slice, ast.Slice) and v.slice.lower is None and v.slice.upper is None \
                            and isinstance(v.slice.step, ast.UnaryOp) and isinstance(v.slice.step.op, ast.USub) \
                            and isinstance(v.slice.step.operand, ast.Constant) and v.slice.step.operand.value == 1 \
                            and ast.unparse(v.value) == ast.unparse(ev.node.targets[0]):
                        return (c, a)
                    if isinstance(v, ast.Call) and ast.unparse(v.func) == "list" and v.args and isinstance(v.args[0], ast.Call) \
                            and ast.unparse(v.args[0].func) == "reversed" and ast.unparse(v.args[0].args[0]) == ast.unparse(ev.node.targets[0]):
                        return (c, a)
                    return ("bad", f"{c}.{a}")
        if isinstance(ev, Mut) and ev.op == "reverse" and ev.cls:
            for (c, a) in spec.LOGS:
                if ev.attr == a and is_subclass(ctx, ev.cls, c):
                    return (c, a)
        return None

    f, outs = tree_method_run(ctx, "reverse_log_information", {})
    for st, ex in outs:
        fo = FanOut(ctx, rev_match)
        c = fo.counts(st.trace)
        ctx.instance(construct(f, "log-reverse"), cells=len(spec.LOGS), sample={"counts": {f"{k[0]}.{k[1]}": sorted(v) for k, v in sorted(c.items()) if k[0] != 'bad'}})
        for key in spec.LOGS:
            if c.get(key, {0}) != {1}:
                ctx.violation(construct(f, f"log-reverse:{key[0]}.{key[1]}"), f.loc(),
                              f"reverse_log_information reverses log {key[0]}.{key[1]} {sorted(c.get(key, {0}))} time(s) per object (expected exactly once)")
        for k in c:
            if k[0] == "bad":
                ctx.violation(construct(f, f"log-reverse-shape:{k[1]}"), f.loc(), f"reverse_log_information assigns log {k[1]} something other than its own reversal")
    ctx.end()


def r8_5(ctx):
    ctx.begin("R8.5", "writers of project.time: initialize, the per-step increment (by one step), absence editors, JSON loaders", floor=4)
    allowed = {"__init__", "initialize", "simulate", "remove_absence_time_list", "insert_absence_time_list", "read_simple_json",
               "append_project_log_from_simple_json"}
    # a private helper of the project that only the allowed writers call is a piece of them (a method split into helpers)
    from ..common import is_private_helper
    callers = {}
    for fn in ctx.repo.all_funcs():
        for cs in ctx.eff.calls.get(id(fn.node), ()):
            for c in cs.callees:
                callers.setdefault(c.qualname, set()).add(fn.qualname)
    ok = {f"{PROJECT}.{n}" for n in allowed}
    changed = True
    while changed:
        changed = False
        for fn in ctx.repo.all_funcs():
            if fn.cls == PROJECT and is_private_helper(fn) and fn.qualname not in ok and callers.get(fn.qualname) and callers[fn.qualname] <= ok:
                ok.add(fn.qualname)
                changed = True
    for fn in ctx.repo.all_funcs():
        for ef in ctx.eff.of(fn):
            if ef.kind in ("store", "del") and ef.attr == "time" and (ef.cls == PROJECT or (ef.cls is None and fn.cls == PROJECT)):
                ctx.instance(construct(fn, "time-writer"), sample={"loc": ef.loc, "stmt": ast.unparse(ef.node)[:80]})
                if fn.cls != PROJECT or fn.qualname not in ok:
                    ctx.violation(construct(fn, "time-writer"), ef.loc, f"unexpected writer of project.time: `{ast.unparse(ef.node)[:80]}`")
    f, loop = sim_loop(ctx)
    for i, p in enumerate(loop_paths(ctx, key="plain")):
        if p["exit"] is not None:
            continue
        final = p["state"].heap.get(("self", "time"))
        d = final - Poly.sym("self.time") if isinstance(final, Poly) else None
        ctx.instance(construct(f, f"time-increment-path-{i}"), sample={"increment": repr(d)})
        if d is None or not d.is_const() or d.const_value() != 1:
            ctx.violation(construct(f, "time-increment-not-one"), f.loc(loop),
                          f"a recorded step advances project.time by `{d!r}`, not by 1: time equals the number of log entries only for unit_time=1 "
                          f"(e.g. simulate(unit_time=2) leaves time == 2*len(log))")
    ctx.end()


def r8_6(ctx):
    """'alignment is preserved by resuming': shared with C15 -- a resumed run must not reset any log or live state."""
    from .C15 import r15_1, r15_2
    r15_1(ctx)
    r15_2(ctx)


def run(ctx):
    r8_1(ctx)
    r8_2(ctx)
    r8_3(ctx)
    r8_4(ctx)
    r8_5(ctx)
    r8_6(ctx)
    from ..initflags import group_rule, separation_rule
    group_rule(ctx, "R8.7", "logs", "some logs restart from empty while others continue, so the logs no longer have one entry per step")
    separation_rule(ctx, "R8.8")
    # "preserved by ... backward simulation": no helper task (with logs of its own) may stay behind
    from .C17 import r17_3
    r17_3(ctx)
    # "preserved by ... resuming": a run resumed from a saved file continues the logs the reader rebuilt -- each object's logs must come
    # from its own record (two objects handed the same saved list share one list object, which then gets two entries per step)
    from .C16 import r16_8
    from ..jsontab import JsonTables
    r16_8(ctx, JsonTables(ctx), only_keys={a for (_c, a) in spec.LOGS})
