"""C09 -- results are reproducible, independent of object identity; no hidden state."""
import ast

from ..common import *
from ..errors import AnalysisError
from .. import spec
from ..interp import Read

CLAIM = ("Every armed rule instance held (apart from listed known findings): (R9.1) every loop over an unordered collection "
         "(set, or list built from a set) in simulation-reachable code, in the PERT passes and in backward_simulate has an "
         "order-insensitive body by one of the accepted arguments -- element-local effects; constant writes whose other-element "
         "reads are comparisons against constants disjoint from written and source values; removal / set-accumulation idioms; "
         "(R9.2) no id()/hash()/identity comparison of non-singletons, clocks, uuids or random sources outside the three "
         "documented stochastic helpers; (R9.3) no module/class-level mutable state is written and no mutable default "
         "argument escapes into an attribute that is mutated in place; (R9.4) everything a simulation step writes is reset by "
         "initialize(True, True) through a complete traversal or re-assigned by simulate() itself. Bit-for-bit equality of two "
         "runs is not observed.")
EXPLANATION = ("Abstract interpretation with read/write logging of every function containing an unordered iteration, and a "
               "classifier over the loop body's effect sets; AST lints for identity leaks and escaping mutable defaults; "
               "write-set vs reset-set comparison.")
ASSUMPTIONS = ["standard deviations 0 (the stochastic helpers then do not influence results)",
               "sorted() over an unordered collection is treated as ordered (ties would keep the arbitrary order; no such use today)"]
TECHNIQUE = "effect-set classifier over interpreted loop bodies (order-insensitivity) + AST lints + write-set/reset-set comparison"

STOCHASTIC_OK = {"BaseWorker.get_work_amount_skill_progress", "BaseFacility.get_work_amount_skill_progress",
                 "BaseWorker.get_quality_skill_point", "BaseComponent.update_error_value"}


def stochastic_ok(ctx):
    """The documented stochastic helpers and the private helpers they are split into: a function all of whose (resolved,
    in-package) callers are stochastic helpers themselves."""
    ok = set(STOCHASTIC_OK)
    callers = {}
    for g in ctx.repo.all_funcs():
        for cs in ctx.eff.calls_of(g):
            if cs.resolved:
                for c in cs.callees:
                    callers.setdefault(c.qualname, set()).add(g.qualname)
    changed = True
    while changed:
        changed = False
        for q, cl in callers.items():
            name = q.split(".")[-1]
            if q not in ok and cl and cl <= ok and name.startswith("_") and not name.endswith("__"):
                ok.add(q)
                changed = True
    return ok


# ------------------------------------------------------------------------------------------ R9.1
def unordered_expr(func, e, depth=0):
    """Is the value of expression `e` in `func` an unordered collection (set or list/filter/map built from one)?"""
    if depth > 6:
        return False
    if isinstance(e, (ast.Set, ast.SetComp)):
        return True
    if isinstance(e, ast.Call) and isinstance(e.func, ast.Name):
        n = e.func.id
        if n in ("set", "frozenset"):
            return True
        if n in ("list", "tuple", "reversed", "iter") and e.args:
            return unordered_expr(func, e.args[0], depth + 1)
        if n in ("filter", "map") and len(e.args) >= 2:
            return unordered_expr(func, e.args[1], depth + 1)
        if n == "enumerate" and e.args:
            return unordered_expr(func, e.args[0], depth + 1)
        return False
    if isinstance(e, ast.Call) and isinstance(e.func, ast.Attribute) and e.func.attr in ("union", "intersection", "difference", "copy"):
        return unordered_expr(func, e.func.value, depth + 1)
    if isinstance(e, (ast.ListComp, ast.GeneratorExp)):
        return any(unordered_expr(func, g.iter, depth + 1) for g in e.generators)
    if isinstance(e, ast.BinOp):
        return unordered_expr(func, e.left, depth + 1) or unordered_expr(func, e.right, depth + 1)
    if isinstance(e, ast.Name):
        for n in ast.walk(func.node):
            if isinstance(n, ast.Assign) and any(isinstance(t, ast.Name) and t.id == e.id for t in n.targets):
                if unordered_expr(func, n.value, depth + 1):
                    return True
        return False
    return False


def unordered_loops(ctx, funcs):
    out = []
    for f in funcs:
        for n in ast.walk(f.node):
            if isinstance(n, ast.For) and unordered_expr(f, n.iter):
                out.append((f, n))
    return out


def const_of(v):
    if isinstance(v, EnumSet) and v.single() is not None:
        return v.single()
    if isinstance(v, Const):
        return repr(v.v)
    if isinstance(v, Poly) and v.is_const():
        return str(v.const_value())
    if isinstance(v, ListV) and v.fresh and not v.items:
        return "[]"
    return None


def classify_loop(ctx, lp):
    """-> (verdict, reason, detail).  verdict in {'element-local','constant-writes','idiom','SENSITIVE'}."""
    var = lp.var
    evs = []
    for tr, ex in lp.alts:
        evs.extend(flatten(tr))
    stores = [e for e in evs if isinstance(e, Store)]
    muts = [e for e in evs if isinstance(e, Mut) and not e.attr.startswith("$")]
    localmuts = [e for e in evs if isinstance(e, Mut) and e.attr.startswith("$")]
    reads = [e for e in evs if isinstance(e, Read)]

    def own(recv):
        return isinstance(recv, Obj) and isinstance(var, Obj) and recv == var

    written = {}
    for e in stores:
        written.setdefault((e.cls, e.attr), []).append(e)
    mutated = {}
    for e in muts:
        mutated.setdefault((e.cls, e.attr), []).append(e)
    problems = []
    # local accumulations: set.add / update are order-free; list.append to a local is order-dependent
    for e in localmuts:
        if e.op in ("append", "extend", "insert"):
            cur = e.recv
            kind = getattr(cur, "kind", None)
            if kind != "set":
                problems.append(f"appends to the local list `{e.attr[1:]}` in iteration order")
    # in-place mutations of attributes
    for (c, a), es in mutated.items():
        for e in es:
            if e.op == "remove":
                continue  # removal of elements: the remaining order does not depend on the removal order
            if e.op == "del":
                continue
            if own(e.recv):
                continue
            problems.append(f"mutates {c}.{a} by `{e.op}` on another object in iteration order")
    # attribute stores
    detail = {}
    for (c, a), es in written.items():
        consts = {const_of(e.value) for e in es}
        other_reads = [r for r in reads if r.cls is not None and r.attr == a and (is_subclass(ctx, r.cls, c) or is_subclass(ctx, c, r.cls)) and not own(r.recv)]
        all_own_writes = all(own(e.recv) for e in es)
        if None in consts:
            # a non-constant value is written
            any_reads = [r for r in reads if r.attr == a and r.cls is not None and (is_subclass(ctx, r.cls, c) or is_subclass(ctx, c, r.cls))]
            if all_own_writes and not other_reads:
                continue
            if not all_own_writes and any_reads:
                problems.append(f"writes a computed value to {c}.{a} of other objects while {c}.{a} is also read in the body: later iterations see earlier results")
                continue
            if other_reads:
                problems.append(f"writes a computed value to {c}.{a} and reads {c}.{a} of other elements")
            continue
        # constant writes
        sources = set()
        for e in es:
            if isinstance(e.prev, EnumSet):
                sources |= set(e.prev.members)
        written_recvs = {e.recv.name for e in es if isinstance(e.recv, Obj)}
        for r in other_reads:
            if isinstance(r.recv, Obj) and r.recv.name in written_recvs:
                continue  # guard on the very object that is written (`if w.state == FREE: w.state = WORKING`)
            if r.consts is None:
                problems.append(f"reads {c}.{a} of another element (not a comparison against constants) while the body writes it")
                continue
            clash = set(r.consts) & (consts | sources)
            if clash:
                problems.append(f"tests {c}.{a} of another element against {sorted(clash)} while the body writes {sorted(consts)} "
                                f"from {sorted(sources) or '?'}: the outcome depends on which element is processed first")
        detail[f"{c}.{a}"] = {"writes": sorted(consts), "sources": sorted(sources), "other_reads": len(other_reads)}
    if problems:
        return "SENSITIVE", sorted(set(problems)), detail
    if all(own(e.recv) for e in stores) and all(own(e.recv) or e.op in ("remove", "del") for e in muts):
        return "element-local", [], detail
    return "constant-writes", [], detail


def r9_1(ctx):
    ctx.begin("R9.1", "iterations over unordered collections have order-insensitive bodies", floor=1)
    f_sim, loop = sim_loop(ctx)
    funcs = {id(g.node): g for g in sim_reach(ctx, precise=True)}
    for name in ("backward_simulate", "simulate"):
        g = ctx.repo.method(PROJECT, name)
        funcs[id(g.node)] = g
    for g in ctx.eff.reachable([ctx.repo.method(WORKFLOW, "update_PERT_data"), ctx.repo.method(WORKFLOW, "initialize")], precise=True):
        funcs[id(g.node)] = g
    loops = unordered_loops(ctx, funcs.values())
    # (the number of unordered iterations may legitimately go down to zero -- a set replaced by a list; the searched region is the
    # instance that must not vanish)
    ctx.instance("searched-functions", cells=len(funcs), sample={"functions": len(funcs), "unordered_loops": len(loops)})
    ctx.require(len(funcs) >= 20, f"the region searched for unordered iterations shrank to {len(funcs)} functions")
    by_func = {}
    for g, n in loops:
        by_func.setdefault(id(g.node), (g, []))[1].append(n)
    for g, nodes in by_func.values():
        own_ids = set(by_func)

        def pol(call, callee, depth):
            # functions with their own unordered loops are analysed separately; the step loop itself is not needed here
            return id(callee.node) not in own_ids and callee.name not in ("simulate", "initialize", "backward_simulate")
        I = mk_interp(ctx, inline=pol, max_depth=3, exc_in_try=False)
        I.log_reads = True
        outs = I.run_function(g, bind={"__defaults__": True} if g.name != "backward_simulate" else
                              {"considering_due_time_of_tail_tasks": Const(True), "reverse_log_information": Const(True)})
        found = {}
        for st, ex in outs:
            for lp in [e for e in flatten(st.trace) if isinstance(e, Loop)]:
                if any(lp.node is n for n in nodes):
                    found.setdefault(id(lp.node), []).append(lp)
        for n in nodes:
            role = f"for-{ast.unparse(n.target)}-in-{ast.unparse(n.iter)[:40]}"
            con = construct(g, role)
            ctx.require(id(n) in found, f"unordered loop at {g.loc(n)} not reached by the interpreter")
            verdicts = [classify_loop(ctx, lp) for lp in found[id(n)]]
            worst = next((v for v in verdicts if v[0] == "SENSITIVE"), verdicts[0])
            ctx.instance(con, cells=len(verdicts), sample={"loc": g.loc(n), "verdict": worst[0], "detail": worst[2]})
            if worst[0] == "SENSITIVE":
                ctx.violation(con, g.loc(n), f"iteration over an unordered collection (`{ast.unparse(n.iter)[:50]}`) with an order-sensitive body: " + "; ".join(worst[1]),
                              {"reasons": worst[1], "detail": worst[2]})
    # arg-max object of an unordered collection (the value of the key is fine, the object is not)
    for g in funcs.values():
        for n in ast.walk(g.node):
            if isinstance(n, ast.Call) and isinstance(n.func, ast.Name) and n.func.id in ("max", "min") and n.args and unordered_expr(g, n.args[0]):
                pm = parent_map(g.node)
                par = pm.get(id(n))
                keyl = next((kw.value for kw in n.keywords if kw.arg == "key"), None)
                con = construct(g, f"{n.func.id}-over-unordered")
                ctx.instance(con)
                ok = False
                if isinstance(par, ast.Attribute) and isinstance(keyl, ast.Lambda) and isinstance(keyl.body, ast.Attribute) and keyl.body.attr == par.attr:
                    ok = True  # max(S, key=lambda x: x.a).a : ties cannot change the value
                if keyl is None:
                    ok = True
                if not ok:
                    ctx.violation(con, g.loc(n), f"`{ast.unparse(n)[:70]}` picks an object from an unordered collection: ties are broken by hash order")
    ctx.end()


# ------------------------------------------------------------------------------------------ R9.2
def r9_2(ctx):
    ctx.begin("R9.2", "no identity / clock / uuid / random leaks in simulation-reachable code and priority rules", floor=20)
    stoch_ok = stochastic_ok(ctx)
    funcs = {id(g.node): g for g in sim_reach(ctx, precise=not ctx.thorough)}
    for n in ("sort_task_list", "sort_worker_list", "sort_facility_list", "sort_workplace_list"):
        g = ctx.repo.func(n)
        funcs[id(g.node)] = g
    for g in funcs.values():
        ctx.instance(g.qualname)
        for n in ast.walk(g.node):
            if isinstance(n, ast.Call) and isinstance(n.func, ast.Name) and n.func.id in ("id", "hash"):
                ctx.violation(construct(g, f"{n.func.id}()"), g.loc(n), f"`{n.func.id}()` of an object in simulation code: results depend on memory addresses")
            if isinstance(n, ast.Compare):
                for op, right, left in zip(n.ops, n.comparators, [n.left] + n.comparators[:-1]):
                    if isinstance(op, (ast.Is, ast.IsNot)):
                        def singleton(x):
                            return (isinstance(x, ast.Constant) and x.value in (None, True, False)) or ctx.repo.enum_of_member_expr(x) is not None
                        if not singleton(left) and not singleton(right):
                            ctx.violation(construct(g, f"identity-comparison:{ast.unparse(left)[:30]}"), g.loc(n),
                                          f"`{ast.unparse(n)[:70]}` compares by identity: equal ID strings that are different objects (e.g. after a JSON load) compare unequal")
            if isinstance(n, ast.Attribute) and isinstance(n.value, ast.Name):
                txt = ast.unparse(n)
                bad = None
                if txt in ("datetime.now", "time.time", "uuid.uuid4", "uuid.uuid1", "random.random", "random.choice", "random.shuffle", "os.urandom"):
                    bad = txt
                if isinstance(n.value, ast.Attribute) is False and n.value.id in ("random",):
                    bad = txt
                if bad and g.qualname not in stoch_ok:
                    ctx.violation(construct(g, f"nondeterminism:{bad}"), g.loc(n), f"`{bad}` used in simulation code")
            if isinstance(n, ast.Attribute) and ast.unparse(n).startswith(("np.random.", "numpy.random.")) and g.qualname not in stoch_ok:
                ctx.violation(construct(g, "nondeterminism:np.random"), g.loc(n), f"`{ast.unparse(n)}` outside the documented stochastic helpers")
    ctx.end()


# ------------------------------------------------------------------------------------------ R9.3
def r9_3(ctx):
    ctx.begin("R9.3", "no written module/class-level mutable state; no escaping mutable default argument", floor=5)
    # (i) module / class level mutable objects
    # a module-level container is state only if something writes it: a constant lookup table is not
    from ..guards import module_state_sites
    written = {}
    for g, node, desc, name in module_state_sites(ctx):
        if name is not None:
            written.setdefault((g.module.relpath, name), (g, node, desc))
    for m in ctx.repo.modules.values():
        for st in m.tree.body:
            targets = []
            if isinstance(st, ast.Assign) and isinstance(st.value, (ast.List, ast.Dict, ast.Set, ast.Call)):
                targets = [t.id for t in st.targets if isinstance(t, ast.Name)]
            for t in targets:
                ctx.instance(f"{m.relpath}:module-container:{t}")
                if (m.relpath, t) in written:
                    g, node, desc = written[(m.relpath, t)]
                    ctx.violation(f"{m.relpath}:module-global:{t}", f"{m.relpath}:{st.lineno}", f"module-level mutable object `{t}` is written by {g.qualname} ({g.loc(node)}): {desc}")
    for cn, ci in ctx.repo.classes.items():
        if ci.enum_members is not None:
            continue
        for st in ci.node.body:
            if isinstance(st, ast.Assign) and isinstance(st.value, (ast.List, ast.Dict, ast.Set)):
                ctx.violation(f"{cn}:class-level-mutable", f"{ci.module.relpath}:{st.lineno}", f"class-level mutable attribute in {cn}: shared by all instances")
        for g in ci.methods.values():
            for n in ast.walk(g.node):
                if isinstance(n, (ast.Global, ast.Nonlocal)):
                    ctx.violation(construct(g, "global-statement"), g.loc(n), "global/nonlocal state")
    # (ii) escaping mutable defaults
    from ..guards import escaping_defaults
    seen_defaults = set()
    for g in ctx.repo.all_funcs():
        for p, d in g.defaults.items():
            if isinstance(d, (ast.List, ast.Dict, ast.Set)):
                ctx.instance(construct(g, f"mutable-default:{p}"))
    for g, p, n, cls, attr, muts in escaping_defaults(ctx):
        if muts:
            ctx.violation(construct(g, f"mutable-default-escapes:{p}"), g.loc(n),
                          f"the mutable default of parameter `{p}` is stored into {cls}.{attr} (alias) and {cls}.{attr} is mutated in place at "
                          f"{muts[0].loc} ({muts[0].op}): every later call that relies on the default sees the polluted object",
                          {"mutators": [m.loc for m in muts][:5]})
    ctx.end()


# ------------------------------------------------------------------------------------------ R9.4
def r9_4(ctx):
    ctx.begin("R9.4", "everything a simulation step writes is reset by initialize(True, True) or re-assigned by simulate()", floor=15)
    from ..guards import unreset_attrs
    written, reset = unreset_attrs(ctx)   # (shared with the hidden-state rule R0.1 of every check)
    for k, e in sorted(written.items()):
        ctx.instance(f"{k[0]}.{k[1]}", sample={"written_at": e.loc, "reset": k in reset})
        if k not in reset:
            ctx.violation(f"reset:{k[0]}.{k[1]}", e.loc, f"{k[0]}.{k[1]} is written during a simulation step ({e.func.qualname}) but not reset by initialize(state_info=True, log_info=True): "
                          f"a second simulate() on the same object starts from the leftovers of the first")
    ctx.end()


def r9_6(ctx):
    """What simulate() derives from its arguments and the step loop then reads from `self` must be assigned on *every* path before
    the loop -- an assignment skipped for some argument values (an empty list, a default) lets the previous run's value through."""
    ctx.begin("R9.6", "option-derived attributes are assigned unconditionally before the step loop", floor=1)
    f, loop = sim_loop(ctx)
    body = f.body()
    pre = body[: body.index(loop)]
    I = mk_interp(ctx, inline=lambda call, callee, depth: False, auto_helpers=False)
    outs = [(st, ex) for st, ex in I.run_block(f, pre, bind={"task_performed_mode": Const("multi-workers")}) if ex is None]
    ctx.require(outs, "no normal path through simulate()'s prologue")
    per_path = []
    for st, ex in outs:
        per_path.append({e.attr for e in flatten(st.trace) if isinstance(e, Store) and isinstance(e.recv, Obj) and e.recv.name == "self"})
    some = set().union(*per_path)
    every = set.intersection(*per_path) if per_path else set()
    ctx.instance(construct(f, "prologue-stores"), cells=len(outs), sample={"always": sorted(every), "sometimes": sorted(some - every)})
    for a in sorted(some - every):
        ctx.violation(construct(f, f"conditional-option-store:{a}"), f.loc(),
                      f"simulate() assigns self.{a} only on some paths before its loop (it depends on the argument values): when the assignment is skipped the attribute keeps the value of "
                      f"an earlier run, and a later run behaves differently although it was called with the same arguments")
    ctx.end()


def r9_7(ctx):
    """IDs are generated (uuid4 by default): a sort that orders candidates *by* an ID makes the result depend on what was generated,
    i.e. differ between two builds of the same model.  (Comparing IDs for equality is fine.)"""
    ctx.begin("R9.7", "no sort function orders its candidates by a generated ID", floor=4)
    from ..sorters import sorter_table
    from ..interp import FuncV
    for fname in ("sort_task_list", "sort_worker_list", "sort_facility_list", "sort_workplace_list"):
        f, enum, table = sorter_table(ctx, fname)
        ctx.instance(fname, cells=sum(len(v) for v in table.values()))
        seen = set()
        for member, outs in table.items():
            for o in outs:
                for sv in o.sorts:
                    if not isinstance(sv.key, FuncV) or id(sv.node) in seen:
                        continue
                    seen.add(id(sv.node))
                    kn = sv.key.node
                    pm = parent_map(kn)
                    for n in ast.walk(kn):
                        if isinstance(n, ast.Attribute) and n.attr == "ID":
                            par = pm.get(id(n))
                            if isinstance(par, ast.Compare) and all(isinstance(op, (ast.Eq, ast.NotEq, ast.In, ast.NotIn)) for op in par.ops):
                                continue
                            ctx.violation(construct(f, "orders-by-id"), f.loc(sv.node), f"{fname} sorts by `{ast.unparse(n)}` ({member}): IDs are generated per object, so the order of otherwise "
                                          "equal candidates -- and with it the whole result -- changes from one build of the model to the next")
    ctx.end()


def r9_5(ctx):
    """'Running a simulation leaves no hidden state behind': a backward run must hand the dependency structure back
    unchanged, with no helper task or link left (shared with C17 R17.1-R17.3)."""
    from .C17 import r17_1, r17_2, r17_3
    r17_1(ctx)
    r17_2(ctx)
    r17_3(ctx)


READ_ONLY_PREFIXES = ("create_", "plot_", "print_", "get_", "extract_", "export_", "write_", "can_", "has_", "is_", "__str__")


def r9_8(ctx):
    """'no hidden state that changes a later run': the query, report, chart and export functions are called between runs at will; a
    later simulate() gives the same result only if they leave the model as it is.  None of them stores, deletes or mutates an
    attribute of a model object -- directly, or through a local that *may* denote such an attribute (`xs = self.task_list` on one
    branch, a filtered copy on the other)."""
    ctx.begin("R9.8", "query / report / chart / export functions do not modify model objects", floor=60)
    from ..effects import MUTATORS
    for g in ctx.repo.all_funcs():
        if not g.cls or g.cls not in ctx.repo.model_classes or not g.name.startswith(READ_ONLY_PREFIXES) or getattr(g, "parent", None) is not None:
            continue
        ctx.instance(g.qualname)
        for ef in ctx.eff.of(g):
            if ef.kind in ("store", "mut", "del") and (ef.cls is not None or (isinstance(ef.recv, ast.Name) and ef.recv.id == "self")):
                ctx.violation(construct(g, f"writes:{ef.attr}"), ef.loc, f"{g.qualname} is a query/report function but {ef.kind}s {ef.cls or g.cls}.{ef.attr} "
                              f"(`{ast.unparse(ef.node)[:60]}`): calling it between two runs changes what the next run starts from")
        # may-alias: a local bound (on any path) to an attribute of an object, then changed in place
        ft = ctx.types.ftypes(g)
        may = {}
        for n in ast.walk(g.node):
            if isinstance(n, ast.Assign):
                vals = [n.value.body, n.value.orelse] if isinstance(n.value, ast.IfExp) else [n.value]
                for t in n.targets:
                    if isinstance(t, ast.Name):
                        for v in vals:
                            if isinstance(v, ast.Attribute):
                                tv = ft.type_of(v.value)
                                if (tv and tv[0] == "obj") or (isinstance(v.value, ast.Name) and v.value.id == "self"):
                                    may.setdefault(t.id, []).append(v)
        for n in ast.walk(g.node):
            hit = None
            if isinstance(n, ast.Call) and isinstance(n.func, ast.Attribute) and n.func.attr in MUTATORS and isinstance(n.func.value, ast.Name) and n.func.value.id in may:
                hit = (n.func.value.id, f".{n.func.attr}()")
            elif isinstance(n, (ast.Assign, ast.AugAssign, ast.Delete)):
                tg = n.targets if isinstance(n, (ast.Assign, ast.Delete)) else [n.target]
                for t in tg:
                    if isinstance(t, ast.Subscript) and isinstance(t.value, ast.Name) and t.value.id in may:
                        hit = (t.value.id, "item assignment")
                    elif isinstance(n, ast.AugAssign) and isinstance(t, ast.Name) and t.id in may:
                        hit = (t.id, "augmented assignment")
            if hit:
                a = may[hit[0]][0]
                ctx.violation(construct(g, f"may-write:{a.attr}"), g.loc(n), f"{g.qualname} is a query/report function but changes `{hit[0]}` in place ({hit[1]}), and `{hit[0]}` can be "
                              f"`{ast.unparse(a)}` itself (bound at line {a.lineno}): the model's {a.attr} is then reordered / edited by a report, and the next run differs")
    ctx.end()


def run(ctx):
    r9_8(ctx)
    r9_1(ctx)
    r9_2(ctx)
    r9_3(ctx)
    r9_4(ctx)
    r9_5(ctx)
    r9_6(ctx)
    r9_7(ctx)
    from .C14 import r14_2
    r14_2(ctx)  # derived state (component state) must be re-derived after the tasks were reset, or a second run starts from leftovers
