"""C13 -- component placement respects location, capacity, conveyor and site rules."""
import ast

from ..common import *
from ..errors import AnalysisError
from ..interp import State
from ..alloc import alloc_func, alloc_trace, allocation_sites, walk_alts, permutation_sorters, alloc_inline
from ..simstruct import loop_paths

CLAIM = ("Every armed rule instance held (apart from listed known findings): (R13.1) placed_workplace / placed_component_list are "
         "written only by the three setter/remover methods, initialize and the JSON loaders; (R13.2) at every call site a component "
         "is given a workplace together with the workplace being given the component, a removal from a workplace is paired with "
         "clearing or re-setting the component's location, and the three methods all descend over child components; (R13.3) the "
         "move block is reached only with component.is_ready() true (whose table is false when a task is WORKING or all are "
         "FINISHED), with the conveyor rule satisfied (table over declared inputs x current location), with can_put true (numeric "
         "boundary table), and leaves the candidate loop after one move; (R13.4) the leave routine removes exactly the placed "
         "top-level components whose tasks are all FINISHED and runs right after the finish check; (R13.5) facilities are drawn "
         "from the placed workplace (C04); (R13.7) the move guard reads what the allocation of the same step writes. "
         "Known findings for nested products: (R13.6) the move guard ignores descendants that the move drags along; (R13.8) "
         "removal from a workplace is unguarded for children that were re-placed on their own. Capacity as an observed "
         "inequality is not decided.")
EXPLANATION = ("Who-may-write; call-site pairing on the interpreted allocator; concrete small-model tables for the conveyor rule, "
               "can_put, is_ready and the leave routine; read-set vs write-set comparison for the move guard.")
ASSUMPTIONS = ["flat products for the clauses on which nested products have known findings"]
TECHNIQUE = "who-may-write + call-site pairing + small-model decision tables by abstract interpretation + read/write-set comparison"


def r13_1(ctx):
    ctx.begin("R13.1", "writers of placed_workplace / placed_component_list", floor=6)
    allowed = {(COMPONENT, "set_placed_workplace"), (COMPONENT, "__init__"), (COMPONENT, "initialize"),
               (WORKPLACE, "set_placed_component"), (WORKPLACE, "remove_placed_component"), (WORKPLACE, "__init__"), (WORKPLACE, "initialize"),
               (PROJECT, "read_simple_json"), (PROJECT, "append_project_log_from_simple_json")}
    for g in ctx.repo.all_funcs():
        for ef in ctx.eff.of(g):
            if ef.kind in ("store", "mut", "del") and ((ef.attr == "placed_workplace" and ef.cls in (COMPONENT, None)) or (ef.attr == "placed_component_list" and ef.cls in (WORKPLACE, None))):
                ctx.instance(construct(g, f"writer:{ef.attr}"))
                ok = (g.cls, g.name) in allowed
                if not ok and g.cls is None and getattr(ef, "op", None) == "setattr":
                    # a shared helper that assigns attributes by name: the writers are the callers that pass this name
                    from ..effects import callers_passing
                    who = callers_passing(g, ef.attr)
                    ok = bool(who) and all(tuple(q.split(".", 1)) in allowed for q in who if "." in q) and all("." in q for q in who)
                if not ok:
                    ctx.violation(construct(g, f"writes:{ef.attr}"), ef.loc, f"{g.qualname} writes {ef.attr} directly (`{ast.unparse(ef.node)[:60]}`): location and contents can get out of step")
    ctx.end()


def r13_2(ctx):
    ctx.begin("R13.2", "location and contents are updated in pairs at every call site; all three methods descend to children", floor=3)
    funcs = [alloc_func(ctx), ctx.repo.method(PRODUCT, "check_removing_placed_workplace")]
    for g in funcs:
        if g is funcs[0]:
            _, trace, I = alloc_trace(ctx)
        else:
            I2 = mk_interp(ctx)
            outs = I2.run_function(g)
            trace = outs[0][0].trace
        alts = [(tr, ex) for tr, loops, before, ex in walk_alts(trace)] + [(trace, None)]
        for tr, ex in alts:
            calls = [e for e in tr if isinstance(e, Call) and e.callees]
            sets = [e for e in calls if e.callees[0] == f"{COMPONENT}.set_placed_workplace"]
            puts = [e for e in calls if e.callees[0] == f"{WORKPLACE}.set_placed_component"]
            rems = [e for e in calls if e.callees[0] == f"{WORKPLACE}.remove_placed_component"]
            if not (sets or puts or rems):
                continue
            ctx.instance(construct(g, f"block@{(sets + puts + rems)[0].node.lineno}"), sample={"set": len(sets), "put": len(puts), "remove": len(rems)})
            for s_ in sets:
                a0 = s_.args.get(0, s_.args.get("placed_workplace"))
                if isinstance(a0, Const) and a0.v is None:
                    continue
                if not any(p.recv == a0 and p.args.get(0, p.args.get("placed_component")) == s_.recv for p in puts):
                    ctx.violation(construct(g, "set-without-put"), s_.loc, "a component is told it is placed at a workplace, but the workplace is not given the component in the same block")
            for p in puts:
                c = p.args.get(0, p.args.get("placed_component"))
                if not any(s_.recv == c and s_.args.get(0, s_.args.get("placed_workplace")) == p.recv for s_ in sets):
                    ctx.violation(construct(g, "put-without-set"), p.loc, "a workplace is given a component whose placed_workplace is not set to it in the same block")
        # removals: somewhere later in the same outermost block the location is cleared or re-set (the removal of a
        # child of the component being moved is followed by the parent's recursive set_placed_workplace)
        outer = [tr for tr, loops, before, ex in walk_alts(trace) if len(loops) == 1] or [trace]
        for tr in outer:
            flat = flatten(tr)
            for i, r in enumerate(flat):
                if isinstance(r, Call) and r.callees and r.callees[0] == f"{WORKPLACE}.remove_placed_component":
                    if not any(isinstance(x, Call) and x.callees and x.callees[0] == f"{COMPONENT}.set_placed_workplace" for x in flat[i + 1:]):
                        ctx.violation(construct(g, "remove-without-clear"), r.loc, "a component is removed from a workplace's contents but its placed_workplace is neither cleared nor re-set afterwards")
    # recursion over children in all three
    rec = {}
    for cls, name in ((COMPONENT, "set_placed_workplace"), (WORKPLACE, "set_placed_component"), (WORKPLACE, "remove_placed_component")):
        g = ctx.repo.method(cls, name)
        # small model: a parent P with one child K, default flags: does the method call itself for K?
        P, K, WPo = Obj("P", COMPONENT), Obj("K", COMPONENT), Obj("WPX", WORKPLACE)
        heap = {("P", "child_component_list"): ListV([K]), ("K", "child_component_list"): ListV([]), ("self", "placed_component_list"): ListV([P, K], True, "list")}
        I = mk_interp(ctx, inline=lambda call, callee, depth: False, auto_helpers=False)
        if cls == COMPONENT:
            outs = I.run_function(g, bind={g.params[1]: WPo, "__defaults__": True}, heap=heap, self_obj=P)
        else:
            heap[("self", "placed_component_list")] = ListV([P, K] if name.startswith("remove") else [], True, "list")
            outs = I.run_function(g, bind={g.params[1]: P, "__defaults__": True}, heap=heap)
        r = False
        for st, ex in outs:
            for e in flatten(st.trace):
                if isinstance(e, Call) and g.qualname in e.callees and (e.recv == K or K in [v for v in e.args.values() if isinstance(v, Obj)]):
                    r = True
        rec[name] = r
        ctx.instance(construct(g, "descends"), sample={"calls_itself_for_the_child": r})
    if len(set(rec.values())) != 1:
        ctx.violation("placement-methods:recursion-disagrees", ctx.repo.method(WORKPLACE, "remove_placed_component").loc(), f"the three placement methods disagree on descending to child components: {rec}")
    ctx.end()


def move_sites(ctx):
    f, trace, I = alloc_trace(ctx)
    out = []
    for tr, loops, before, ex in walk_alts(trace):
        puts = [e for e in tr if isinstance(e, Call) and e.callees and (e.callees[0] == f"{WORKPLACE}.set_placed_component" or
                (e.callees[0] == f"{COMPONENT}.set_placed_workplace" and not (isinstance(e.args.get(0), Const) and e.args.get(0).v is None)))]
        if puts:
            out.append((tr, loops, before, ex, puts[0]))
    return f, out


def implied_atoms(conds):
    """What the path conditions imply, atom by atom: [(source text of the atom, truth)] -- `not`, `and` (when true) and `or`
    (when false) are taken apart, so a guard clause `if not x.ok(): return` and a nested `if x.ok():` give the same atoms."""
    out = []

    def go(t, truth):
        if isinstance(t, ast.UnaryOp) and isinstance(t.op, ast.Not):
            go(t.operand, not truth)
        elif isinstance(t, ast.BoolOp) and ((isinstance(t.op, ast.And) and truth) or (isinstance(t.op, ast.Or) and not truth)):
            for v in t.values:
                go(v, truth)
        else:
            out.append((ast.unparse(t), truth))
    for c in conds:
        test = getattr(c.node, "test", None)
        if test is not None:
            go(test, c.truth)
        else:
            out.append((c.text, c.truth))
    return out


def r13_3(ctx):
    ctx.begin("R13.3", "move guard: is_ready, conveyor rule, can_put, one move per task", floor=4)
    f, sites = move_sites(ctx)
    ctx.require(sites, "no component move found in the allocator")
    for tr, loops, before, ex, put in sites:
        ctx.instance(construct(f, f"move@{put.node.lineno}"), sample={"exit": ex[0] if ex else None})
        conds = [e for e in list(before) + list(tr) if isinstance(e, Cond)]
        atoms = implied_atoms(conds)
        if not any("is_ready()" in t and truth for t, truth in atoms):
            ctx.violation(construct(f, "move-without-is_ready"), put.loc, "a component can be moved without component.is_ready() being true (e.g. while one of its tasks is WORKING)")
        if not any("can_put" in t and truth for t, truth in atoms):
            ctx.violation(construct(f, "move-without-can_put"), put.loc, "a component can be moved to a workplace without workplace.can_put(component) being true (capacity)")
        if ex is None or ex[0] not in ("break", "return"):   # (`return` when the move block is a helper of its own)
            ctx.violation(construct(f, "move-no-break"), put.loc, "after moving a component the candidate-workplace loop goes on: the component can move more than once per step")
    # is_ready table
    g = ctx.repo.method(COMPONENT, "is_ready")
    import itertools
    tstates = ["NONE", "READY", "WORKING", "FINISHED"]
    for r in range(len(tstates) + 1):
        for present in itertools.combinations(tstates, r):
            tasks = [Obj(f"T_{s}", TASK) for s in present]
            heap = {(t.name, "state"): E(TS, s) for t, s in zip(tasks, present)}
            I = mk_interp(ctx, collections={"self.targeted_task_list": tasks}, inline=lambda call, callee, depth: callee.cls == COMPONENT, max_depth=3)
            outs = I.run_function(g, heap=heap)
            for st, ex in outs:
                v = ex[1] if ex and ex[0] == "return" else None
                got = v.v if isinstance(v, Const) else None
                P = set(present)
                ctx.instance(construct(g, f"present={','.join(present) or 'none'}"))
                if got is None:
                    # the analyser cannot evaluate this formulation: never guess a verdict
                    raise AnalysisError(f"R13.3: is_ready() not determined for task states {sorted(P)}: {v!r} (unrecognised idiom)")
                elif got and ("WORKING" in P or P <= {"FINISHED"} or "READY" not in P):
                    ctx.violation(construct(g, "ready-table"), g.loc(), f"is_ready() is True for task states {sorted(P)} (must be False while a task is WORKING, when all are FINISHED, and without a READY task)")
                elif not got and "READY" in P and "WORKING" not in P:
                    ctx.violation(construct(g, "ready-table-blocks"), g.loc(), f"is_ready() is False for task states {sorted(P)}: a component with a READY task and no WORKING task could never be placed")
    # conveyor table (concrete small model of the allocator)
    srt = permutation_sorters(ctx)

    def hook(I, call, st, fr):
        if isinstance(call.func, ast.Name) and srt.get(call.func.id) and call.args:
            return I.eval(call.args[0], st, fr)
        return None
    for inputs in ("none", "A"):
        for placed in ("nowhere", "A", "C"):
            T, Cm = Obj("T", TASK), Obj("Cm", COMPONENT)
            A, B, C3 = Obj("A", WORKPLACE), Obj("B", WORKPLACE), Obj("C", WORKPLACE)
            st0 = State()
            heap = {("T", "state"): E(TS, "READY"), ("T", "target_component"): Cm, ("T", "auto_task"): Const(True), ("T", "name"): Const("t"),
                    ("T", "allocated_workplace_list"): ListV([B]), ("T", "allocated_worker_list"): ListV([]),
                    ("Cm", "targeted_task_list"): ListV([T]), ("Cm", "child_component_list"): ListV([]),
                    ("Cm", "placed_workplace"): {"nowhere": Const(None), "A": A, "C": C3}[placed],
                    ("A", "ID"): Const("A"), ("B", "ID"): Const("B"), ("C", "ID"): Const("C"),
                    ("B", "input_workplace_list"): ListV([A] if inputs == "A" else [])}
            st0.heap.update(heap)
            st0.facts["<Cm>.is_ready()"] = (True, frozenset())
            st0.facts["<B>.can_put(<Cm>)"] = (True, frozenset())
            I = mk_interp(ctx, collections={"self.workflow.task_list": [T], "self.organization.team_list": [], "self.organization.workplace_list": [A, B, C3]},
                          call_hook=hook, distinct_objs=True, havoc_on_call=False, inline=alloc_inline(ctx), max_depth=3)
            outs = I.run_function(f, bind={"__defaults__": True}, st=st0)
            moved = set()
            for st, ex in outs:
                m = any(isinstance(e, Call) and e.callees and e.callees[0] == f"{WORKPLACE}.set_placed_component" and isinstance(e.recv, Obj) and e.recv.name == "B" for e in flatten(st.trace))
                moved.add(m)
            allowed = not (inputs == "A" and placed == "C")
            ctx.instance(construct(f, f"conveyor:inputs={inputs},placed={placed}"), sample={"moved": sorted(moved)})
            if not allowed and True in moved:
                ctx.violation(construct(f, "conveyor-rule"), f.loc(), f"a component placed at workplace C is moved into workplace B although B declares only A as input workplace")
            if allowed and moved == {False}:
                ctx.violation(construct(f, "conveyor-rule-blocks"), f.loc(), f"a component placed {placed} cannot enter workplace B (declared inputs: {inputs}) although the conveyor rule allows it")
    # a component moves only while *none* of its tasks holds a worker (same small model, a second task of the component with a worker)
    for other_holds in (False, True):
        T, T2, Cm, W = Obj("T", TASK), Obj("T2", TASK), Obj("Cm", COMPONENT), Obj("W", WORKER)
        A, B = Obj("A", WORKPLACE), Obj("B", WORKPLACE)
        st0 = State()
        st0.heap.update({("T", "state"): E(TS, "READY"), ("T", "target_component"): Cm, ("T", "auto_task"): Const(True), ("T", "name"): Const("t"),
                         ("T", "allocated_workplace_list"): ListV([B]), ("T", "allocated_worker_list"): ListV([]),
                         ("T2", "state"): E(TS, "READY"), ("T2", "target_component"): Cm, ("T2", "name"): Const("t2"),
                         ("T2", "allocated_worker_list"): ListV([W] if other_holds else []),
                         ("Cm", "targeted_task_list"): ListV([T, T2]), ("Cm", "child_component_list"): ListV([]), ("Cm", "placed_workplace"): A,
                         ("A", "ID"): Const("A"), ("B", "ID"): Const("B"), ("B", "input_workplace_list"): ListV([])})
        st0.facts["<Cm>.is_ready()"] = (True, frozenset())
        st0.facts["<B>.can_put(<Cm>)"] = (True, frozenset())
        I = mk_interp(ctx, collections={"self.workflow.task_list": [T], "self.organization.team_list": [], "self.organization.workplace_list": [A, B]},
                      call_hook=hook, distinct_objs=True, havoc_on_call=False, inline=alloc_inline(ctx), max_depth=3)
        moved = set()
        for st, ex in I.run_function(f, bind={"__defaults__": True}, st=st0):
            moved.add(any(isinstance(e, Call) and e.callees and e.callees[0] == f"{WORKPLACE}.set_placed_component" and isinstance(e.recv, Obj) and e.recv.name == "B" for e in flatten(st.trace)))
        ctx.instance(construct(f, f"move-while-sibling-task-holds-worker={other_holds}"), sample={"moved": sorted(moved)})
        if other_holds and True in moved:
            ctx.violation(construct(f, "move-while-staffed"), f.loc(), "a component is moved to another workplace although another task of the same component already holds a worker "
                          "(allocated earlier in this step at the old workplace): that task then works with facilities of a workplace where its component is not")
        if not other_holds and moved == {False}:
            ctx.violation(construct(f, "move-blocked"), f.loc(), "a component none of whose tasks holds a worker cannot be moved to a workplace that accepts it")
    # can_put numeric boundary
    cp = ctx.repo.method(WORKPLACE, "can_put")
    from fractions import Fraction
    tiny = Fraction(1, 10 ** 12)     # well inside the default tolerance (1e-10): float noise of sizes like 0.1 + 0.2
    for nested in (False, True):
        for size, exp in ((0.5, True), (1.0, True), (1.5, False), (3.0, False), (1 + tiny, True), (1 + Fraction(1, 10 ** 6), False)):
            # c1 is a top-level component, c2 a child placed on its own (its parent is elsewhere): both take space here.
            # nested: c2 is c1's own child, listed as a separate entry (set_placed_component lists the parts of a placed assembly
            # one by one): each entry still counts once
            c1, c2, cand, par = Obj("c1", COMPONENT), Obj("c2", COMPONENT), Obj("cand", COMPONENT), Obj("par", COMPONENT)
            heap = {("self", "max_space_size"): Poly.const(3), ("c1", "space_size"): Poly.const(1), ("c2", "space_size"): Poly.const(1), ("cand", "space_size"): Poly.const(size),
                    ("c1", "parent_component_list"): ListV([]), ("c2", "parent_component_list"): ListV([c1 if nested else par]), ("c1", "child_component_list"): ListV([c2] if nested else []),
                    ("c2", "child_component_list"): ListV([]), ("par", "space_size"): Poly.const(1), ("par", "placed_workplace"): Const(None),
                    ("cand", "child_component_list"): ListV([]), ("cand", "parent_component_list"): ListV([])}
            I = mk_interp(ctx, inline=lambda call, callee, depth: callee.cls == WORKPLACE, collections={"self.placed_component_list": [c1, c2]}, max_depth=2)
            outs = I.run_function(cp, bind={"component": cand, "__defaults__": True}, heap=heap)
            for st, ex in outs:
                v = ex[1] if ex and ex[0] == "return" else None
                got = v.v if isinstance(v, Const) else None
                ctx.instance(construct(cp, f"size={size},nested={nested}"))
                if got is not exp:
                    what = "an assembly and its part, listed as two entries" if nested else "a top-level component and a separately placed child"
                    ctx.violation(construct(cp, "capacity"), cp.loc(), f"can_put: capacity 3 holding {what} (size 1 each), candidate of size {size} => {v!r} (expected {exp})")
    ctx.end()


def r13_4(ctx):
    ctx.begin("R13.4", "leave routine: placed top-level components with all tasks FINISHED; runs right after the finish check", floor=4)
    g = ctx.repo.method(PRODUCT, "check_removing_placed_workplace")
    for top in (True, False):
        for tstate in ("FINISHED", "WORKING", "READY"):
            C, T, WPo, Par = Obj("C", COMPONENT), Obj("T", TASK), Obj("WP", WORKPLACE), Obj("Par", COMPONENT)
            heap = {("C", "parent_component_list"): ListV([] if top else [Par]), ("C", "targeted_task_list"): ListV([T]), ("T", "state"): E(TS, tstate),
                    ("C", "placed_workplace"): WPo, ("C", "child_component_list"): ListV([])}
            I = mk_interp(ctx, collections={"self.component_list": [C]})
            outs = I.run_function(g, heap=heap)
            for st, ex in outs:
                rm = [e for e in flatten(st.trace) if isinstance(e, Call) and e.callees and e.callees[0].endswith("remove_placed_component")]
                clr = [e for e in flatten(st.trace) if isinstance(e, Call) and e.callees and e.callees[0].endswith("set_placed_workplace") and isinstance(e.args.get(0), Const) and e.args.get(0).v is None]
                exp = top and tstate == "FINISHED"
                ctx.instance(construct(g, f"top={top},task={tstate}"))
                if bool(rm) != exp or bool(clr) != exp:
                    ctx.violation(construct(g, "leave-table"), g.loc(), f"{'top-level' if top else 'child'} component whose task is {tstate}: removed from workplace={bool(rm)}, location cleared={bool(clr)} (expected {exp})")
    # two tasks: only when both are FINISHED
    for s2 in ("FINISHED", "WORKING"):
        C, T, T2, WPo = Obj("C", COMPONENT), Obj("T", TASK), Obj("T2", TASK), Obj("WP", WORKPLACE)
        heap = {("C", "parent_component_list"): ListV([]), ("C", "targeted_task_list"): ListV([T, T2]), ("T", "state"): E(TS, "FINISHED"), ("T2", "state"): E(TS, s2),
                ("C", "placed_workplace"): WPo, ("C", "child_component_list"): ListV([])}
        I = mk_interp(ctx, collections={"self.component_list": [C]})
        for st, ex in I.run_function(g, heap=heap):
            rm = [e for e in flatten(st.trace) if isinstance(e, Call) and e.callees and e.callees[0].endswith("remove_placed_component")]
            ctx.instance(construct(g, f"two-tasks:FINISHED+{s2}"))
            if bool(rm) != (s2 == "FINISHED"):
                ctx.violation(construct(g, "leave-table"), g.loc(), f"component with tasks FINISHED and {s2}: removed from its workplace={bool(rm)} (expected {s2 == 'FINISHED'})")
    f, loop = sim_loop(ctx)
    for i, p in enumerate(loop_paths(ctx, key="plain")):
        names = [c for c, _ in p["phases"]]
        if "finish-check" not in names:
            continue
        ctx.instance(construct(f, f"loop-path-{i}"))
        k = names.index("finish-check")
        after = [c for c in names[k + 1:] if c != "product-state"]
        if not after or after[0] != "removal":
            ctx.violation(construct(f, "leave-after-finish-check"), f.loc(loop), "the leave-workplace routine does not run right after the finish check: a finished component keeps its workplace for another step")
    ctx.end()


def r13_5(ctx):
    ctx.begin("R13.5", "facilities of a task come from the workplace where its component is placed", floor=1)
    f, sites = allocation_sites(ctx)
    n = 0
    for s in sites:
        if s.facility is None:
            continue
        n += 1
        F, T = s.facility, s.task
        ctx.instance(construct(f, f"facility-site@{s.ev['task<-facility'].node.lineno}"))
        if isinstance(F, Obj) and F.name.startswith("<None>."):
            continue   # the path on which the task has no component: reading its placed_workplace raises AttributeError before this site
        if not (isinstance(F, Obj) and isinstance(T, Obj) and F.name.replace("task.", T.name + ".").startswith(f"{T.name}.target_component.placed_workplace.facility_list[")):
            ctx.violation(construct(f, "facility-provenance"), s.ev["task<-facility"].loc, "a facility is allocated that is not drawn from task.target_component.placed_workplace.facility_list")
    ctx.require(n >= 1, "no facility allocation site")
    ctx.end()


def guard_reads(ctx, f):
    """Attribute names read (transitively) by the predicates about the moved component that are known to hold when it is
    moved (the facts the interpreter carries to the move call: however the guard is written -- nested ifs, guard clauses,
    a helper method).  -> (location node, reads)"""
    _f, sites = move_sites(ctx)
    reads, node = set(), None
    for tr, loops, before, ex, put in sites:
        comp = put.recv if put.callees and put.callees[0].endswith("set_placed_workplace") else None
        if not isinstance(comp, Obj):
            continue
        node = put.node if node is None else node
        for k, (truth, deps) in put.facts.items():
            if ("<" + comp.name + ">") in k:
                reads |= set(deps)
    return node, reads


def move_loc(ctx, node):
    _f, sites = move_sites(ctx)
    for tr, loops, before, ex, put in sites:
        if put.node is node:
            return put.loc
    return _f.loc(node)


def r13_6_7_8(ctx):
    f = alloc_func(ctx)
    node, reads = guard_reads(ctx, f)
    ctx.begin("R13.6", "the move guard covers everything the move drags along (descendants)", floor=1)
    ctx.require(node is not None, "move guard (is_ready test) not found")
    setter = ctx.repo.method(COMPONENT, "set_placed_workplace")
    recursive = any(isinstance(n, ast.For) and "child_component_list" in ast.unparse(n.iter) for n in ast.walk(setter.node))
    ctx.instance(construct(f, "move-guard-scope"), sample={"guard_reads": sorted(reads)[:12], "move_recursive": recursive})
    if recursive and "child_component_list" not in reads:
        ctx.violation(construct(f, "move-guard-ignores-descendants"), move_loc(ctx, node),
                      "a move re-locates the component and all its descendants (set_placed_workplace descends over child_component_list) but the guard only looks at the "
                      "component's own tasks: a child whose task is WORKING is dragged to another workplace together with its parent")
    ctx.end()
    ctx.begin("R13.7", "the move guard sees the allocations made earlier in the same step", floor=1)
    ctx.instance(construct(f, "move-guard-reads-allocation"))
    alloc_writes = {"allocated_worker_list", "allocated_facility_list", "assigned_task_list"}
    marker = False
    if not (reads & alloc_writes) and not marker:
        ctx.violation(construct(f, "placement-guard"), move_loc(ctx, node),
                      "the move guard reads only task states, which change after allocation: a second READY task of the same component moves it away after the first task was "
                      "given a facility of the old workplace in the same step")
    ctx.end()
    ctx.begin("R13.8", "removal from a workplace's contents is guarded like insertion", floor=1)
    rm = ctx.repo.method(WORKPLACE, "remove_placed_component")
    sp = ctx.repo.method(WORKPLACE, "set_placed_component")
    guarded_set = any(isinstance(n, ast.If) and "placed_component_list" in ast.unparse(n.test) for n in ast.walk(sp.node))
    pm = parent_map(rm.node)
    bad = []
    for n in ast.walk(rm.node):
        if isinstance(n, ast.Call) and isinstance(n.func, ast.Attribute) and n.func.attr == "remove" and "placed_component_list" in ast.unparse(n.func.value):
            g = pm.get(id(n))
            ok = False
            while g is not None and g is not rm.node:
                if isinstance(g, ast.If) and "placed_component_list" in ast.unparse(g.test):
                    ok = True
                if isinstance(g, ast.Try):
                    ok = True
                g = pm.get(id(g))
            if not ok:
                bad.append(n)
    ctx.instance(construct(rm, "remove-guard"), sample={"insertion_guarded": guarded_set, "unguarded_removes": len(bad)})
    if bad and guarded_set:
        ctx.violation(construct(rm, "unguarded-remove"), rm.loc(bad[0]),
                      "remove_placed_component removes the component and, recursively, its children from this workplace's list without a membership test (set_placed_component has one): "
                      "a child that was re-placed on its own is not in the list and simulate() raises ValueError when the parent leaves")
    ctx.end()


def r13_9(ctx):
    """Two-way consistency after a move in a nested product (concrete small model): parent P, not yet placed, with two
    children placed on their own at OLD; P's task becomes READY and P moves to NEW.  Afterwards every component must
    report NEW, be listed by NEW and by nobody else."""
    ctx.begin("R13.9", "after a move of a nested assembly every component is listed exactly where it reports to be", floor=1)
    f = alloc_func(ctx)
    srt = permutation_sorters(ctx)

    def hook(I, call, st, fr):
        if isinstance(call.func, ast.Name) and srt.get(call.func.id) and call.args:
            return I.eval(call.args[0], st, fr)
        return None
    placing = {"set_placed_workplace", "set_placed_component", "remove_placed_component"}
    for between in (False, True):
        T, P, C1, C2, X = Obj("T", TASK), Obj("P", COMPONENT), Obj("C1", COMPONENT), Obj("C2", COMPONENT), Obj("X", COMPONENT)
        OLD, NEW = Obj("OLD", WORKPLACE), Obj("NEW", WORKPLACE)
        old_list = [C1, X, C2] if between else [C1, C2]
        st0 = State()
        st0.heap.update({
            ("T", "state"): E(TS, "READY"), ("T", "target_component"): P, ("T", "auto_task"): Const(True), ("T", "name"): Const("t"),
            ("T", "allocated_workplace_list"): ListV([NEW]), ("T", "allocated_worker_list"): ListV([]),
            ("P", "ID"): Const("P"), ("C1", "ID"): Const("C1"), ("C2", "ID"): Const("C2"), ("X", "ID"): Const("X"),
            ("P", "targeted_task_list"): ListV([T]), ("P", "child_component_list"): ListV([C1, C2]), ("P", "parent_component_list"): ListV([]),
            ("P", "placed_workplace"): Const(None),
            ("C1", "child_component_list"): ListV([]), ("C2", "child_component_list"): ListV([]), ("X", "child_component_list"): ListV([]),
            ("C1", "parent_component_list"): ListV([P]), ("C2", "parent_component_list"): ListV([P]), ("X", "parent_component_list"): ListV([]),
            ("C1", "placed_workplace"): OLD, ("C2", "placed_workplace"): OLD, ("X", "placed_workplace"): OLD,
            ("OLD", "ID"): Const("OLD"), ("NEW", "ID"): Const("NEW"), ("NEW", "input_workplace_list"): ListV([]),
            ("OLD", "placed_component_list"): ListV(old_list), ("NEW", "placed_component_list"): ListV([]),
        })
        st0.facts["<P>.is_ready()"] = (True, frozenset())
        st0.facts["<NEW>.can_put(<P>)"] = (True, frozenset())
        I = mk_interp(ctx, collections={"self.workflow.task_list": [T], "self.organization.team_list": [], "self.organization.workplace_list": [OLD, NEW]},
                      call_hook=hook, distinct_objs=True, havoc_on_call=False, inline=alloc_inline(ctx, lambda call, callee, depth: callee.name in placing), max_depth=6)
        outs = I.run_function(f, bind={"__defaults__": True}, st=st0)
        moved = 0
        for st, ex in outs:
            pw = st.heap.get(("P", "placed_workplace"))
            if not (isinstance(pw, Obj) and pw.name == "NEW"):
                continue
            moved += 1
            oldl, newl = st.heap.get(("OLD", "placed_component_list")), st.heap.get(("NEW", "placed_component_list"))
            ctx.instance(construct(f, f"nested-move-between={between}"), sample={"OLD": repr(oldl), "NEW": repr(newl)})
            if not (isinstance(oldl, ListV) and isinstance(newl, ListV)):
                raise AnalysisError(f"R13.9: workplace contents not determined after the move ({oldl!r} / {newl!r})")
            for c in (P, C1, C2):
                loc_ = st.heap.get((c.name, "placed_workplace"))
                in_new = any(isinstance(x, Obj) and x.name == c.name for x in newl.items)
                in_old = any(isinstance(x, Obj) and x.name == c.name for x in oldl.items)
                if not (isinstance(loc_, Obj) and loc_.name == "NEW") or not in_new or in_old:
                    ctx.violation(construct(f, "nested-move-consistency"), f.loc(),
                                  f"parent P (children C1, C2 placed on their own at OLD{' with another component between them' if between else ', neighbours in the list'}) moves to NEW: "
                                  f"afterwards {c.name} reports {loc_!r}, listed by NEW={in_new}, still listed by OLD={in_old} -- a workplace must list a component exactly when the component "
                                  f"reports being placed there")
                    break
        ctx.require(moved >= 1, "the small nested model does not move the parent (positive control)")
    ctx.end()


def run(ctx):
    r13_1(ctx)
    r13_2(ctx)
    r13_3(ctx)
    r13_4(ctx)
    r13_5(ctx)
    r13_6_7_8(ctx)
    r13_9(ctx)
    from ..initflags import group_rule
    group_rule(ctx, "R13.10", "placement", "a component's location and the workplace's contents are reset separately and disagree afterwards")
    # after a reload both sides of a placement are rebuilt from saved IDs: the component's location and the workplace's contents go
    # through the same unconditional re-link (C16's codec table), otherwise a resumed run starts with a one-sided placement
    from .C16 import r16_2
    from ..jsontab import JsonTables
    r16_2(ctx, JsonTables(ctx))
