"""Oracle tables transcribed from the property statements (each row cites its sentence)."""

# C01 "A task's state only moves forward along NONE, READY, WORKING, FINISHED"
LIFECYCLE_ORDER = {"NONE": 0, "READY": 1, "WORKING": 2, "WORKING_ADDITIONALLY": 2, "FINISHED": 3}
# states in which a predecessor "has started" (C01/C05: started-and-already-finished counts as started)
STARTED = {"WORKING", "WORKING_ADDITIONALLY", "FINISHED"}

# C01: safety direction.  gate -> dependency kind -> states of the predecessor that MAY be accepted
GATE_SAFE = {
    # "does not leave NONE before each finish-to-start predecessor is FINISHED and each
    #  start-to-start predecessor has started"
    "READY": {"FS": {"FINISHED"}, "SS": set(STARTED)},
    # "does not become FINISHED before each finish-to-finish predecessor is FINISHED and each
    #  start-to-finish predecessor has started"
    "FINISHED": {"FF": {"FINISHED"}, "SF": set(STARTED)},
}
# C05/C06: liveness direction -- what MUST be accepted (same sets: satisfied dependencies must not block)
GATE_LIVE = GATE_SAFE

# C08: the 17 per-step logs (class, log attribute) -> live attribute they snapshot.
# Derived from today's record methods, confirmed by reading, frozen here (DESIGN 2.8 / R8.2).
LOGS = {
    ("BaseTask", "state_record_list"): "state",
    ("BaseTask", "remaining_work_amount_record_list"): "remaining_work_amount",
    ("BaseTask", "allocated_worker_id_record"): "allocated_worker_list",
    ("BaseTask", "allocated_facility_id_record"): "allocated_facility_list",
    ("BaseComponent", "state_record_list"): "state",
    ("BaseComponent", "placed_workplace_id_record"): "placed_workplace",
    ("BaseWorker", "state_record_list"): "state",
    ("BaseWorker", "cost_list"): None,  # appended by add_labor_cost (C07)
    ("BaseWorker", "assigned_task_id_record"): "assigned_task_list",
    ("BaseFacility", "state_record_list"): "state",
    ("BaseFacility", "cost_list"): None,
    ("BaseFacility", "assigned_task_id_record"): "assigned_task_list",
    ("BaseTeam", "cost_list"): None,
    ("BaseWorkplace", "cost_list"): None,
    ("BaseWorkplace", "placed_component_id_record"): "placed_component_list",
    ("BaseOrganization", "cost_list"): None,
    ("BaseProject", "cost_list"): None,
}

# containment tree: (parent class, container attribute, child class)
TREE = [
    ("BaseProject", "workflow", "BaseWorkflow", "one"),
    ("BaseProject", "product", "BaseProduct", "one"),
    ("BaseProject", "organization", "BaseOrganization", "one"),
    ("BaseWorkflow", "task_list", "BaseTask", "many"),
    ("BaseProduct", "component_list", "BaseComponent", "many"),
    ("BaseOrganization", "team_list", "BaseTeam", "many"),
    ("BaseOrganization", "workplace_list", "BaseWorkplace", "many"),
    ("BaseTeam", "worker_list", "BaseWorker", "many"),
    ("BaseWorkplace", "facility_list", "BaseFacility", "many"),
]
