class AnalysisError(Exception):
    """The analyser cannot decide (vanished anchor, unrecognised idiom, floor not met).

    Surfaces as `ANALYSIS-ERROR ...` and exit code 2 -- never as a VIOLATION and never as a pass.
    """
