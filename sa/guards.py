"""Soundness preconditions of the analyser, and the 'no hidden state' rule parametrised by a property's code region.

(1) `soundness_guards(ctx)` -- run by every check before its rules.  The analyses follow attributes and resolved calls;
    constructs that would let behaviour change behind their back make the verdict undecidable, and are reported as
    ANALYSIS-ERROR (exit 2) naming the construct -- never as a pass:
      G1  a package subclass overrides a method of a model class (beyond the table confirmed by hand),
      G2  attribute hooks / properties on model classes (__getattr__, __setattr__, __getattribute__, @property ...),
      G3  reflective writes: __dict__, exec, eval, globals(), vars(), setattr/getattr with a name that is not known.
(2) `hidden_state_rule(ctx, rule_id, roots)` -- state that survives `initialize(True, True)` (an attribute written by the
    simulation and never reset, a module-level or class-level container that a function mutates, a memoising decorator)
    and is read or kept by code this property depends on: a later run, a resumed run or a run after the model was edited
    then behaves differently although the model says otherwise.
"""
import ast

from .common import *
from .errors import AnalysisError

# overriding methods confirmed by reading: (subclass, method) -> why it is transparent for the analyses
OVERRIDES_OK = {
    ("BaseSubProjectTask", "__init__"): "forwards every argument to BaseTask.__init__ (C20 R20.4)",
    ("BaseSubProjectTask", "export_dict_json_data"): "extends the dict of the base exporter (C16 tables read both)",
}
HOOKS = {"__getattr__", "__getattribute__", "__setattr__", "__delattr__", "__set__", "__get__", "__set_name__", "__init_subclass__", "__class_getitem__"}
MEMO_DECORATORS = {"lru_cache", "cache", "cached_property", "memoize", "memoized"}
_CACHE = {}


def soundness_guards(ctx):
    key = ("guards", id(ctx.repo))
    if key in _CACHE:
        return _CACHE[key]
    repo = ctx.repo
    n = 0
    for cn, ci in repo.classes.items():
        if ci.enum_members is not None:
            continue
        for m, fi in ci.methods.items():
            n += 1
            if m in HOOKS:
                raise AnalysisError(f"guard G2: {cn}.{m} hooks attribute access at {fi.loc()}: attribute-level analysis of {cn} objects is not sound")
            for d in fi.node.decorator_list:
                dn = ast.unparse(d)
                if dn.split("(")[0].split(".")[-1] in ("property", "setter", "deleter", "cached_property"):
                    raise AnalysisError(f"guard G2: {cn}.{m} is a property/descriptor ({dn}) at {fi.loc()}: reads and writes of `{m}` run code the analysis does not follow")
            # overrides of an ancestor's method
            for anc in repo.mro(cn)[1:]:
                if anc in repo.classes and m in repo.classes[anc].methods and (cn, m) not in OVERRIDES_OK:
                    raise AnalysisError(f"guard G1: {cn}.{m} overrides {anc}.{m} at {fi.loc()}: the tables of this check were built for {anc}.{m} only; "
                                        f"objects of {cn} take part in a simulation with different code")
    for f in repo.all_funcs():
        for nd in ast.walk(f.node):
            if isinstance(nd, ast.Attribute) and nd.attr == "__dict__":
                raise AnalysisError(f"guard G3: `{ast.unparse(nd)[:50]}` at {f.loc(nd)} ({f.qualname}): attributes are read or written reflectively")
            if isinstance(nd, ast.Call) and isinstance(nd.func, ast.Name) and nd.func.id in ("exec", "eval", "globals", "vars", "__import__", "delattr"):
                raise AnalysisError(f"guard G3: call of {nd.func.id}() at {f.loc(nd)} ({f.qualname})")
    for f in repo.all_funcs():
        for e in ctx.eff.of(f):
            if e.kind == "store" and e.op == "setattr" and e.attr == "*":
                raise AnalysisError(f"guard G3: setattr with a name that is not known statically at {e.loc} ({f.qualname})")
    _CACHE[key] = n
    return n


def module_state_sites(ctx):
    """Functions that keep state outside the model objects: -> list of (func, node, what)."""
    key = ("modstate", id(ctx.repo))
    if key in _CACHE:
        return _CACHE[key]
    repo = ctx.repo
    out = []
    mutators = {"append", "add", "update", "setdefault", "extend", "insert", "pop", "remove", "clear", "popitem", "discard", "appendleft"}
    for f in repo.all_funcs():
        node = f.node
        # names local to the function (parameters, assigned names, loop/with/comprehension targets)
        local = set(f.params) | set(f.kwonly) | ({f.kwarg} if f.kwarg else set())
        if getattr(node.args, "vararg", None):
            local.add(node.args.vararg.arg)
        declared_global = set()
        for nd in ast.walk(node):
            if isinstance(nd, (ast.Global, ast.Nonlocal)):
                declared_global |= set(nd.names)
            elif isinstance(nd, ast.Name) and isinstance(nd.ctx, ast.Store):
                local.add(nd.id)
            elif isinstance(nd, (ast.FunctionDef, ast.ClassDef)) and nd is not node:
                local.add(nd.name)
            elif isinstance(nd, ast.Import):
                local |= {a.asname or a.name.split(".")[0] for a in nd.names}
            elif isinstance(nd, ast.ImportFrom):
                local |= {a.asname or a.name for a in nd.names}
        local -= declared_global
        for d in node.decorator_list:
            dn = ast.unparse(d).split("(")[0].split(".")[-1]
            if dn in MEMO_DECORATORS:
                out.append((f, d, f"memoising decorator @{ast.unparse(d)[:40]}", None))
        for g in declared_global:
            out.append((f, node, f"`global/nonlocal {g}`", g))
        module_names = set(f.module.toplevel_names) if hasattr(f.module, "toplevel_names") else None
        for nd in ast.walk(node):
            tgt = None
            if isinstance(nd, ast.Call) and isinstance(nd.func, ast.Attribute) and nd.func.attr in mutators:
                tgt = nd.func.value
            elif isinstance(nd, (ast.Assign, ast.AugAssign)):
                for t in (nd.targets if isinstance(nd, ast.Assign) else [nd.target]):
                    if isinstance(t, ast.Subscript):
                        tgt = t.value
                    elif isinstance(t, ast.Attribute) and isinstance(t.value, ast.Name) and t.value.id in repo.classes and t.value.id not in local:
                        out.append((f, nd, f"class attribute `{ast.unparse(t)}` is assigned", None))
                    elif isinstance(t, ast.Attribute) and isinstance(t.value, ast.Call) and ast.unparse(t.value) in ("type(self)", "self.__class__"):
                        out.append((f, nd, f"class attribute `{ast.unparse(t)}` is assigned", None))
            if tgt is None:
                continue
            base = tgt
            while isinstance(base, (ast.Subscript, ast.Attribute)):
                base = base.value
            if isinstance(base, ast.Name) and base.id not in local and base.id not in ("self", "cls") and base.id not in repo.enums:
                # a free name: module-level (or enclosing-function) container mutated in place
                if base.id in repo.classes or (module_names is None or base.id in module_names) or base.id in declared_global:
                    if base.id in repo.classes and isinstance(tgt, ast.Name):
                        continue
                    out.append((f, nd, f"module- or class-level container `{ast.unparse(tgt)[:40]}` is mutated in place", base.id))
        # mutable default argument that the body mutates
        for p, dv in f.defaults.items():
            if isinstance(dv, (ast.List, ast.Dict, ast.Set)) or (isinstance(dv, ast.Call) and isinstance(dv.func, ast.Name) and dv.func.id in ("list", "dict", "set")):
                for nd in ast.walk(node):
                    if isinstance(nd, ast.Call) and isinstance(nd.func, ast.Attribute) and nd.func.attr in mutators and isinstance(nd.func.value, ast.Name) and nd.func.value.id == p:
                        out.append((f, nd, f"mutable default argument `{p}` is mutated", None))
                    if isinstance(nd, (ast.Assign, ast.AugAssign)):
                        for t in (nd.targets if isinstance(nd, ast.Assign) else [nd.target]):
                            if isinstance(t, ast.Subscript) and isinstance(t.value, ast.Name) and t.value.id == p:
                                out.append((f, nd, f"mutable default argument `{p}` is mutated", None))
    _CACHE[key] = out
    return out


def escaping_defaults(ctx):
    """Mutable default arguments that a function stores into an attribute which other code mutates in place: every object built with
    the default then shares one container.  -> [(function, parameter, assign node, class, attribute, mutator effects)]"""
    out = []
    for g in ctx.repo.all_funcs():
        for p, d in g.defaults.items():
            if not isinstance(d, (ast.List, ast.Dict, ast.Set)):
                continue
            for n in ast.walk(g.node):
                if isinstance(n, ast.Assign) and len(n.targets) == 1 and isinstance(n.targets[0], ast.Attribute):
                    tgt = n.targets[0]
                    v = n.value
                    aliases = isinstance(v, ast.Name) and v.id == p
                    if isinstance(v, ast.IfExp):
                        # `p if <cond> else <fresh>` aliases the default when cond holds for the default value
                        if isinstance(v.body, ast.Name) and v.body.id == p:
                            cond = ast.unparse(v.test)
                            if "is not None" in cond:
                                aliases = True
                            elif "!=" in cond and ast.unparse(d) in cond:
                                aliases = False  # `p if p != {} else {}` : the default takes the fresh branch
                            else:
                                aliases = True
                    if not aliases:
                        continue
                    t = ctx.types.ftypes(g).type_of(tgt.value)
                    cls = t[1] if t and t[0] == "obj" else g.cls
                    muts = [e for e in ctx.eff.writers(cls, tgt.attr, kinds=("mut",)) if e.op not in ("del",)] if cls else []
                    out.append((g, p, n, cls, tgt.attr, muts))
    return out


def _conditional_store(func, eff):
    """Is the statement of this effect nested in an if / loop / try of `func` (i.e. not executed on every call)?"""
    from .common import parent_map
    pm = parent_map(func.node)
    g = pm.get(id(eff.node))
    while g is not None and g is not func.node:
        if isinstance(g, (ast.If, ast.For, ast.While, ast.Try, ast.FunctionDef)):
            return True
        g = pm.get(id(g))
    return False


def unreset_attrs(ctx):
    """(owner class, attr) -> Effect for everything a forward / backward run writes that initialize(True, True) does not
    reset and simulate() does not re-assign (the computation of C09 R9.4)."""
    key = ("unreset", id(ctx.repo))
    if key in _CACHE:
        return _CACHE[key]
    from .rules.C08 import tree_method_run
    f, outs = tree_method_run(ctx, "initialize", {"state_info": Const(True), "log_info": Const(True)})
    # reset = stored for *every* object of the class on every path (a traversal that can skip objects -- filtered, left early, nested
    # in a loop over another collection -- resets some of them only)
    from .fanout import FanOut

    def key_of(e):
        return (ctx.types.field_owner(e.cls, e.attr) or e.cls, e.attr) if isinstance(e, Store) and e.cls else None
    reset = None
    for st, ex in outs:
        if ex is not None and ex[0] == "raise":
            continue
        c = FanOut(ctx, key_of).counts(st.trace)
        full = {k for k, v in c.items() if -1 not in v and v != {0}}   # (a store under a condition of the body -- "if it is None" -- still counts)
        reset = full if reset is None else (reset & full)
    reset = reset or set()
    sim = ctx.repo.method(PROJECT, "simulate")
    # what simulate() itself assigns before its loop -- directly, or in a private helper of the project that its prologue calls
    # unconditionally (`self.__prepare(...)`)
    pre_funcs = [sim]
    from .common import sim_loop, is_private_helper
    _f, loop = sim_loop(ctx)
    top = sim.body()
    pre_stmts = top[: top.index(loop)] if loop in top else []
    for s0 in pre_stmts:
        if isinstance(s0, ast.Expr) and isinstance(s0.value, ast.Call):
            callees, resolved = ctx.types.ftypes(sim).resolve_call(s0.value)
            if resolved and len(callees) == 1 and callees[0].cls == PROJECT and is_private_helper(callees[0]):
                pre_funcs.append(callees[0])
    for pf in pre_funcs:
        for e in ctx.eff.of(pf):
            if e.kind == "store" and e.cls and (pf is sim or not _conditional_store(pf, e)):
                reset.add((ctx.types.field_owner(e.cls, e.attr) or e.cls, e.attr))
    written = {}
    funcs = list(sim_reach(ctx, precise=True))
    step_code = {id(g.node) for g in funcs}
    for nm in ("backward_simulate", "reverse_log_information"):
        g0 = ctx.repo.lookup_method(PROJECT, nm)
        if g0 is not None:
            funcs.extend(ctx.eff.reachable([g0], precise=True, stop=lambda fn: fn.name in ("simulate",)))
    structure = {"input_task_list", "output_task_list", "input_workplace_list", "output_workplace_list", "task_list"}
    for g in funcs:
        for e in ctx.eff.of(g):
            if e.attr in structure and id(g.node) not in step_code:
                continue  # the backward wrapper (and its helpers): swapped and swapped back / helper tasks removed again: C17 R17.1-R17.3
            if g.name == "__init__":
                continue
            if e.kind in ("store", "mut") and e.cls and not e.attr.startswith("dummy_"):
                owner = ctx.types.field_owner(e.cls, e.attr) or e.cls
                written.setdefault((owner, e.attr), e)
    res = (written, reset)
    _CACHE[key] = res
    return res


def region(ctx, roots):
    """Functions reachable (resolved edges) from the given entry points: (class, method) pairs or function names."""
    fs, only = [], []
    for r in roots:
        if isinstance(r, tuple) and r and r[0] == "only":
            only.append(r[1])   # this function's own body, without what it calls
            continue
        if isinstance(r, tuple):
            g = ctx.repo.lookup_method(*r)
        elif hasattr(r, "node"):
            g = r
        else:
            g = ctx.repo.functions.get(r)
        if g is not None:
            fs.append(g)
    out = list(ctx.eff.reachable(fs, precise=True))
    have = {id(g.node) for g in out}
    out.extend(g for g in only if id(g.node) not in have)
    return out


# properties that hold for *any* order in which candidates are offered: state hidden in the sort functions cannot break them
ORDER_INDEPENDENT = {"C01", "C02", "C03", "C04", "C05", "C06", "C07", "C08", "C10", "C13", "C14"}


def hidden_state_rule(ctx, rule_id, roots, what, prop=None):
    ctx.begin(rule_id, f"no state outside the reset model is read or kept by {what}", floor=1)
    reg = region(ctx, roots)
    if prop in ORDER_INDEPENDENT:
        sorters = [ctx.repo.functions[n] for n in ctx.repo.functions if n.startswith("sort_")]
        skip = {id(g.node) for g in ctx.eff.reachable(sorters, precise=True)}
        reg = [g for g in reg if id(g.node) not in skip]
    ids = {id(g.node) for g in reg}
    ctx.instance("region", cells=len(reg), sample={"functions": len(reg)})
    written, reset = unreset_attrs(ctx)
    stale = {k: e for k, e in written.items() if k not in reset}
    for g in reg:
        for e in ctx.eff.of(g):
            if e.kind == "read":
                for (owner, attr), w in stale.items():
                    if e.attr == attr and (e.cls is None or e.cls == owner or is_subclass(ctx, e.cls, owner) or is_subclass(ctx, owner, e.cls)):
                        ctx.violation(f"stale-state:{owner}.{attr}@{g.qualname}", e.loc,
                                      f"{g.qualname} reads {owner}.{attr}, which a simulation writes ({w.func.qualname}, {w.loc}) and initialize(True, True) never resets: "
                                      f"after the first run (or after the model is edited) this code works from leftovers instead of the model")
    for f, node, desc, _name in module_state_sites(ctx):
        if id(f.node) in ids:
            ctx.violation(f"state-outside-model:{f.qualname}", f.loc(node), f"{f.qualname}: {desc}: state kept outside the model objects survives initialize() and is shared between runs and between projects")
    # a container shared by every object built with a default argument, mutated by this region's code
    for g, p, n, cls, attr, muts in escaping_defaults(ctx):
        here = [m for m in muts if id(m.func.node) in ids]
        if here:
            ctx.violation(f"shared-default:{cls}.{attr}", g.loc(n),
                          f"the mutable default of `{p}` in {g.qualname} becomes {cls}.{attr} of every object built without that argument, and {here[0].func.qualname} "
                          f"({here[0].loc}) changes it in place ({here[0].op}): what is written for one object shows up in all of them")
    ctx.end()


def _identity_eq(fn):
    """Is this __eq__/__ne__ the default comparison written out (`return self is other`, `return NotImplemented`, `id(self) == id(other)`)?"""
    body = [b for b in fn.body if not (isinstance(b, ast.Expr) and isinstance(b.value, ast.Constant))]
    if len(body) != 1 or not isinstance(body[0], ast.Return) or body[0].value is None:
        return False
    v = body[0].value
    if isinstance(v, ast.Name) and v.id == "NotImplemented":
        return True
    if isinstance(v, ast.Compare) and len(v.ops) == 1:
        a, b = v.left, v.comparators[0]
        if isinstance(v.ops[0], (ast.Is, ast.IsNot)) and isinstance(a, ast.Name) and isinstance(b, ast.Name):
            return True
        def is_id(x):
            return isinstance(x, ast.Call) and isinstance(x.func, ast.Name) and x.func.id == "id" and len(x.args) == 1 and isinstance(x.args[0], ast.Name)
        if isinstance(v.ops[0], (ast.Eq, ast.NotEq)) and is_id(a) and is_id(b):
            return True
    return False


def identity_rule(ctx, rule_id, roots, what):
    """The simulator identifies model objects by *identity*: `x in list`, `list.remove(x)`, sets and dict keys of tasks, workers,
    components ... (and so does this analysis).  A model class that defines its own equality (say, by ID) silently changes all of
    these: two distinct objects with equal IDs -- a deep copy, the same ID given twice -- are then one object to every membership
    test, de-duplication and removal.  Reported where the property's code performs such an operation on objects of that class."""
    ctx.begin(rule_id, f"model objects are compared by identity in {what}", floor=1)
    custom = {}
    for cn in ctx.repo.model_classes:
        ci = ctx.repo.classes[cn]
        for m in ("__eq__", "__ne__"):
            fn = ci.methods.get(m)
            if fn is not None and not _identity_eq(fn.node):
                custom[cn] = fn
    ctx.instance("model-classes", cells=len(ctx.repo.model_classes), sample={"classes_with_own_equality": sorted(custom)})
    if custom:
        def hit(t):
            """class with custom equality that a static type denotes (directly or as an element), else None"""
            if not t:
                return None
            if t[0] == "obj":
                return next((c for c in custom if t[1] == c or is_subclass(ctx, t[1], c) or is_subclass(ctx, c, t[1])), None)
            if t[0] in ("list", "set", "tuple", "pair", "union", "dict"):
                for x in t[1:]:
                    if isinstance(x, tuple):
                        r = hit(x)
                        if r:
                            return r
            return None
        for g in region(ctx, roots):
            ft = ctx.types.ftypes(g)

            def typed(e):
                r = hit(ft.type_of(e))
                if r is None and isinstance(e, (ast.List, ast.Tuple)):
                    for x in e.elts:
                        r = r or typed(x)
                return r
            for n in ast.walk(g.node):
                site = None
                if isinstance(n, ast.Compare):
                    for op, a, b in zip(n.ops, [n.left] + n.comparators[:-1], n.comparators):
                        if isinstance(op, (ast.In, ast.NotIn)) and (typed(a) or typed(b)):
                            site = (typed(a) or typed(b), "membership test")
                        elif isinstance(op, (ast.Eq, ast.NotEq)) and typed(a) and typed(b):
                            site = (typed(a), "comparison")
                elif isinstance(n, ast.Call) and isinstance(n.func, ast.Attribute) and n.func.attr in ("remove", "index", "count") and n.args and typed(n.args[0]):
                    site = (typed(n.args[0]), f"`.{n.func.attr}()`")
                elif isinstance(n, ast.Call) and isinstance(n.func, ast.Name) and n.func.id in ("set", "frozenset") and n.args and typed(n.args[0]):
                    site = (typed(n.args[0]), "set of objects")
                elif isinstance(n, ast.Call) and ast.unparse(n.func) == "dict.fromkeys" and n.args and typed(n.args[0]):
                    site = (typed(n.args[0]), "dict keyed by objects")
                elif isinstance(n, ast.SetComp) and typed(n.elt):
                    site = (typed(n.elt), "set of objects")
                elif isinstance(n, ast.Set) and any(typed(x) for x in n.elts):
                    site = (next(typed(x) for x in n.elts if typed(x)), "set of objects")
                if site:
                    cn, kind = site
                    fn = custom[cn]
                    ctx.violation(f"custom-equality:{cn}@{g.qualname}", g.loc(n),
                                  f"{g.qualname}: {kind} `{ast.unparse(n)[:60]}` on {cn} objects, but {cn} defines its own equality ({fn.loc()}): two distinct objects that compare "
                                  f"equal (same ID: a copy, an ID given twice) are treated as one object here")
    ctx.end()


ORG = "BaseOrganization"
SUBTASK = "BaseSubProjectTask"


def property_roots(ctx, prop):
    """Entry points of the code each property's behaviour depends on (-> (roots, description)).  Kept narrow on purpose: state
    hidden in code a property does not depend on is not that property's violation."""
    from .alloc import alloc_func
    sim = ("only", ctx.repo.method(PROJECT, "simulate"))
    A = [alloc_func(ctx), (ORG, "check_update_state_from_absence_time_list"), (ORG, "set_absence_state_to_all_workers_facilities")]
    CS = [(WORKFLOW, "check_state")]
    PC = [(PRODUCT, "check_state"), (PRODUCT, "check_removing_placed_workplace")]
    REC = [(PROJECT, "__record")]
    COST = [(ORG, "add_labor_cost")]
    PERF = [(WORKFLOW, "perform"), (PROJECT, "__perform")]
    GANTT = [(c, m) for c in (TASK, COMPONENT, WORKER, FACILITY, TEAM, WORKPLACE, WORKFLOW, PRODUCT, ORG, PROJECT)
             for m in ("get_time_list_for_gannt_chart", "create_data_for_gantt_plotly", "create_simple_gantt", "set_last_datetime",
                       "extract_none_task_list", "extract_ready_task_list", "extract_working_task_list", "extract_finished_task_list",
                       "extract_none_component_list", "extract_ready_component_list", "extract_working_component_list", "extract_finished_component_list",
                       "extract_free_worker_list", "extract_working_worker_list", "extract_free_facility_list", "extract_working_facility_list")]
    table = {
        "C01": (CS + [(TASK, "initialize"), (TASK, "record_state")], "the dependency gates and the task lifecycle"),
        "C02": (CS + PERF + [(TASK, "initialize")], "the progress computation and the finish check"),
        "C03": (A + CS, "allocation and release"),
        "C04": (A, "the allocator and the per-step absence refresh"),
        "C05": (A + CS + [sim], "the gates, the allocator and the step loop"),
        "C06": (A + CS + PC + [sim], "the gates, the allocator and the step loop"),
        "C07": (COST + [sim], "the cost accounting"),
        "C08": (REC + COST + [(PROJECT, "initialize"), sim], "recording and initialisation"),
        "C09": ([(PROJECT, "simulate"), (PROJECT, "backward_simulate"), (PROJECT, "initialize")], "a simulation run"),
        "C10": (A + CS + COST + PERF + REC, "the absence handling of a step"),
        "C11": ([alloc_func(ctx)] + [n for n in ("sort_task_list", "sort_worker_list", "sort_facility_list", "sort_workplace_list")], "the allocator and the sort functions"),
        "C12": ([(WORKFLOW, "update_PERT_data")], "the PERT passes"),
        "C13": ([alloc_func(ctx)] + PC + [(COMPONENT, "set_placed_workplace"), (WORKPLACE, "set_placed_component"), (WORKPLACE, "remove_placed_component"),
                                          (WORKPLACE, "can_put"), (WORKPLACE, "get_available_space_size"), (COMPONENT, "is_ready")], "component placement"),
        "C14": (PC + [(COMPONENT, "check_state"), (COMPONENT, "initialize")], "the component state derivation"),
        "C15": ([(PROJECT, "simulate"), (PROJECT, "initialize")], "a (resumed) simulation run"),
        "C16": ([(PROJECT, "write_simple_json"), (PROJECT, "read_simple_json"), (PROJECT, "export_dict_json_data")], "saving and loading"),
        "C17": ([(PROJECT, "backward_simulate"), (PROJECT, "reverse_log_information")], "a backward run"),
        "C18": ([(PROJECT, "remove_absence_time_list"), (PROJECT, "insert_absence_time_list")], "the absence editors"),
        "C19": (GANTT, "the reporting functions"),
        "C20": ([(SUBTASK, "__init__"), (SUBTASK, "set_all_attributes_from_json"), (SUBTASK, "set_work_amount_progress_of_unit_step_time")], "the sub-project task"),
    }
    return table[prop]
