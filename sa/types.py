"""Receiver types and local type inference (a repo-specific points-to-lite).

Types are small tuples:
  ('obj', Class) | ('list', T) | ('set', T) | ('pair', T1, T2) | ('tuple', T1, ...) |
  ('enum', E) | ('dict', K, V) | ('prim', name) | None (unknown)

Sources, in priority order: class docstring `Args:` lines (the repo writes them uniformly as
`name (List[BaseTask], optional):`), constructor defaults (`self.x = BaseProduct()`), function
docstrings for parameters, a short name-convention table for parameters the docstrings miss.
"""
import ast
import re

from .errors import AnalysisError

_ARG_RE = re.compile(r"^\s*(\w+)\s*\((.+?)\)\s*:?\s*$")

# parameter-name conventions (fallback only; each line: why)
PARAM_CONVENTION = {
    "task": "BaseTask",  # used as loop/param name for tasks everywhere
    "input_task": "BaseTask",
    "targeted_task": "BaseTask",
    "worker": "BaseWorker",
    "facility": "BaseFacility",
    "component": "BaseComponent",
    "placed_component": "BaseComponent",
    "child_component": "BaseComponent",
    "workplace": "BaseWorkplace",
    "placed_workplace": "BaseWorkplace",
    "parent_workplace": "BaseWorkplace",
    "input_workplace": "BaseWorkplace",
    "team": "BaseTeam",
    "parent_team": "BaseTeam",
    "wp": "BaseWorkplace",  # nested helper in sort_workplace_list
}
LIST_PARAM_CONVENTION = {
    "task_list": "BaseTask",
    "worker_list": "BaseWorker",
    "facility_list": "BaseFacility",
    "workplace_list": "BaseWorkplace",
    "component_list": "BaseComponent",
    "team_list": "BaseTeam",
    "targeted_task_list": "BaseTask",
    "child_component_list": "BaseComponent",
}


def obj(c):
    return ("obj", c)


def elem(t):
    if t is None:
        return None
    if t[0] in ("list", "set"):
        return t[1]
    if t[0] == "tuple" and len(t) > 1 and all(x is not None for x in t[1:]):
        # iterating a tuple literal: one element type, or the union of the object types it mixes
        if all(x == t[1] for x in t[1:]):
            return t[1]
        if all(x[0] == "obj" for x in t[1:]):
            return ("union",) + tuple(dict.fromkeys(t[1:]))
    return None


class TypeTable:
    def __init__(self, repo):
        self.repo = repo
        self.fields = {}
        self.sources = {}
        for cn in repo.model_classes:
            ci = repo.classes[cn]
            for line in ci.doc.splitlines():
                m = _ARG_RE.match(line)
                if not m:
                    continue
                ty = self.parse_type(m.group(2))
                if ty is not None:
                    self.fields.setdefault((cn, m.group(1)), ty)
                    self.sources[(cn, m.group(1))] = "docstring"
            init = ci.methods.get("__init__")
            if init is not None:
                for n in ast.walk(init.node):
                    if isinstance(n, ast.Assign) and len(n.targets) == 1:
                        t = n.targets[0]
                        if isinstance(t, ast.Attribute) and isinstance(t.value, ast.Name) and t.value.id == "self":
                            v = n.value
                            if isinstance(v, ast.Call) and isinstance(v.func, ast.Name) and v.func.id in repo.classes \
                                    and repo.classes[v.func.id].enum_members is None:
                                self.fields.setdefault((cn, t.attr), obj(v.func.id))
                                self.sources.setdefault((cn, t.attr), "ctor-default")
        self._ftypes = {}
        self._ret_cache = {}

    def parse_type(self, s):
        s = s.strip()
        s = re.sub(r",\s*optional\s*$", "", s).strip()
        m = re.match(r"^List\[(.+)\]$", s)
        if m:
            inner = m.group(1).strip()
            # List[BaseTask,BaseTaskDependency] : list of [task, dependency] pairs
            parts = self._split_top(inner)
            if len(parts) == 2:
                a, b = self.parse_type(parts[0]), self.parse_type(parts[1])
                return ("list", ("pair", a, b))
            return ("list", self.parse_type(inner))
        m = re.match(r"^Dict\[(.+)\]$", s)
        if m:
            parts = self._split_top(m.group(1))
            if len(parts) == 2:
                return ("dict", self.parse_type(parts[0]), self.parse_type(parts[1]))
            return ("dict", None, None)
        if s in self.repo.enums:
            return ("enum", s)
        if s + "Mode" in self.repo.enums:  # docstrings say ResourcePriorityRule for ...RuleMode
            return ("enum", s + "Mode")
        if s in self.repo.classes:
            return obj(s)
        if s in ("str", "float", "int", "bool"):
            return ("prim", s)
        if s.startswith("datetime."):
            return ("prim", s)
        return None

    @staticmethod
    def _split_top(s):
        out, depth, cur = [], 0, ""
        for ch in s:
            if ch == "[":
                depth += 1
            elif ch == "]":
                depth -= 1
            if ch == "," and depth == 0:
                out.append(cur.strip())
                cur = ""
            else:
                cur += ch
        if cur.strip():
            out.append(cur.strip())
        return out

    def field_type(self, cls, attr):
        for c in self.repo.mro(cls):
            if (c, attr) in self.fields:
                return self.fields[(c, attr)]
        return None

    def field_owner(self, cls, attr):
        """The class in cls's MRO that declares `attr` (docstring or ctor)."""
        for c in self.repo.mro(cls):
            if (c, attr) in self.fields:
                return c
        return None

    def ftypes(self, func):
        k = id(func.node)
        if k not in self._ftypes:
            self._ftypes[k] = FuncTypes(self, func)
        return self._ftypes[k]

    def return_type(self, func, depth=0):
        k = id(func.node)
        if k in self._ret_cache:
            return self._ret_cache[k]
        self._ret_cache[k] = None  # recursion guard
        if depth > 3:
            return None
        ft = self.ftypes(func)
        res = None
        for n in ast.walk(func.node):
            if isinstance(n, ast.Return) and n.value is not None and ft.owner_func(n) is func.node:
                t = ft.type_of(n.value, depth + 1)
                if t is not None:
                    res = t
                    break
        self._ret_cache[k] = res
        return res


class FuncTypes:
    """Flow-insensitive local types of one function, with scoped lambda/comprehension bindings."""

    def __init__(self, table, func):
        self.table = table
        self.repo = table.repo
        self.func = func
        self.parent = {}
        for n in ast.walk(func.node):
            for ch in ast.iter_child_nodes(n):
                self.parent[id(ch)] = n
        self.locals = {}
        self.scope = {}  # id(scope node) -> {name: type}
        self._param_types()
        self._param_types_from_call_sites()
        for _ in range(4):
            before = (dict(self.locals), {k: dict(v) for k, v in self.scope.items()})
            self._pass()
            if before == (self.locals, self.scope):
                break

    def owner_func(self, node):
        n = node
        while id(n) in self.parent:
            n = self.parent[id(n)]
            if isinstance(n, (ast.FunctionDef, ast.Lambda)):
                return n
        return None

    def _param_types(self):
        f = self.func
        doc = ast.get_docstring(f.node) or ""
        doc_types = {}
        for line in doc.splitlines():
            m = _ARG_RE.match(line)
            if m:
                t = self.table.parse_type(m.group(2))
                if t is not None:
                    doc_types.setdefault(m.group(1), t)
        for fn in [n for n in ast.walk(f.node) if isinstance(n, ast.FunctionDef)]:
            a = fn.args
            for i, p in enumerate(a.posonlyargs + a.args + a.kwonlyargs):
                name = p.arg
                if name == "self" and f.cls and fn is f.node:
                    self.locals["self"] = obj(f.cls)
                    continue
                t = None
                if fn is f.node:
                    t = doc_types.get(name)
                    if t is None and f.cls:
                        # __init__-like parameters named after a field
                        t = self.table.field_type(f.cls, name)
                if t is None and name in PARAM_CONVENTION:
                    t = obj(PARAM_CONVENTION[name])
                if t is None and name in LIST_PARAM_CONVENTION:
                    t = ("list", obj(LIST_PARAM_CONVENTION[name]))
                if t is not None:
                    if fn is f.node:
                        self.locals.setdefault(name, t)
                    else:
                        self.scope.setdefault(id(fn), {})[name] = t

    _SITE_BUSY = set()

    def _param_types_from_call_sites(self):
        """A module-level helper that is only called by name: an untyped parameter has the union of the types its call sites pass
        (`_initialize_all(self.worker_list, ...)`, `_initialize_all([self.organization, self.workflow], ...)`)."""
        f = self.func
        if f.cls is not None or getattr(f, "parent", None) is not None or id(f.node) in FuncTypes._SITE_BUSY:
            return
        a = f.node.args
        pos = [x.arg for x in a.posonlyargs + a.args]
        want = [p for p in pos if p not in self.locals]
        if not want or a.vararg or a.kwarg:
            return
        FuncTypes._SITE_BUSY.add(id(f.node))
        try:
            got = {p: [] for p in want}
            for g in self.repo.all_funcs():
                if g.node is f.node:
                    continue
                sites = [c for c in ast.walk(g.node) if isinstance(c, ast.Call) and isinstance(c.func, ast.Name) and c.func.id == f.name]
                if not sites or self.repo.function_for(f.name, g.module) is not f:
                    continue
                gt = self.table.ftypes(g)
                for c in sites:
                    if any(isinstance(x, ast.Starred) for x in c.args) or any(k.arg is None for k in c.keywords):
                        return
                    for p in want:
                        e = c.args[pos.index(p)] if pos.index(p) < len(c.args) else next((k.value for k in c.keywords if k.arg == p), None)
                        got[p].append(gt.type_of(e) if e is not None else None)
            for p, ts in got.items():
                if not ts or any(t is None for t in ts):
                    continue
                t = ts[0] if all(x == ts[0] for x in ts) else None
                if t is None and all(x[0] in ("list", "set", "tuple") for x in ts) and all(elem(x) is not None for x in ts):
                    t = FuncTypes._concat_type([("list", elem(x)) for x in ts], "list")
                elif t is None and all(x[0] in ("obj", "union") for x in ts):
                    flat = []
                    for x in ts:
                        flat.extend(x[1:] if x[0] == "union" else [x])
                    t = ("union",) + tuple(dict.fromkeys(flat))
                if t is not None:
                    self.locals.setdefault(p, t)
        finally:
            FuncTypes._SITE_BUSY.discard(id(f.node))

    def _bind(self, target, t, table):
        if t is None:
            return
        if isinstance(target, ast.Name):
            cur = table.get(target.id)
            if cur is None or (cur[0] in ("list", "set") and cur[1] is None and t[0] == cur[0] and t[1] is not None):
                table[target.id] = t
        elif isinstance(target, (ast.Tuple, ast.List)):
            if t[0] in ("pair", "tuple"):
                for e, et in zip(target.elts, t[1:]):
                    self._bind(e, et, table)

    def _pass(self):
        for n in ast.walk(self.func.node):
            if isinstance(n, ast.Assign):
                t = self.type_of(n.value)
                for tg in n.targets:
                    self._bind(tg, t, self._table_for(n))
            elif isinstance(n, ast.For):
                et = elem(self.type_of(n.iter))
                # loop-scoped binding first (names like `x`, `j`, `w` are re-used by later loops)
                self._bind(n.target, et, self.scope.setdefault(id(n), {}))
                self._bind(n.target, et, self._table_for(n))
            elif isinstance(n, (ast.ListComp, ast.SetComp, ast.GeneratorExp, ast.DictComp)):
                tb = self.scope.setdefault(id(n), {})
                for g in n.generators:
                    self._bind(g.target, elem(self.type_of(g.iter)), tb)
            elif isinstance(n, ast.Call):
                self._bind_lambda_args(n)
                # container locals created empty get their element type from add/append/update/extend
                f = n.func
                if isinstance(f, ast.Attribute) and isinstance(f.value, ast.Name) and n.args \
                        and f.attr in ("add", "append", "update", "extend"):
                    tb = self._table_for(n)
                    cur = tb.get(f.value.id)
                    if cur and cur[0] in ("set", "list") and cur[1] is None:
                        at = self.type_of(n.args[0])
                        et = at if f.attr in ("add", "append") else elem(at)
                        if et is not None:
                            tb[f.value.id] = (cur[0], et)

    def _table_for(self, node):
        """Assignments inside a nested def bind in that def's scope; otherwise function locals."""
        o = self.owner_func(node)
        if o is None or o is self.func.node:
            return self.locals
        return self.scope.setdefault(id(o), {})

    def _bind_lambda_args(self, call):
        fname = call.func.id if isinstance(call.func, ast.Name) else (call.func.attr if isinstance(call.func, ast.Attribute) else None)
        lam, coll = None, None
        if fname in ("filter", "map") and len(call.args) >= 2 and isinstance(call.args[0], ast.Lambda):
            lam, coll = call.args[0], call.args[1]
        elif fname in ("sorted", "max", "min") and call.args:
            for kw in call.keywords:
                if kw.arg == "key" and isinstance(kw.value, ast.Lambda):
                    lam, coll = kw.value, call.args[0]
        elif fname == "sort" and isinstance(call.func, ast.Attribute):
            for kw in call.keywords:
                if kw.arg == "key" and isinstance(kw.value, ast.Lambda):
                    lam, coll = kw.value, call.func.value
        if lam is not None and lam.args.args:
            t = elem(self.type_of(coll))
            if t is not None:
                self.scope.setdefault(id(lam), {}).setdefault(lam.args.args[0].arg, t)

    def lookup(self, name, at):
        n = at
        while n is not None:
            tb = self.scope.get(id(n))
            if tb and name in tb:
                return tb[name]
            n = self.parent.get(id(n))
        return self.locals.get(name)

    def type_of(self, e, depth=0):
        r = self.repo
        if isinstance(e, ast.Name):
            if e.id in r.classes and r.classes[e.id].enum_members is not None:
                return ("enumclass", e.id)
            return self.lookup(e.id, e)
        if isinstance(e, ast.Constant):
            v = e.value
            if isinstance(v, bool):
                return ("prim", "bool")
            if isinstance(v, (int, float)):
                return ("prim", "float")
            if isinstance(v, str):
                return ("prim", "str")
            return None
        if isinstance(e, ast.Attribute):
            en = r.enum_of_member_expr(e)
            if en:
                return ("enum", en[0])
            b = self.type_of(e.value, depth)
            if b and b[0] == "obj":
                return self.table.field_type(b[1], e.attr)
            return None
        if isinstance(e, ast.Subscript):
            b = self.type_of(e.value, depth)
            if b is None:
                return None
            if isinstance(e.slice, ast.Slice):
                return b
            if b[0] == "list":
                return b[1]
            if b[0] in ("pair", "tuple") and isinstance(e.slice, ast.Constant) and isinstance(e.slice.value, int):
                i = e.slice.value
                if 0 <= i < len(b) - 1:
                    return b[1 + i]
            if b[0] == "dict":
                return b[2]
            return None
        if isinstance(e, (ast.ListComp, ast.GeneratorExp, ast.SetComp)):
            t = self.type_of(e.elt, depth)
            return ("set" if isinstance(e, ast.SetComp) else "list", t)
        if isinstance(e, (ast.List, ast.Set, ast.Tuple)) and e.elts and all(isinstance(x, ast.Starred) for x in e.elts):
            # [*a, *b]: the concatenation of the element types
            return self._concat_type([self.type_of(x.value, depth) for x in e.elts], "set" if isinstance(e, ast.Set) else "list")
        if isinstance(e, (ast.List, ast.Set)):
            t = None
            for x in e.elts:
                t = t or self.type_of(x, depth)
            ts = [self.type_of(x, depth) for x in e.elts]
            if len(ts) > 1 and all(x is not None and x[0] == "obj" for x in ts) and len(set(ts)) > 1:
                t = ("union",) + tuple(dict.fromkeys(ts))
            if isinstance(e, ast.List) and len(e.elts) == 2:
                a, b = self.type_of(e.elts[0], depth), self.type_of(e.elts[1], depth)
                if a and b and a[0] == "obj" and b[0] == "enum":
                    return ("pair", a, b)
            return ("set" if isinstance(e, ast.Set) else "list", t)
        if isinstance(e, ast.Tuple):
            return ("tuple",) + tuple(self.type_of(x, depth) for x in e.elts)
        if isinstance(e, ast.IfExp):
            return self.type_of(e.body, depth) or self.type_of(e.orelse, depth)
        if isinstance(e, ast.BinOp):
            lt = self.type_of(e.left, depth)
            if isinstance(e.op, ast.Add) and lt and lt[0] == "list":
                rt = self.type_of(e.right, depth)
                if rt and rt[0] == "list" and rt != lt:
                    return self._concat_type([lt, rt], "list")
            if lt and lt[0] in ("list", "set"):
                return lt
            rt = self.type_of(e.right, depth)
            if rt and rt[0] in ("list", "set"):
                return rt
            return lt or rt
        if isinstance(e, ast.Call):
            return self._call_type(e, depth)
        return None

    @staticmethod
    def _concat_type(ts, kind):
        ets = [elem(t) if t else None for t in ts]
        if not ets or any(t is None for t in ets):
            return None
        if all(t == ets[0] for t in ets):
            return (kind, ets[0])
        flat = []
        for t in ets:
            if t[0] == "union":
                flat.extend(t[1:])
            elif t[0] == "obj":
                flat.append(t)
            else:
                return None
        return (kind, ("union",) + tuple(dict.fromkeys(flat)))

    def _call_type(self, e, depth):
        f = e.func
        r = self.repo
        if isinstance(f, ast.Name):
            n = f.id
            if n in ("list", "sorted", "reversed", "tuple") and e.args:
                t = self.type_of(e.args[0], depth)
                return ("list", elem(t)) if t else None
            if n == "set":
                if not e.args:
                    return ("set", None)
                t = self.type_of(e.args[0], depth)
                return ("set", elem(t)) if t else ("set", None)
            if n == "filter" and len(e.args) == 2:
                t = self.type_of(e.args[1], depth)
                return ("list", elem(t)) if t else None
            if n == "map" and len(e.args) == 2:
                if isinstance(e.args[0], ast.Lambda):
                    self._bind_lambda_args(e)
                    return ("list", self.type_of(e.args[0].body, depth))
                return ("list", None)
            if n in ("max", "min") and e.args:
                t = self.type_of(e.args[0], depth)
                return elem(t) if t and len(e.args) == 1 else None
            if n == "zip" and len(e.args) >= 2:
                return ("list", ("tuple",) + tuple(elem(self.type_of(a, depth)) for a in e.args))
            if n == "enumerate" and e.args:
                t = self.type_of(e.args[0], depth)
                return ("list", ("tuple", ("prim", "int"), elem(t)))
            if n in ("len", "int", "sum", "float", "abs"):
                return ("prim", "float")
            if n in ("str",):
                return ("prim", "str")
            if n in ("all", "any", "isinstance", "bool"):
                return ("prim", "bool")
            if n in r.classes:
                if r.classes[n].enum_members is not None:
                    return ("enum", n)
                return obj(n)
            if n in r.functions and depth < 3:
                return self.table.return_type(r.function_for(n, self.func.module), depth)
            return None
        if isinstance(f, ast.Attribute):
            if f.attr == "chain" and e.args and ast.unparse(f.value) == "itertools":
                ets = [elem(self.type_of(a, depth)) for a in e.args]
                if all(t is not None for t in ets):
                    if all(t == ets[0] for t in ets):
                        return ("list", ets[0])
                    if all(t[0] == "obj" for t in ets):
                        return ("list", ("union",) + tuple(dict.fromkeys(ets)))
                return None
            # itertools.chain.from_iterable(X)
            if f.attr == "from_iterable" and e.args:
                t = self.type_of(e.args[0], depth)
                return ("list", elem(elem(t))) if t else None
            if f.attr == "copy":
                return self.type_of(f.value, depth)
            b = self.type_of(f.value, depth)
            if b and b[0] == "obj":
                m = r.lookup_method(b[1], f.attr)
                if m is not None and depth < 3:
                    return self.table.return_type(m, depth)
            if b and b[0] == "dict" and f.attr == "get":
                return b[2]
            if b and b[0] == "dict" and f.attr == "values":
                return ("list", b[2])
            if isinstance(f.value, ast.Call) and isinstance(f.value.func, ast.Name) and f.value.func.id == "super" and self.func.cls:
                for c in r.mro(self.func.cls)[1:]:
                    m = r.lookup_method(c, f.attr)
                    if m is not None:
                        return self.table.return_type(m, depth)
        return None

    # -- call resolution ---------------------------------------------------------------------
    def method_aliases(self):
        """local name -> Attribute node, for names bound exactly once (plain assignment) to `<expr>.<name>`."""
        if getattr(self, "_maliases", None) is None:
            counts, val = {}, {}
            for n in ast.walk(self.func.node):
                if isinstance(n, ast.Assign):
                    for t in n.targets:
                        for x in ast.walk(t):
                            if isinstance(x, ast.Name):
                                counts[x.id] = counts.get(x.id, 0) + 1
                                if x is t:
                                    val[x.id] = n.value
                elif isinstance(n, (ast.For, ast.AugAssign, ast.AnnAssign, ast.NamedExpr)):
                    for x in ast.walk(n.target):
                        if isinstance(x, ast.Name):
                            counts[x.id] = counts.get(x.id, 0) + 2
                elif isinstance(n, ast.arg):
                    counts[n.arg] = counts.get(n.arg, 0) + 2
            self._maliases = {k: v for k, v in val.items() if counts.get(k) == 1 and
                              (isinstance(v, ast.Attribute) or (isinstance(v, ast.IfExp) and isinstance(v.body, ast.Attribute) and isinstance(v.orelse, ast.Attribute)))}
            # a loop variable (component) over a literal table whose entries are bound methods:  for st, check in ((A, self.f), (B, self.g))
            for n in ast.walk(self.func.node):
                if isinstance(n, (ast.For, ast.comprehension)):
                    it = n.iter
                    if isinstance(it, ast.Name) and counts.get(it.id) == 1 and isinstance(val.get(it.id), (ast.Tuple, ast.List)):
                        it = val[it.id]
                    if not isinstance(it, (ast.Tuple, ast.List)):
                        continue
                    cands = {}
                    for row in it.elts:
                        if isinstance(n.target, ast.Name) and isinstance(row, ast.Attribute):
                            cands.setdefault(n.target.id, []).append(row)
                        elif isinstance(n.target, (ast.Tuple, ast.List)) and isinstance(row, (ast.Tuple, ast.List)) and len(row.elts) == len(n.target.elts):
                            for tg, el in zip(n.target.elts, row.elts):
                                if isinstance(tg, ast.Name) and isinstance(el, ast.Attribute):
                                    cands.setdefault(tg.id, []).append(el)
                    for nm, lst in cands.items():
                        if counts.get(nm, 0) == 2 and nm not in self._maliases:   # (bound by this loop only)
                            self._maliases[nm] = lst
        return self._maliases

    def resolve_call(self, call):
        """-> (list of FuncInfo, resolved: bool).  Unresolved method calls return every class
        defining that method name (over-approximation) with resolved=False; calls that are
        not into the package return ([], True)."""
        f = call.func
        r = self.repo
        if isinstance(f, ast.Name):
            if f.id in r.functions:
                return [r.function_for(f.id, self.func.module)], True
            if f.id in r.classes and r.classes[f.id].enum_members is None:
                m = r.lookup_method(f.id, "__init__")
                return ([m] if m else []), True
            # nested def (of this function or of an enclosing one)
            host = self.func
            while host is not None:
                for n in ast.walk(host.node):
                    if isinstance(n, ast.FunctionDef) and n is not host.node and n.name == f.id:
                        from .loader import FuncInfo
                        return [FuncInfo(n.name, n, host.cls, host.module, parent=host)], True
                host = getattr(host, "parent", None)
            # local alias of a bound method:  `get = self.workflow.get_task_list` ... `get(...)`
            al = self.method_aliases().get(f.id)
            if al is not None:
                out, res = [], True
                for a in ([al.body, al.orelse] if isinstance(al, ast.IfExp) else (al if isinstance(al, list) else [al])):   # `f = self.a if c else self.b`: either
                    syn = ast.Call(func=a, args=call.args, keywords=call.keywords)
                    ast.copy_location(syn, call)
                    cs, r = self.resolve_call(syn)
                    out.extend(c for c in cs if c not in out)
                    res = res and r
                return out, res
            return [], True
        if isinstance(f, ast.Attribute):
            if isinstance(f.value, ast.Call) and isinstance(f.value.func, ast.Name) and f.value.func.id == "super" and self.func.cls:
                for c in r.mro(self.func.cls)[1:]:
                    m = r.lookup_method(c, f.attr)
                    if m is not None:
                        return [m], True
                return [], True
            if isinstance(f.value, ast.Name) and f.value.id in r.classes and r.classes[f.value.id].enum_members is None \
                    and self.lookup(f.value.id, f.value) is None:
                # unbound call through the class: `BaseTask.method(obj, ...)`
                m = r.lookup_method(f.value.id, f.attr)
                return ([m] if m else []), True
            b = self.type_of(f.value)
            if b and b[0] == "obj":
                m = r.lookup_method(b[1], f.attr)
                if m is not None:
                    out = [m]
                    # dynamic dispatch: subclasses overriding the method
                    for sc in r.subclasses(b[1]):
                        if sc != b[1] and f.attr in r.classes[sc].methods:
                            out.append(r.classes[sc].methods[f.attr])
                    return out, True
                return [], True
            if b and b[0] == "union":
                out = []
                for m0 in b[1:]:
                    m = r.lookup_method(m0[1], f.attr)
                    if m is not None and m not in out:
                        out.append(m)
                        for sc in r.subclasses(m0[1]):
                            if sc != m0[1] and f.attr in r.classes[sc].methods and r.classes[sc].methods[f.attr] not in out:
                                out.append(r.classes[sc].methods[f.attr])
                return out, True
            if b is not None:
                return [], True  # list/set/dict/prim method: not into the package
            cands = []
            name = f.attr
            for c in r.classes_defining(name):
                cands.append(r.classes[c].methods[name])
            mm = re.match(r"^_(\w+?)(__\w+)$", name)
            if mm and mm.group(1) in r.classes and mm.group(2) in r.classes[mm.group(1)].methods:
                cands.append(r.classes[mm.group(1)].methods[mm.group(2)])
            if not cands:
                return [], True
            return cands, False
        return [], True
