"""Per-function effect sets over (Class, attribute), the call graph, and transitive closures."""
import ast

from .errors import AnalysisError

LIST_MUTATORS = {"append", "extend", "insert", "pop", "remove", "clear", "sort", "reverse"}
SET_MUTATORS = {"add", "update", "discard", "difference_update", "intersection_update"}
DICT_MUTATORS = {"update", "setdefault", "pop", "popitem", "clear"}
MUTATORS = LIST_MUTATORS | SET_MUTATORS | DICT_MUTATORS


class Effect:
    __slots__ = ("kind", "cls", "attr", "node", "recv", "op", "value", "func", "stmt")

    def __init__(self, kind, cls, attr, node, recv, func, op=None, value=None, stmt=None):
        self.kind = kind  # 'store' | 'mut' | 'read' | 'del'
        self.cls = cls
        self.attr = attr
        self.node = node
        self.recv = recv
        self.op = op  # mutator name, 'aug', 'setitem'
        self.value = value
        self.func = func
        self.stmt = stmt

    @property
    def loc(self):
        return self.func.loc(self.node)

    def key(self):
        return (self.cls, self.attr)

    def __repr__(self):
        return f"<{self.kind} {self.cls}.{self.attr} {self.op or ''} @{self.loc}>"


class CallSite:
    __slots__ = ("node", "callees", "resolved", "func")

    def __init__(self, node, callees, resolved, func):
        self.node = node
        self.callees = callees
        self.resolved = resolved
        self.func = func


def static_values(func, name, at, depth=0):
    """The expressions a local Name can stand for at node `at`, when that is decided by literal tables: a loop variable over a
    literal tuple/list (directly, through a name bound once, or one column of unpacked rows), or a name bound once.  None when
    not statically enumerable."""
    if depth > 4:
        return None
    binders = []
    for st in ast.walk(func.node):
        if isinstance(st, (ast.For, ast.comprehension)):
            pos = _target_path(st.target, name.id)
            if pos is not None:
                binders.append((st, pos))
        elif isinstance(st, ast.Assign):
            for t in st.targets:
                pos = _target_path(t, name.id)
                if pos is not None:
                    binders.append((st, pos))
        elif isinstance(st, (ast.AugAssign, ast.AnnAssign, ast.NamedExpr)) and isinstance(st.target, ast.Name) and st.target.id == name.id:
            return None
    a = func.node.args
    if any(x.arg == name.id for x in a.posonlyargs + a.args + a.kwonlyargs) or (a.vararg and a.vararg.arg == name.id) or (a.kwarg and a.kwarg.arg == name.id):
        parent = getattr(func, "parent", None)
        if binders:
            return None
        if parent is None:
            return _module_param_values(func, name.id, depth) if func.cls is None else None
        return _nested_param_values(parent.node, func.node, name.id)
    if not binders:
        # a parameter of a nested def (the enclosing function is analysed as a whole, nested bodies included)
        for d in ast.walk(func.node):
            if isinstance(d, ast.FunctionDef) and d is not func.node:
                da = d.args
                if any(x.arg == name.id for x in da.posonlyargs + da.args) or (da.vararg and da.vararg.arg == name.id):
                    if any(x is at for x in ast.walk(d)) or at is None:
                        return _nested_param_values(func.node, d, name.id)
        # a module-level constant bound once
        defs = [st.value for st in func.module.tree.body if isinstance(st, ast.Assign) and any(isinstance(t, ast.Name) and t.id == name.id for t in st.targets)]
        return [defs[0]] if len(defs) == 1 else None
    if len(binders) != 1:
        # several loops may reuse a name: the enclosing one decides
        enclosing = [(st, pos) for st, pos in binders if isinstance(st, ast.For) and any(x is at for x in ast.walk(st))]
        if len(enclosing) != 1:
            return None
        binders = enclosing
    st, pos = binders[0]
    if isinstance(st, ast.Assign):
        srcs = [st.value]
    else:
        srcs = _elements(func, st.iter, st, depth)
        if srcs is None:
            return None
    out = []
    for e in srcs:
        for i in pos:
            if not isinstance(e, (ast.Tuple, ast.List)) or i >= len(e.elts) or any(isinstance(x, ast.Starred) for x in e.elts):
                return None
            e = e.elts[i]
        out.append(e)
    return out


def _nested_param_values(parent_node, fn, pname):
    """What the call sites inside `parent_node` pass for parameter `pname` of the nested def `fn` (only called by name)."""
    a = fn.args
    uses = [n for n in ast.walk(parent_node) if isinstance(n, ast.Name) and n.id == fn.name and isinstance(n.ctx, ast.Load)]
    calls = [c for c in ast.walk(parent_node) if isinstance(c, ast.Call) and isinstance(c.func, ast.Name) and c.func.id == fn.name]
    if not calls or len(uses) != len(calls):
        return None   # the function also escapes as a value
    pos = [x.arg for x in a.posonlyargs + a.args]
    out = []
    for c in calls:
        if any(isinstance(x, ast.Starred) for x in c.args) or any(k.arg is None for k in c.keywords):
            return None
        if a.vararg and a.vararg.arg == pname:
            out.append(ast.copy_location(ast.Tuple(elts=list(c.args[len(pos):]), ctx=ast.Load()), c))
        elif pname in pos and pos.index(pname) < len(c.args):
            out.append(c.args[pos.index(pname)])
        else:
            kw = next((k.value for k in c.keywords if k.arg == pname), None)
            if kw is None:
                return None
            out.append(kw)
    return out


_REPO = [None]
_BY_CALLER = {}   # (id(helper node), parameter) -> {caller qualname: literal expressions it passes}


def callers_passing(func, attr_name):
    """For a module-level helper whose `setattr(obj, <parameter>, ...)` stands for several attributes: the qualnames of the callers
    that pass `attr_name` (directly or inside a tuple) for any of its parameters.  None when the helper's call sites are not known."""
    found = False
    out = set()
    for (fid, _p), by in _BY_CALLER.items():
        if fid != id(func.node):
            continue
        found = True
        for q, lits in by.items():
            for l in lits:
                if any(isinstance(x, ast.Constant) and x.value == attr_name for x in ast.walk(l)):
                    out.add(q)
    return out if found else None


def _module_param_values(func, pname, depth):
    """What the call sites in the package pass for parameter `pname` of the module-level function `func` (a shared helper that is
    only ever called by name), resolved to literals in the *caller's* context.  None when some call site is not enumerable."""
    repo = _REPO[0]
    if repo is None or depth > 3:
        return None
    a = func.node.args
    pos = [x.arg for x in a.posonlyargs + a.args]
    out = []
    ncalls = 0
    for g in repo.all_funcs():
        if g.node is func.node:
            continue
        for c in ast.walk(g.node):
            if isinstance(c, ast.Name) and c.id == func.name and isinstance(c.ctx, ast.Load):
                ncalls -= 1   # balanced by the call below; a use as a value leaves the count negative
            if not (isinstance(c, ast.Call) and isinstance(c.func, ast.Name) and c.func.id == func.name):
                continue
            if repo.function_for(func.name, g.module) is not func:
                continue
            ncalls += 2
            if any(isinstance(x, ast.Starred) for x in c.args) or any(k.arg is None for k in c.keywords):
                return None
            if a.vararg and a.vararg.arg == pname:
                e = ast.copy_location(ast.Tuple(elts=list(c.args[len(pos):]), ctx=ast.Load()), c)
            elif pname in pos and pos.index(pname) < len(c.args):
                e = c.args[pos.index(pname)]
            else:
                e = next((k.value for k in c.keywords if k.arg == pname), None)
                if e is None:
                    d = dict(zip(pos[len(pos) - len(a.defaults):], a.defaults)).get(pname)
                    if d is None:
                        return None
                    e = d
            lits = _literal_in(g, e, c, depth + 1)
            if lits is None:
                return None
            out.extend(lits)
            _BY_CALLER.setdefault((id(func.node), pname), {}).setdefault(g.qualname, []).extend(lits)
    # every load of the name is a call (the counts cancel): the helper does not escape as a value
    uses = sum(1 for g in repo.all_funcs() if g.node is not func.node for n in ast.walk(g.node)
               if isinstance(n, ast.Name) and n.id == func.name and isinstance(n.ctx, ast.Load) and repo.function_for(func.name, g.module) is func)
    calls = sum(1 for g in repo.all_funcs() if g.node is not func.node for n in ast.walk(g.node)
                if isinstance(n, ast.Call) and isinstance(n.func, ast.Name) and n.func.id == func.name and repo.function_for(func.name, g.module) is func)
    if not calls or uses != calls:
        return None
    return out


def _literal_in(g, e, at, depth):
    """`e`, written in function `g`, as a list of literal expressions (constants, or tuples/lists of constants)."""
    if isinstance(e, ast.Constant):
        return [e]
    if isinstance(e, (ast.Tuple, ast.List)) and not any(isinstance(x, ast.Starred) for x in e.elts):
        parts = []
        for x in e.elts:
            sub = _literal_in(g, x, at, depth)
            if sub is None or len(sub) != 1:
                return None
            parts.append(sub[0])
        return [ast.copy_location(ast.Tuple(elts=parts, ctx=ast.Load()), e)]
    if isinstance(e, ast.Name) and depth <= 4:
        vals = static_values(g, e, at, depth + 1)
        if vals is None:
            return None
        out = []
        for v in vals:
            sub = _literal_in(g, v, at, depth + 1)
            if sub is None:
                return None
            out.extend(sub)
        return out
    return None


def _target_path(target, ident):
    if isinstance(target, ast.Name):
        return () if target.id == ident else None
    if isinstance(target, (ast.Tuple, ast.List)):
        for i, t in enumerate(target.elts):
            p = _target_path(t, ident)
            if p is not None:
                return (i,) + p
    return None


def _elements(func, it, at, depth):
    if isinstance(it, (ast.Tuple, ast.List)):
        return None if any(isinstance(x, ast.Starred) for x in it.elts) else list(it.elts)
    if isinstance(it, ast.Name):
        vals = static_values(func, it, at, depth + 1)
        if vals is None:
            return None
        out = []
        for v in vals:
            els = _elements(func, v, at, depth + 1) if isinstance(v, (ast.Tuple, ast.List, ast.Name)) and depth < 4 else None
            if els is None:
                return None
            out += els
        return out
    return None


class Effects:
    def __init__(self, repo, types):
        self.repo = repo
        self.types = types
        self.by_func = {}
        self.calls = {}
        self.stats = {"calls": 0, "resolved": 0, "unresolved": 0, "external": 0}
        _REPO[0] = repo
        for f in repo.all_funcs():
            self._analyse(f)

    def _analyse(self, func):
        ft = self.types.ftypes(func)
        effs, calls = [], []
        aliases = self._aliases(func, ft)

        def recv_info(expr):
            """expr is the object whose attribute `attr` is touched: returns class or None."""
            t = ft.type_of(expr)
            return t[1] if t and t[0] == "obj" else None

        def attr_targets(e):
            """Resolve `x.a` or an alias name to [(cls, attr, recv_expr)] (a loop variable over a literal table of attributes
            has one candidate per row)."""
            if isinstance(e, ast.Attribute):
                return [(recv_info(e.value), e.attr, e.value)]
            if isinstance(e, ast.Name) and e.id in aliases:
                return [(recv_info(a.value), a.attr, a.value) for a in aliases[e.id]]
            if isinstance(e, ast.Call) and isinstance(e.func, ast.Name) and e.func.id == "getattr" and len(e.args) == 2:
                # getattr(x, <name>).append(...): the attribute named by a constant or by an enumerable name
                a = e.args[1]
                names = [a.value] if isinstance(a, ast.Constant) and isinstance(a.value, str) else None
                if names is None and isinstance(a, ast.Name):
                    vals = static_values(func, a, e)
                    if vals and all(isinstance(x, ast.Constant) and isinstance(x.value, str) for x in vals):
                        names = sorted({x.value for x in vals})
                if names:
                    return [(recv_info(e.args[0]), nm, e.args[0]) for nm in names]
            return []

        method_func_attrs = set()
        for n in ast.walk(func.node):
            if isinstance(n, ast.Call) and isinstance(n.func, ast.Attribute):
                method_func_attrs.add(id(n.func))

        for n in ast.walk(func.node):
            if isinstance(n, (ast.Assign, ast.AnnAssign)):
                targets = n.targets if isinstance(n, ast.Assign) else [n.target]
                for tg in targets:
                    for t in (tg.elts if isinstance(tg, (ast.Tuple, ast.List)) else [tg]):
                        if isinstance(t, ast.Attribute):
                            effs.append(Effect("store", recv_info(t.value), t.attr, n, t.value, func, value=n.value, stmt=n))
                        elif isinstance(t, ast.Subscript):
                            for at in attr_targets(t.value):
                                effs.append(Effect("mut", at[0], at[1], n, at[2], func, op="setitem", value=n.value, stmt=n))
            elif isinstance(n, ast.AugAssign):
                t = n.target
                if isinstance(t, ast.Attribute):
                    effs.append(Effect("store", recv_info(t.value), t.attr, n, t.value, func, op="aug", value=n.value, stmt=n))
                elif isinstance(t, ast.Subscript):
                    for at in attr_targets(t.value):
                        effs.append(Effect("mut", at[0], at[1], n, at[2], func, op="setitem", value=n.value, stmt=n))
                elif isinstance(t, ast.Name) and t.id in aliases and isinstance(n.op, ast.Add):
                    for a in aliases[t.id]:
                        # `alias += [...]` mutates a list in place
                        effs.append(Effect("mut", recv_info(a.value), a.attr, n, a.value, func, op="aug", value=n.value, stmt=n))
            elif isinstance(n, ast.Delete):
                for t in n.targets:
                    for tt in (t.elts if isinstance(t, (ast.Tuple, ast.List)) else [t]):
                        if isinstance(tt, ast.Attribute):
                            effs.append(Effect("del", recv_info(tt.value), tt.attr, n, tt.value, func, stmt=n))
                        elif isinstance(tt, ast.Subscript):
                            for at in attr_targets(tt.value):
                                effs.append(Effect("mut", at[0], at[1], n, at[2], func, op="delitem", stmt=n))
            elif isinstance(n, ast.Call):
                if isinstance(n.func, ast.Attribute) and n.func.attr in MUTATORS:
                    for at in attr_targets(n.func.value):
                        effs.append(Effect("mut", at[0], at[1], n, at[2], func, op=n.func.attr, value=n.args, stmt=n))
                if isinstance(n.func, ast.Name) and n.func.id in ("setattr", "getattr") and len(n.args) >= 2:
                    a = n.args[1]
                    names = [a.value] if isinstance(a, ast.Constant) and isinstance(a.value, str) else None
                    if names is None and isinstance(a, ast.Name):
                        # `for name in ("a", "b"): setattr(x, name, ...)`: a literal table enumerates the attributes (possibly
                        # named first, nested, or unpacked row by row)
                        vals = static_values(func, a, n)
                        if vals and all(isinstance(x, ast.Constant) and isinstance(x.value, str) for x in vals):
                            names = sorted({x.value for x in vals})
                    for nm in (names or ["*"]):
                        if n.func.id == "setattr":
                            effs.append(Effect("store", recv_info(n.args[0]), nm, n, n.args[0], func, op="setattr", value=n.args[2] if len(n.args) > 2 else None, stmt=n))
                        elif nm != "*":
                            effs.append(Effect("read", recv_info(n.args[0]), nm, n, n.args[0], func))
                # a function handed over as a value (sorted(..., key=helper), map(helper, ...)) is called by the receiver
                for av in list(n.args) + [kw.value for kw in n.keywords]:
                    if isinstance(av, ast.Name) and av.id in self.repo.functions and ft.lookup(av.id, av) is None:
                        calls.append(CallSite(n, [self.repo.function_for(av.id, func.module)], True, func))
                callees, resolved = ft.resolve_call(n)
                self.stats["calls"] += 1
                if callees:
                    self.stats["resolved" if resolved else "unresolved"] += 1
                    calls.append(CallSite(n, callees, resolved, func))
                else:
                    self.stats["external"] += 1
            elif isinstance(n, ast.Attribute) and isinstance(n.ctx, ast.Load) and id(n) not in method_func_attrs:
                c = recv_info(n.value)
                if c is not None and self.types.field_type(c, n.attr) is None:
                    m = self.repo.lookup_method(c, n.attr)
                    if m is not None:
                        # a bound method taken as a value (handed to a helper, put into a table): whoever receives it calls it
                        calls.append(CallSite(n, [m], True, func))
                if c is not None or not isinstance(n.value, ast.Name) or n.value.id not in self.repo.enums:
                    effs.append(Effect("read", c, n.attr, n, n.value, func))
        # module-level tables the function consults (e.g. a (mode, key lambda, reverse) table): what the lambdas in them read is
        # read on behalf of the function
        mod = func.module
        consulted = {n.id for n in ast.walk(func.node) if isinstance(n, ast.Name) and isinstance(n.ctx, ast.Load) and n.id in getattr(mod, "toplevel_names", ())}
        top = {}
        for st0 in mod.tree.body:
            if isinstance(st0, ast.Assign):
                for t in st0.targets:
                    if isinstance(t, ast.Name):
                        top[t.id] = st0
        done, todo = set(), sorted(consulted)
        while todo:
            nm = todo.pop()
            if nm in done or nm not in top:
                continue
            done.add(nm)
            st0 = top[nm]
            for lam in ast.walk(st0.value):
                if isinstance(lam, ast.Lambda):
                    for n in ast.walk(lam.body):
                        if isinstance(n, ast.Attribute) and isinstance(n.ctx, ast.Load):
                            effs.append(Effect("read", None, n.attr, n, n.value, func))
                elif isinstance(lam, ast.Call) and ast.unparse(lam.func) in ("attrgetter", "operator.attrgetter"):
                    # attrgetter("a.b") reads .a and .b of whatever it is applied to
                    for a0 in lam.args:
                        if isinstance(a0, ast.Constant) and isinstance(a0.value, str):
                            for seg in a0.value.split("."):
                                effs.append(Effect("read", None, seg, lam, lam, func))
                elif isinstance(lam, ast.Name) and lam.id in self.repo.functions and lam.id not in consulted:
                    calls.append(CallSite(st0, [self.repo.function_for(lam.id, func.module)], True, func))
                elif isinstance(lam, ast.Name) and lam.id in top and lam.id not in done:
                    todo.append(lam.id)   # a table entry that is itself a module-level name (a key bound first, then listed)
        self.by_func[id(func.node)] = effs
        self.calls[id(func.node)] = calls

    @staticmethod
    def _aliases(func, ft):
        """local name -> [Attribute nodes]: a name bound exactly once to `<expr>.<attr>`, or a loop variable (component) over a
        literal table whose corresponding elements are attributes (`for rec, live in ((self.a_record, self.a), ...)`)."""
        counts, val = {}, {}
        for n in ast.walk(func.node):
            if isinstance(n, ast.Assign):
                for t in n.targets:
                    if isinstance(t, ast.Name):
                        counts[t.id] = counts.get(t.id, 0) + 1
                        val[t.id] = n.value
                    elif isinstance(t, (ast.Tuple, ast.List)):
                        # `a, b = x.p, x.q`: element-wise, like two assignments
                        pairs = zip(t.elts, n.value.elts) if isinstance(n.value, (ast.Tuple, ast.List)) and len(n.value.elts) == len(t.elts) else ((x, None) for x in t.elts)
                        for tg, v in pairs:
                            for x in ast.walk(tg):
                                if isinstance(x, ast.Name) and isinstance(x.ctx, ast.Store):
                                    counts[x.id] = counts.get(x.id, 0) + 1
                                    if x is tg and v is not None:
                                        val[x.id] = v
                                    else:
                                        counts[x.id] += 1   # bound by unpacking something that is not written out: not a pure alias
            elif isinstance(n, ast.AugAssign):
                for x in ast.walk(n.target):
                    if isinstance(x, ast.Name):
                        counts[x.id] = counts.get(x.id, 0) + 2
        out = {k: [v] for k, v in val.items() if counts.get(k) == 1 and isinstance(v, ast.Attribute)}
        loops = {}
        for n in ast.walk(func.node):
            if isinstance(n, (ast.For, ast.comprehension)):
                names = [x.id for x in ast.walk(n.target) if isinstance(x, ast.Name)]
                cands = {}
                it = n.iter
                if isinstance(it, ast.Name) and counts.get(it.id) == 1 and isinstance(val.get(it.id), (ast.Tuple, ast.List)):
                    it = val[it.id]     # the table was given a name first
                if isinstance(it, (ast.Tuple, ast.List)):
                    for row in it.elts:
                        if isinstance(n.target, ast.Name) and isinstance(row, ast.Attribute):
                            cands.setdefault(n.target.id, []).append(row)
                        elif isinstance(n.target, (ast.Tuple, ast.List)) and isinstance(row, (ast.Tuple, ast.List)) and len(row.elts) == len(n.target.elts):
                            for tg, el in zip(n.target.elts, row.elts):
                                if isinstance(tg, ast.Name) and isinstance(el, ast.Attribute):
                                    cands.setdefault(tg.id, []).append(el)
                for nm in names:
                    loops.setdefault(nm, []).append(cands.get(nm))
        for nm, lst in loops.items():
            if nm in counts or nm in out:
                out.pop(nm, None)   # also assigned elsewhere: not a pure alias
                continue
            if len(lst) == 1 and lst[0]:
                out[nm] = lst[0]
        return out

    # -- queries -------------------------------------------------------------------------
    def of(self, func):
        return self.by_func.get(id(func.node), [])

    def calls_of(self, func):
        return self.calls.get(id(func.node), [])

    def reachable(self, roots, precise=True, stop=None):
        """Functions reachable from `roots` (FuncInfo list) via the call graph.
        precise=True follows only resolved edges; False adds the name-based over-approximation."""
        seen, order, todo = {}, [], list(roots)
        while todo:
            f = todo.pop()
            k = id(f.node)
            if k in seen:
                continue
            seen[k] = f
            order.append(f)
            if stop and stop(f):
                continue
            for cs in self.calls_of(f):
                if cs.resolved or not precise:
                    todo.extend(cs.callees)
        return order

    def reachable_from_stmts(self, func, stmts, precise=True):
        """Functions reachable from the calls that occur syntactically inside `stmts` of `func`."""
        inside = set()
        for s in stmts:
            for n in ast.walk(s):
                inside.add(id(n))
        roots = []
        for cs in self.calls_of(func):
            if id(cs.node) in inside and (cs.resolved or not precise):
                roots.extend(cs.callees)
        return self.reachable(roots, precise)

    def writers(self, cls, attr, funcs=None, kinds=("store", "mut", "del"), include_unresolved=True):
        out = []
        mro_ok = set(self.repo.subclasses(cls)) | set(self.repo.mro(cls))
        for f in (funcs if funcs is not None else self.repo.all_funcs()):
            for e in self.of(f):
                if e.kind in kinds and e.attr == attr:
                    if e.cls in mro_ok or (e.cls is None and include_unresolved):
                        out.append(e)
        return out

    def transitive(self, func, precise=True, kinds=("store", "mut", "del")):
        out = []
        for f in self.reachable([func], precise):
            out.extend(e for e in self.of(f) if e.kind in kinds)
        return out
