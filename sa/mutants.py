"""Seeded faults and benign variants for the self-test (textual edits, each must match exactly once)."""
WF = "pDESy/model/base_workflow.py"
PJ = "pDESy/model/base_project.py"
TK = "pDESy/model/base_task.py"
WK = "pDESy/model/base_worker.py"
FA = "pDESy/model/base_facility.py"
TM = "pDESy/model/base_team.py"
WP = "pDESy/model/base_workplace.py"
OG = "pDESy/model/base_organization.py"
CP = "pDESy/model/base_component.py"
PD = "pDESy/model/base_product.py"
PR = "pDESy/model/base_priority_rule.py"
SP = "pDESy/model/base_subproject_task.py"

MUTANTS = []
BENIGN = []


def M(id, prop, rule, *edits):
    es = [tuple(edits[i:i + 3]) for i in range(0, len(edits), 3)]
    MUTANTS.append({"id": id, "prop": prop, "rule": rule, "edits": es})


def B(id, props, *edits):
    es = [tuple(edits[i:i + 3]) for i in range(0, len(edits), 3)]
    BENIGN.append({"id": id, "props": props, "edits": es})


# NOTE: snippets are in ast.unparse() normal form (single quotes, no line wrapping, 4-space indents).
# ---------------------------------------------------------------------------------------- C01
M("C01-fs-accepts-working", "C01", "R1.2", WF,
  """                if dependency == BaseTaskDependency.FS:
                    if input_task.state == BaseTaskState.FINISHED:
                        ready = True""",
  """                if dependency == BaseTaskDependency.FS:
                    if input_task.state == BaseTaskState.FINISHED or input_task.state == BaseTaskState.WORKING:
                        ready = True""")
M("C01-gate-break-deleted", "C01", "R1.2", WF,
  """                        ready = True
                    else:
                        ready = False
                        break
                elif dependency == BaseTaskDependency.SS:""",
  """                        ready = True
                    else:
                        ready = False
                elif dependency == BaseTaskDependency.SS:""")
M("C01-working-from-none", "C01", "R1.1", WF,
  """            if task.state == BaseTaskState.READY:
                task.state = BaseTaskState.WORKING""",
  """            if task.state != BaseTaskState.FINISHED:
                task.state = BaseTaskState.WORKING""")
M("C01-finish-candidates-any-state", "C01", "R1.1", WF,
  """lambda task: task.state == BaseTaskState.WORKING and task.remaining_work_amount < 0.0 + error_tol""",
  """lambda task: task.remaining_work_amount < 0.0 + error_tol""")
M("C01-gate-iterates-outputs", "C01", "R1.2", WF,
  """            input_task_list = none_task.input_task_list""",
  """            input_task_list = none_task.output_task_list""")
M("C01-absence-logs-working", "C01", "R1.3", TK,
  """        elif self.state == BaseTaskState.WORKING:
            self.state_record_list.append(BaseTaskState.READY)""",
  """        elif self.state == BaseTaskState.WORKING:
            self.state_record_list.append(BaseTaskState.WORKING)""")
M("C01-extra-state-writer", "C01", "R1.1", TK,
  """            self.remaining_work_amount = self.remaining_work_amount - work_amount_progress""",
  """            self.remaining_work_amount = self.remaining_work_amount - work_amount_progress
            if self.remaining_work_amount < 0:
                self.state = BaseTaskState.READY""")
M("C01-ff-gate-dropped", "C01", "R1.2", WF,
  """                    elif dependency == BaseTaskDependency.FF:
                        if input_task.state == BaseTaskState.FINISHED:
                            finished = True
                        else:
                            finished = False
                            break""",
  """                    elif dependency == BaseTaskDependency.FF:
                        pass""")

# ---------------------------------------------------------------------------------------- C05
M("C05-time-gt", "C05", "R5.1", PJ, "            if self.time >= max_time:", "            if self.time > max_time:")
M("C05-status-swapped", "C05", "R5.2", PJ,
  """                self.status = BaseProjectStatus.FINISHED_SUCCESS
                return""",
  """                self.status = BaseProjectStatus.FINISHED_FAILURE
                return""")
M("C05-all-to-any", "C05", "R5.2", PJ,
  "            if all((state == BaseTaskState.FINISHED for state in state_list)):",
  "            if any((state == BaseTaskState.FINISHED for state in state_list)):")
M("C05-ss-narrow-again", "C05", "R5.3", WF,
  """                elif dependency == BaseTaskDependency.SS:
                    if input_task.state == BaseTaskState.WORKING or input_task.state == BaseTaskState.FINISHED:""",
  """                elif dependency == BaseTaskDependency.SS:
                    if input_task.state == BaseTaskState.WORKING:""")
M("C05-time-check-after-step", "C05", "R5.1", PJ,
  """            if self.time >= max_time:
                self.status = BaseProjectStatus.FINISHED_FAILURE
                warnings.warn('Time Over! Please check your simulation model or increase max_time value')
                return
""",
  """""",
  PJ,
  """            self.time = self.time + unit_time
""",
  """            self.time = self.time + unit_time
            if self.time > max_time:
                self.status = BaseProjectStatus.FINISHED_FAILURE
                return
""")
M("C05-unserved-task-works", "C05", "R5.4", WF,
  """ready_and_assigned_task_set = set(filter(lambda task: task.state == BaseTaskState.READY and len(task.allocated_worker_list) > 0, self.task_list))""",
  """ready_and_assigned_task_set = set(filter(lambda task: task.state == BaseTaskState.READY, self.task_list))""")
M("C05-time-double-increment", "C05", "R5.1", PJ,
  """            self.__record(working=working)
""",
  """            self.__record(working=working)
            if not working:
                self.time = self.time + unit_time
""")

# ---------------------------------------------------------------------------------------- C07
M("C07-only-working-false", "C07", "R7.3", PJ,
  "                cost_this_time = self.organization.add_labor_cost(only_working=True)",
  "                cost_this_time = self.organization.add_labor_cost(only_working=False)")
M("C07-free-workers-in-sum", "C07", "R7.1", TM,
  """                else:
                    worker.cost_list.append(0.0)""",
  """                else:
                    worker.cost_list.append(0.0)
                    cost_this_time += worker.cost_per_time""")
M("C07-org-skips-workplaces", "C07", "R7.2", OG,
  """            cost_this_time += workplace.add_labor_cost(only_working=only_working, add_zero_to_all_facilities=add_zero_to_all_facilities)""",
  """            workplace.add_labor_cost(only_working=only_working, add_zero_to_all_facilities=add_zero_to_all_facilities)""")
M("C07-cost-before-working-check", "C07", "R7.4", PJ,
  """            self.workflow.check_state(self.time, BaseTaskState.WORKING)
            self.product.check_state()
            if working:
                cost_this_time = self.organization.add_labor_cost(only_working=True)
            else:
                cost_this_time = self.organization.add_labor_cost(add_zero_to_all_workers=True, add_zero_to_all_facilities=True)
            self.cost_list.append(cost_this_time)
""",
  """            if working:
                cost_this_time = self.organization.add_labor_cost(only_working=True)
            else:
                cost_this_time = self.organization.add_labor_cost(add_zero_to_all_workers=True, add_zero_to_all_facilities=True)
            self.cost_list.append(cost_this_time)
            self.workflow.check_state(self.time, BaseTaskState.WORKING)
            self.product.check_state()
""")
M("C07-absence-charges-facilities", "C07", "R7.3", PJ,
  "self.organization.add_labor_cost(add_zero_to_all_workers=True, add_zero_to_all_facilities=True)",
  "self.organization.add_labor_cost(add_zero_to_all_workers=True)")
M("C07-facility-charged-when-absent", "C07", "R7.3", WP,
  "                if facility.state == BaseFacilityState.WORKING:\n                    facility.cost_list.append(facility.cost_per_time)",
  "                if facility.state != BaseFacilityState.FREE:\n                    facility.cost_list.append(facility.cost_per_time)")
M("C07-project-appends-other", "C07", "R7.2", PJ,
  "            self.cost_list.append(cost_this_time)",
  "            self.cost_list.append(cost_this_time if working else 0)")

# ---------------------------------------------------------------------------------------- C14
M("C14-any-to-all-working", "C14", "R14.1", CP,
  """        if any(map(lambda t: t.state == BaseTaskState.WORKING, self.targeted_task_list)):
            self.state = BaseComponentState.WORKING""",
  """        if all(map(lambda t: t.state == BaseTaskState.WORKING, self.targeted_task_list)):
            self.state = BaseComponentState.WORKING""")
M("C14-stores-none", "C14", "R14.1", CP,
  """        if all(map(lambda t: t.state == BaseTaskState.FINISHED, self.targeted_task_list)):
            self.state = BaseComponentState.FINISHED
""",
  """        if all(map(lambda t: t.state == BaseTaskState.FINISHED, self.targeted_task_list)):
            self.state = BaseComponentState.FINISHED
        elif all(map(lambda t: t.state == BaseTaskState.NONE, self.targeted_task_list)):
            self.state = BaseComponentState.NONE
""")
M("C14-drop-product-check-after-working", "C14", "R14.2", PJ,
  """            self.workflow.check_state(self.time, BaseTaskState.WORKING)
            self.product.check_state()
""",
  """            self.workflow.check_state(self.time, BaseTaskState.WORKING)
""")
M("C14-init-product-first", "C14", "R14.2", PJ,
  """        self.workflow.initialize(state_info=state_info, log_info=log_info)
        self.product.initialize(state_info=state_info, log_info=log_info)""",
  """        self.product.initialize(state_info=state_info, log_info=log_info)
        self.workflow.initialize(state_info=state_info, log_info=log_info)""")
M("C14-product-skips-children", "C14", "R14.2", PD,
  """        for c in self.component_list:
            c.check_state()""",
  """        for c in self.component_list:
            if len(c.parent_component_list) == 0:
                c.check_state()""")

# ---------------------------------------------------------------------------------------- guards and hidden state (all properties)
def G(id, prop, guard, *edits):
    """A construct the analyser cannot see through: the check must stop with ANALYSIS-ERROR (exit 2) naming the guard."""
    es = [tuple(edits[i:i + 3]) for i in range(0, len(edits), 3)]
    MUTANTS.append({"id": id, "prop": prop, "rule": guard, "edits": es, "exit2": True})


G("G1-subclass-overrides-record-state", "C08", "G1", SP,
  """    def export_dict_json_data(self):""",
  """    def record_state(self, working=True):
        self.state_record_list.append(self.state)

    def export_dict_json_data(self):""")
G("G1-subclass-overrides-perform", "C02", "G1", SP,
  """    def export_dict_json_data(self):""",
  """    def perform(self, time, seed=None, increase_component_error=1.0):
        self.remaining_work_amount = self.remaining_work_amount - 1.0

    def export_dict_json_data(self):""")
G("G2-setattr-hook", "C01", "G2", TK,
  """    def record_state(self, working=True):""",
  """    def __setattr__(self, name, value):
        object.__setattr__(self, name, value)

    def record_state(self, working=True):""")
G("G2-state-property", "C14", "G2", CP,
  """    def check_state(self):""",
  """    @property
    def is_active(self):
        return True

    def check_state(self):""")
G("G3-dict-update", "C09", "G3", TK,
  """    def record_state(self, working=True):
        \"\"\"Record current 'state' in 'state_record_list'.\"\"\"""",
  """    def record_state(self, working=True):
        \"\"\"Record current 'state' in 'state_record_list'.\"\"\"
        self.__dict__['last_recorded'] = working""")
M("R0-module-level-pert-cache", "C12", "R0.1", WF,
  "import abc\n", "import abc\n_PERT_DONE = {}\n",
  WF,
  """        self.__set_est_eft_data(time)
        self.__set_lst_lft_criticalpath_data(time)""",
  """        if _PERT_DONE.get(id(self)) == time:
            return
        _PERT_DONE[id(self)] = time
        self.__set_est_eft_data(time)
        self.__set_lst_lft_criticalpath_data(time)""")
M("R0-attribute-pert-cache", "C12", "R0.1", WF,
  """        self.__set_est_eft_data(time)
        self.__set_lst_lft_criticalpath_data(time)""",
  """        if getattr(self, 'pert_done_at', None) == time:
            return
        self.pert_done_at = time
        self.__set_est_eft_data(time)
        self.__set_lst_lft_criticalpath_data(time)""")
M("R0-lru-cache-on-sorter", "C11", "R0.1", PR,
  "from enum import IntEnum\n", "from enum import IntEnum\nimport functools\n",
  PR,
  """def sort_task_list(task_list, priority_rule_mode=TaskPriorityRuleMode.TSLACK):""",
  """@functools.lru_cache(maxsize=None)
def sort_task_list(task_list, priority_rule_mode=TaskPriorityRuleMode.TSLACK):""")
M("R0-class-level-ready-cache", "C01", "R0.1", WF,
  """            input_task_list = none_task.input_task_list""",
  """            BaseWorkflow.seen_ready_scan = True
            input_task_list = none_task.input_task_list""")

# ---------------------------------------------------------------------------------------- benign variants
B("benign-reformat-only", ["C01", "C05", "C07", "C14"], WF, "import abc\n", "import abc\n\n")
B("benign-gate-is-true", ["C01", "C05"], WF,
  """            if ready:
                none_task.state = BaseTaskState.READY""",
  """            if ready is True:
                none_task.state = BaseTaskState.READY""")
B("benign-rename-local", ["C01", "C05"], WF,
  """        for none_task in none_task_set:
            input_task_list = none_task.input_task_list""",
  """        for none_task in none_task_set:
            pending = none_task
            input_task_list = pending.input_task_list""")
B("benign-cost-zero-local", ["C07"], TM,
  """        if add_zero_to_all_workers:
            for worker in self.worker_list:
                worker.cost_list.append(0.0)""",
  """        if add_zero_to_all_workers:
            zero = 0.0
            for worker in self.worker_list:
                worker.cost_list.append(zero)""")
B("benign-logging-call", ["C05", "C07", "C14"], PJ,
  """            self.__record(working=working)""",
  """            str(self.time)
            self.__record(working=working)""")
B("benign-gate-all-form", ["C01", "C05"], WF,
  """            ready = True
            for input_task, dependency in input_task_list:
                if dependency == BaseTaskDependency.FS:
                    if input_task.state == BaseTaskState.FINISHED:
                        ready = True
                    else:
                        ready = False
                        break
                elif dependency == BaseTaskDependency.SS:
                    if input_task.state == BaseTaskState.WORKING or input_task.state == BaseTaskState.FINISHED:
                        ready = True
                    else:
                        ready = False
                        break
                elif dependency == BaseTaskDependency.SF:
                    pass
                elif dependency == BaseTaskDependency.FF:
                    pass
            if ready:""",
  """            ready = all([(input_task.state == BaseTaskState.FINISHED) if dependency == BaseTaskDependency.FS else ((input_task.state in [BaseTaskState.WORKING, BaseTaskState.FINISHED]) if dependency == BaseTaskDependency.SS else True) for input_task, dependency in input_task_list])
            if ready:""")

# ---------------------------------------------------------------------------------------- C08
M("C08-record-only-when-working", "C08", "R8.1", PJ,
  """            self.__record(working=working)
""",
  """            if working:
                self.__record(working=working)
""")
M("C08-append-live-list", "C08", "R8.2", WP,
  """        record = []
        if len(self.placed_component_list) > 0:
            record = [c.ID for c in self.placed_component_list]
        self.placed_component_id_record.append(record)""",
  """        self.placed_component_id_record.append(self.placed_component_list)""")
M("C08-init-forgets-log", "C08", "R8.4", WP,
  """            self.cost_list = []
            self.placed_component_id_record = []""",
  """            self.cost_list = []""")
M("C08-reverse-forgets-log", "C08", "R8.4", TK,
  """        self.allocated_facility_id_record = self.allocated_facility_id_record[::-1]
""",
  """""")
M("C08-record-skips-auto-tasks", "C08", "R8.1", WF,
  """        for task in self.task_list:
            task.record_allocated_workers_facilities_id()""",
  """        for task in self.task_list:
            if task.auto_task:
                continue
            task.record_allocated_workers_facilities_id()""")
M("C08-record-wrong-attribute", "C08", "R8.2", TK,
  """        self.remaining_work_amount_record_list.append(self.remaining_work_amount)""",
  """        self.remaining_work_amount_record_list.append(self.actual_work_amount)""")
M("C08-record-mutates-state", "C08", "R8.3", WK,
  """        if working:
            self.state_record_list.append(self.state)
        else:
            self.state_record_list.append(BaseWorkerState.ABSENCE)""",
  """        if working:
            self.state_record_list.append(self.state)
        else:
            self.state = BaseWorkerState.ABSENCE
            self.state_record_list.append(self.state)""")
M("C08-double-cost-append", "C08", "R8.1", OG,
  """        self.cost_list.append(cost_this_time)
        return cost_this_time""",
  """        self.cost_list.append(cost_this_time)
        if add_zero_to_all_workers:
            self.cost_list.append(0.0)
        return cost_this_time""")
B("benign-record-copy-list", ["C08"], TK,
  """        self.allocated_worker_id_record.append([worker.ID for worker in self.allocated_worker_list])""",
  """        ids = [worker.ID for worker in self.allocated_worker_list]
        self.allocated_worker_id_record.append(ids)""")
B("benign-reverse-inplace", ["C08"], TK,
  """        self.state_record_list = self.state_record_list[::-1]""",
  """        self.state_record_list.reverse()""")

# ---------------------------------------------------------------------------------------- C18
M("C18-drop-one-pop", "C18", "R18.1", TK,
  """                self.allocated_facility_id_record.pop(step_time)
""", "")
M("C18-insert-off-by-one", "C18", "R18.1i", WK,
  """                else:
                    self.assigned_task_id_record.insert(step_time, self.assigned_task_id_record[step_time - 1])
                    self.cost_list.insert(step_time, 0.0)""",
  """                else:
                    self.assigned_task_id_record.insert(step_time, self.assigned_task_id_record[step_time - 1])
                    self.cost_list.insert(step_time - 1, 0.0)""")
M("C18-unguarded-insert-team", "C18", "R18.2", TM,
  """        for step_time in sorted(absence_time_list):
            if step_time < len(self.cost_list):
                self.cost_list.insert(step_time, 0.0)""",
  """        for step_time in sorted(absence_time_list):
            self.cost_list.insert(step_time, 0.0)""")
M("C18-time-unconditional", "C18", "R18.2", PJ,
  """            if step_time < len(self.cost_list):
                self.cost_list.pop(step_time)
                self.time = self.time - 1""",
  """            if step_time < len(self.cost_list):
                self.cost_list.pop(step_time)
            self.time = self.time - 1""")
M("C18-inserted-cost-nonzero", "C18", "R18.3", FA,
  """                if step_time == 0:
                    self.assigned_task_id_record.insert(step_time, None)
                    self.cost_list.insert(step_time, 0.0)""",
  """                if step_time == 0:
                    self.assigned_task_id_record.insert(step_time, None)
                    self.cost_list.insert(step_time, self.cost_per_time)""")
M("C18-skip-subproject-again", "C18", "R18.1i", WF,
  """        for t in self.task_list:
            t.insert_absence_time_list(absence_time_list)""",
  """        for t in self.task_list:
            if not isinstance(t, BaseSubProjectTask):
                t.insert_absence_time_list(absence_time_list)""")
M("C18-removal-ascending", "C18", "R18.1", CP,
  """        for step_time in sorted(absence_time_list, reverse=True):
            if step_time < len(self.state_record_list):
                self.placed_workplace_id_record.pop(step_time)""",
  """        for step_time in sorted(absence_time_list):
            if step_time < len(self.state_record_list):
                self.placed_workplace_id_record.pop(step_time)""")
M("C18-no-dedupe", "C18", "R18.4", PJ,
  """        self.workflow.insert_absence_time_list(new_absence_time_list)""",
  """        self.workflow.insert_absence_time_list(absence_time_list)""")
M("C18-inserted-working-state", "C18", "R18.3", WK,
  """                    self.cost_list.insert(step_time, 0.0)
                    self.state_record_list.insert(step_time, BaseWorkerState.FREE)
                else:""",
  """                    self.cost_list.insert(step_time, 0.0)
                    self.state_record_list.insert(step_time, BaseWorkerState.WORKING)
                else:""")
M("C18-org-skips-workplaces", "C18", "R18.1", OG,
  """        for workplace in self.workplace_list:
            workplace.remove_absence_time_list(absence_time_list)
""", "")
B("benign-guard-spelling", ["C18"], TM,
  """            if step_time < len(self.cost_list):
                self.cost_list.insert(step_time, 0.0)""",
  """            if len(self.cost_list) > step_time:
                self.cost_list.insert(step_time, 0.0)""")
B("benign-guard-negated", ["C18"], OG,
  """            if step_time < len(self.cost_list):
                self.cost_list.pop(step_time)""",
  """            if not step_time >= len(self.cost_list):
                self.cost_list.pop(step_time)""")

# ---------------------------------------------------------------------------------------- C10
M("C10-allocate-regardless", "C10", "R10.1", PJ,
  """            if working:
                self.__allocate(task_priority_rule=task_priority_rule)""",
  """            self.__allocate(task_priority_rule=task_priority_rule)""")
M("C10-charge-during-absence", "C10", "R10.1", PJ,
  "self.organization.add_labor_cost(add_zero_to_all_workers=True, add_zero_to_all_facilities=True)",
  "self.organization.add_labor_cost(only_working=True)")
M("C10-perform-all-during-absence", "C10", "R10.1", PJ,
  "                self.workflow.perform(self.time, only_auto_task=True)",
  "                self.workflow.perform(self.time)")
M("C10-log-free-instead-of-absence", "C10", "R10.3", FA,
  """            self.state_record_list.append(BaseFacilityState.ABSENCE)""",
  """            self.state_record_list.append(BaseFacilityState.FREE)""")
M("C10-progress-ignores-absence", "C10", "R10.2", WK,
  """        if self.state == BaseWorkerState.ABSENCE:
            return 0.0
        skill_mean = self.workamount_skill_mean_map[task_name]""",
  """        skill_mean = self.workamount_skill_mean_map[task_name]""")
M("C10-absence-setter-skips-facilities", "C10", "R10.1", OG,
  """        for workplace in self.workplace_list:
            workplace.set_absence_state_to_all_facilities()""",
  """        for workplace in self.workplace_list[:0]:
            workplace.set_absence_state_to_all_facilities()""")
M("C10-only-auto-ignored", "C10", "R10.1", WF,
  """            if only_auto_task:
                if task.auto_task:
                    task.perform(time, seed=seed)""",
  """            if only_auto_task:
                task.perform(time, seed=seed)""")
M("C10-working-flag-inverted", "C10", "R10.1", PJ,
  """            if self.time in absence_time_list:
                working = False""",
  """            if self.time + 1 in absence_time_list:
                working = False""")
M("C10-auto-perform-without-flag", "C10", "R10.1", PJ,
  """            elif perform_auto_task_while_absence_time:
                self.workflow.perform(self.time, only_auto_task=True)""",
  """            else:
                self.workflow.perform(self.time, only_auto_task=True)""")
M("C10-absent-worker-stays-working", "C10", "R10.2", WK,
  """        if step_time in self.absence_time_list:
            self.state = BaseWorkerState.ABSENCE
        elif len(self.assigned_task_list) == 0:""",
  """        if len(self.assigned_task_list) == 0 and step_time in self.absence_time_list:
            self.state = BaseWorkerState.ABSENCE
        elif len(self.assigned_task_list) == 0:""")

# ---------------------------------------------------------------------------------------- C17
M("C17-no-finally", "C17", "R17.1", PJ,
  """        finally:
            self.simulation_mode = SimulationMode.BACKWARD""",
  """        except Exception:
            raise
        else:
            self.simulation_mode = SimulationMode.BACKWARD""")
M("C17-restore-only-workflow", "C17", "R17.1", PJ,
  """            self.workflow.reverse_dependencies()
            self.organization.reverse_dependencies()
""",
  """            self.workflow.reverse_dependencies()
""")
M("C17-swap-only-inputs", "C17", "R17.2", WF,
  """            task.output_task_list = task.dummy_output_task_list
            task.input_task_list = task.dummy_input_task_list""",
  """            task.input_task_list = task.dummy_input_task_list""")
M("C17-helper-left-linked", "C17", "R17.3", PJ,
  """                for task, dependency in autotask.output_task_list:
                    task.input_task_list.remove([autotask, dependency])
""", "")
M("C17-helper-untracked", "C17", "R17.3", PJ,
  """                        autotask_removing_after_simulation.add(auto_task)
""", "")
M("C17-restore-conditional", "C17", "R17.1", PJ,
  """            if reverse_log_information:
                self.reverse_log_information()
            self.workflow.reverse_dependencies()
            self.organization.reverse_dependencies()""",
  """            if reverse_log_information:
                self.reverse_log_information()
                self.workflow.reverse_dependencies()
                self.organization.reverse_dependencies()""")
M("C17-copying-swap", "C17", "R17.2", OG,
  """            workplace.output_workplace_list = workplace.dummy_output_workplace_list""",
  """            workplace.output_workplace_list = list(workplace.dummy_output_workplace_list)""")
M("C17-temporary-left", "C17", "R17.2", WF,
  """            del task.dummy_output_task_list, task.dummy_input_task_list
""", "")
M("C17-work-before-try", "C17", "R17.1", PJ,
  """        autotask_removing_after_simulation = set()
        try:""",
  """        autotask_removing_after_simulation = set()
        self.workflow.update_PERT_data(0)
        try:""")
M("C17-sim-step-edits-structure", "C17", "R17.4", WF,
  """                    task.allocated_worker_list = []
                    if task.need_facility:""",
  """                    task.allocated_worker_list = []
                    task.output_task_list = [x for x in task.output_task_list]
                    if task.need_facility:""")
M("C17-restore-before-cleanup", "C17", "R17.1", PJ,
  """            self.simulation_mode = SimulationMode.BACKWARD
            for autotask in autotask_removing_after_simulation:""",
  """            self.simulation_mode = SimulationMode.BACKWARD
            self.workflow.reverse_dependencies()
            self.organization.reverse_dependencies()
            self.workflow.reverse_dependencies()
            self.organization.reverse_dependencies()
            for autotask in autotask_removing_after_simulation:""")
B("benign-finally-order", ["C17"], PJ,
  """            self.workflow.reverse_dependencies()
            self.organization.reverse_dependencies()
""",
  """            self.organization.reverse_dependencies()
            self.workflow.reverse_dependencies()
""")

# ---------------------------------------------------------------------------------------- C09
M("C09-finish-candidates-set", "C09", "R9.1", WF,
  """            working_and_zero_task_list = list(filter(""",
  """            working_and_zero_task_list = set(filter(""")
M("C09-pert-set-again", "C09", "R9.1", WF,
  """        input_task_set = []
        for task in self.task_list:
            task.est = time
            if len(task.input_task_list) == 0:
                task.eft = time + task.remaining_work_amount
                input_task_set.append(task)""",
  """        input_task_set = set()
        for task in self.task_list:
            task.est = time
            if len(task.input_task_list) == 0:
                task.eft = time + task.remaining_work_amount
                input_task_set.add(task)""")
M("C09-key-by-id", "C09", "R9.2", PR,
  """        task_list = sorted(task_list, key=lambda task: task.est)""",
  """        task_list = sorted(task_list, key=lambda task: (task.est, id(task)))""")
M("C09-alias-default-again", "C09", "R9.3", PJ,
  """        self.absence_time_list = list(absence_time_list)""",
  """        self.absence_time_list = absence_time_list""")
M("C09-init-forgets-placed-list", "C09", "R9.4", WP,
  """        if state_info:
            self.placed_component_list = []
""", "")
M("C09-is-for-ids", "C09", "R9.2", PR,
  """key=lambda worker: (worker.cost_per_time, worker.main_workplace_id != target_workplace_id, worker.main_workplace_id is not None)""",
  """key=lambda worker: (worker.cost_per_time, worker.main_workplace_id is not target_workplace_id, worker.main_workplace_id is not None)""")
M("C09-ready-gate-reads-ready", "C09", "R9.1", WF,
  """                if dependency == BaseTaskDependency.FS:
                    if input_task.state == BaseTaskState.FINISHED:
                        ready = True""",
  """                if dependency == BaseTaskDependency.FS:
                    if input_task.state == BaseTaskState.FINISHED or input_task.state == BaseTaskState.READY:
                        ready = True""")
M("C09-class-level-cache", "C09", "R9.3", WF,
  """class BaseWorkflow(object, metaclass=abc.ABCMeta):
""",
  """class BaseWorkflow(object, metaclass=abc.ABCMeta):
    _pert_cache = {}
""")
M("C09-hidden-counter", "C09", "R9.4", WF,
  """        self.__set_est_eft_data(time)
        self.__set_lst_lft_criticalpath_data(time)""",
  """        self.pert_updates = getattr(self, 'pert_updates', 0) + 1
        self.__set_est_eft_data(time)
        self.__set_lst_lft_criticalpath_data(time)""")
M("C09-argmax-object", "C09", "R9.1", WF,
  """        self.critical_path_length = max(output_task_set, key=lambda task: task.eft).eft""",
  """        self.critical_path_length = max(set(output_task_set), key=lambda task: task.eft).lft""")
M("C09-random-tiebreak", "C09", "R9.2", PR,
  """        task_list = sorted(task_list, key=lambda task: task.default_work_amount)""",
  """        import random
        task_list = sorted(task_list, key=lambda task: (task.default_work_amount, random.random()))""")
B("benign-ready-set-to-list", ["C09", "C01", "C05"], WF,
  """        none_task_set = set(filter(lambda task: task.state == BaseTaskState.NONE, self.task_list))""",
  """        none_task_set = list(filter(lambda task: task.state == BaseTaskState.NONE, self.task_list))""")

# ---------------------------------------------------------------------------------------- C16
M("C16-drop-exported-key", "C16", "R16.1", TK,
  """need_facility=self.need_facility, target_component=""",
  """target_component=""")
M("C16-raw-int-state", "C16", "R16.2", PD,
  """state=BaseComponentState(j['state']), state_record_list=""",
  """state=j['state'], state_record_list=""")
M("C16-drop-relink", "C16", "R16.2", PJ,
  """            x.parent_team = self.organization.get_team_list(ID=x.parent_team)[0] if x.parent_team is not None else None
""", "")
M("C16-reintroduce-coercion", "C16", "R16.4", TK,
  """        self.lst = lst
""",
  """        self.lst = lst if lst != 0.0 else -1.0
""")
M("C16-exporter-reads-unset", "C16", "R16.3", WP,
  """max_space_size=self.max_space_size, input_workplace_list=""",
  """max_space_size=self.max_space_size, conveyor_speed=self.conveyor_speed, input_workplace_list=""")
M("C16-dispatch-branch-dropped", "C16", "R16.5", WF,
  """            elif j['type'] == 'BaseSubProjectTask':""",
  """            elif j['type'] == 'SubProjectTask':""")
M("C16-param-not-restored", "C16", "R16.1", OG,
  """main_workplace_id=w.get('main_workplace_id'), """, "")
M("C16-wrong-enum-decoder", "C16", "R16.2", OG,
  """state=BaseFacilityState(w['state']), state_record_list=[BaseFacilityState(state_num) for state_num in w['state_record_list']]""",
  """state=BaseFacilityState(w['state']), state_record_list=w['state_record_list']""")
M("C16-timedelta-raw-again", "C16", "R16.2", WF,
  """unit_timedelta=datetime.timedelta(seconds=float(j['unit_timedelta'])), read_json_file""",
  """unit_timedelta=j['unit_timedelta'], read_json_file""")
M("C16-reader-key-typo", "C16", "R16.1", OG,
  """cost_per_time=w['cost_per_time'], solo_working=w['solo_working'], workamount_skill_mean_map=w['workamount_skill_mean_map'], workamount_skill_sd_map=w['workamount_skill_sd_map'], facility_skill_map""",
  """cost_per_time=w['cost'], solo_working=w['solo_working'], workamount_skill_mean_map=w['workamount_skill_mean_map'], workamount_skill_sd_map=w['workamount_skill_sd_map'], facility_skill_map""")
M("C16-project-key-not-restored", "C16", "R16.1", PJ,
  """        self.perform_auto_task_while_absence_time = project_json['perform_auto_task_while_absence_time']
""", "")
B("benign-export-dict-literal", ["C16"], PD,
  """        dict_json_data.update(type=self.__class__.__name__, component_list=[c.export_dict_json_data() for c in self.component_list])""",
  """        dict_json_data.update({'type': self.__class__.__name__, 'component_list': [c.export_dict_json_data() for c in self.component_list]})""")

# ---------------------------------------------------------------------------------------- C04
M("C04-drop-team-test", "C04", "R4.1", PJ,
  """allocating_workers = list(filter(lambda worker: worker.has_workamount_skill(task.name) and self.__is_allocated_worker(worker, task), free_worker_list))""",
  """allocating_workers = list(filter(lambda worker: worker.has_workamount_skill(task.name), free_worker_list))""")
M("C04-drop-fixed-id-test", "C04", "R4.2", TK,
  """        if worker is not None:
            if self.fixing_allocating_worker_id_list is not None:
                if worker.ID not in self.fixing_allocating_worker_id_list:
                    return False
""", "")
M("C04-skill-ge-zero", "C04", "R4.3", WK,
  """        if task_name in self.workamount_skill_mean_map:
            if self.workamount_skill_mean_map[task_name] > 0.0 + error_tol:
                return True
        return False""",
  """        if task_name in self.workamount_skill_mean_map:
            if self.workamount_skill_mean_map[task_name] >= 0.0:
                return True
        return False""")
M("C04-facility-branch-break-deleted", "C04", "R4.1", PJ,
  """                                free_worker_list = [w for w in free_worker_list if w.ID != worker.ID]
                                break""",
  """                                free_worker_list = [w for w in free_worker_list if w.ID != worker.ID]""")
M("C04-drop-has-facility-skill", "C04", "R4.2", TK,
  """                if worker.has_facility_skill(facility.name) and worker.has_workamount_skill(self.name):""",
  """                if worker.has_workamount_skill(self.name):""")
M("C04-facilities-from-all-workplaces", "C04", "R4.1", PJ,
  """free_facility_list = list(filter(lambda facility: facility.state == BaseFacilityState.FREE, placed_workplace.facility_list))""",
  """free_facility_list = list(filter(lambda facility: facility.state == BaseFacilityState.FREE, itertools.chain.from_iterable([wp.facility_list for wp in self.organization.workplace_list])))""")
M("C04-free-filter-dropped", "C04", "R4.1", PJ,
  """        free_worker_list = list(filter(lambda worker: worker.state == BaseWorkerState.FREE, worker_list))""",
  """        free_worker_list = list(filter(lambda worker: worker.state != BaseWorkerState.WORKING, worker_list))""")
M("C04-can-add-check-hoisted", "C04", "R4.1", PJ,
  """                    for worker in allocating_workers:
                        if task.can_add_resources(worker=worker):
                            task.allocated_worker_list.append(worker)
                            worker.assigned_task_list.append(task)
                            free_worker_list = [w for w in free_worker_list if w.ID != worker.ID]""",
  """                    allocating_workers = [w for w in allocating_workers if task.can_add_resources(worker=w)]
                    for worker in allocating_workers:
                        task.allocated_worker_list.append(worker)
                        worker.assigned_task_list.append(task)
                        free_worker_list = [w for w in free_worker_list if w.ID != worker.ID]""")
M("C04-solo-check-dropped", "C04", "R4.2", TK,
  """        for w in self.allocated_worker_list:
            if w.solo_working:
                return False
""", "")
M("C04-busy-facility-dropped", "C04", "R4.2", TK,
  """        if facility is not None:
            if len(facility.assigned_task_list) > 0:
                return False
""", "")
M("C04-missing-skill-entry-ok", "C04", "R4.3", FA,
  """        if task_name in self.workamount_skill_mean_map:
            if self.workamount_skill_mean_map[task_name] > 0.0 + error_tol:
                return True
        return False""",
  """        if self.workamount_skill_mean_map.get(task_name, 1.0) > 0.0 + error_tol:
            return True
        return False""")
M("C04-helper-wrong-unit", "C04", "R4.1", PJ,
  """        team = list(filter(lambda team: team.ID == worker.team_id, self.organization.team_list))[0]""",
  """        team = self.organization.team_list[0]""")
B("benign-filter-to-comprehension", ["C04", "C03", "C06"], PJ,
  """allocating_workers = list(filter(lambda worker: worker.has_workamount_skill(task.name) and self.__is_allocated_worker(worker, task), free_worker_list))""",
  """allocating_workers = [worker for worker in free_worker_list if worker.has_workamount_skill(task.name) and self.__is_allocated_worker(worker, task)]""")

# ---------------------------------------------------------------------------------------- C03
M("C03-drop-resource-side-append", "C03", "R3.1", PJ,
  """                            task.allocated_worker_list.append(worker)
                            worker.assigned_task_list.append(task)
                            free_worker_list = [w for w in free_worker_list if w.ID != worker.ID]
""",
  """                            task.allocated_worker_list.append(worker)
                            free_worker_list = [w for w in free_worker_list if w.ID != worker.ID]
""")
M("C03-free-list-not-shrunk", "C03", "R3.2", PJ,
  """                            worker.assigned_task_list.append(task)
                            free_worker_list = [w for w in free_worker_list if w.ID != worker.ID]
""",
  """                            worker.assigned_task_list.append(task)
""")
M("C03-keep-workers-on-finish", "C03", "R3.3", WF,
  """                    task.allocated_worker_list = []
""", "")
M("C03-working-while-absent", "C03", "R3.4", WF,
  """                for worker in task.allocated_worker_list:
                    if worker.state == BaseWorkerState.FREE:
                        worker.state = BaseWorkerState.WORKING""",
  """                for worker in task.allocated_worker_list:
                    if worker.state != BaseWorkerState.WORKING:
                        worker.state = BaseWorkerState.WORKING""")
M("C03-allocate-to-none-tasks", "C03", "R3.5", PJ,
  """ready_and_working_task_list = list(filter(lambda task: task.state == BaseTaskState.READY or task.state == BaseTaskState.WORKING, self.workflow.task_list))""",
  """ready_and_working_task_list = list(filter(lambda task: task.state != BaseTaskState.FINISHED, self.workflow.task_list))""")
M("C03-facility-not-released", "C03", "R3.3", WF,
  """                                facility.state = BaseFacilityState.FREE
                                facility.assigned_task_list.remove(task)""",
  """                                facility.state = BaseFacilityState.FREE""")
M("C03-worker-not-freed", "C03", "R3.3", WF,
  """                            worker.state = BaseWorkerState.FREE
                            worker.assigned_task_list.remove(task)""",
  """                            worker.assigned_task_list.remove(task)""")
M("C03-facility-not-set-working", "C03", "R3.4", WF,
  """                if task.need_facility:
                    for facility in task.allocated_facility_list:
                        facility.state = BaseFacilityState.WORKING""",
  """                if task.need_facility and task.auto_task:
                    for facility in task.allocated_facility_list:
                        facility.state = BaseFacilityState.WORKING""")
M("C03-shrinks-wrong-list", "C03", "R3.2", PJ,
  """                                allocating_workers.remove(worker)
                                free_worker_list = [w for w in free_worker_list if w.ID != worker.ID]
                                break""",
  """                                allocating_workers.remove(worker)
                                worker_list = [w for w in worker_list if w.ID != worker.ID]
                                break""")
M("C03-perform-changes-worker-state", "C03", "R3.4", TK,
  """                for worker in self.allocated_worker_list:
                    work_amount_progress = work_amount_progress + worker.get_work_amount_skill_progress(self.name, seed=seed)""",
  """                for worker in self.allocated_worker_list:
                    worker.state = worker.state
                    work_amount_progress = work_amount_progress + worker.get_work_amount_skill_progress(self.name, seed=seed)""")

# ---------------------------------------------------------------------------------------- C06
M("C06-ready-before-finish", "C06", "R6.1", PJ,
  """        self.workflow.check_state(self.time, BaseTaskState.FINISHED)
        self.product.check_state()
        self.product.check_removing_placed_workplace()
        self.workflow.check_state(self.time, BaseTaskState.READY)
        self.product.check_state()""",
  """        self.workflow.check_state(self.time, BaseTaskState.READY)
        self.product.check_state()
        self.workflow.check_state(self.time, BaseTaskState.FINISHED)
        self.product.check_state()
        self.product.check_removing_placed_workplace()""")
M("C06-allocator-only-ready", "C06", "R6.2", PJ,
  """ready_and_working_task_list = list(filter(lambda task: task.state == BaseTaskState.READY or task.state == BaseTaskState.WORKING, self.workflow.task_list))""",
  """ready_and_working_task_list = list(filter(lambda task: task.state == BaseTaskState.READY, self.workflow.task_list))""")
M("C06-break-after-first-worker", "C06", "R6.3", PJ,
  """                            worker.assigned_task_list.append(task)
                            free_worker_list = [w for w in free_worker_list if w.ID != worker.ID]
""",
  """                            worker.assigned_task_list.append(task)
                            free_worker_list = [w for w in free_worker_list if w.ID != worker.ID]
                            break
""")
M("C06-auto-tasks-need-worker", "C06", "R6.2", WF,
  """        target_task_set.update(ready_auto_task_without_component_set)
""", "")
M("C06-fixpoint-removed", "C06", "R6.4", WF,
  """            if not newly_finished:
                break""",
  """            break""")
M("C06-finish-check-only-when-working", "C06", "R6.1", PJ,
  """        self.workflow.check_state(self.time, BaseTaskState.FINISHED)
        self.product.check_state()
        self.product.check_removing_placed_workplace()""",
  """        if self.time not in self.absence_time_list:
            self.workflow.check_state(self.time, BaseTaskState.FINISHED)
        self.product.check_state()
        self.product.check_removing_placed_workplace()""")
M("C06-facility-loop-breaks", "C06", "R6.3", PJ,
  """                                free_worker_list = [w for w in free_worker_list if w.ID != worker.ID]
                                break
""",
  """                                free_worker_list = [w for w in free_worker_list if w.ID != worker.ID]
                                break
                            if len(task.allocated_facility_list) > 0:
                                break
""")
M("C06-pert-after-allocation", "C06", "R6.1", PJ,
  """        self.workflow.update_PERT_data(self.time)
""", "",
  PJ,
  """            self.workflow.check_state(self.time, BaseTaskState.WORKING)
            self.product.check_state()
            if working:
                cost_this_time""",
  """            self.workflow.check_state(self.time, BaseTaskState.WORKING)
            self.product.check_state()
            self.workflow.update_PERT_data(self.time)
            if working:
                cost_this_time""")
M("C06-task-loop-returns", "C06", "R6.3", PJ,
  """            if not task.auto_task:
                if task.need_facility:""",
  """            if len(free_worker_list) == 0:
                return
            if not task.auto_task:
                if task.need_facility:""")

# ---------------------------------------------------------------------------------------- C12
M("C12-drop-per-call-reset", "C12", "R12.1", WF,
  """        for task in self.task_list:
            task.lst = -1.0
            task.lft = -1.0
""", "")
M("C12-relaxation-le", "C12", "R12.2", WF,
  """                    if est >= pre_est:
                        next_task.est = est
                        next_task.eft = eft""",
  """                    if est <= pre_est:
                        next_task.est = est
                        next_task.eft = eft""")
M("C12-cpl-min", "C12", "R12.2", WF,
  """        self.critical_path_length = max(output_task_set, key=lambda task: task.eft).eft""",
  """        self.critical_path_length = min(self.task_list, key=lambda task: task.eft).eft""")
M("C12-lst-plus", "C12", "R12.2", WF,
  """            task.lft = self.critical_path_length
            task.lst = task.lft - task.remaining_work_amount""",
  """            task.lft = self.critical_path_length
            task.lst = task.lft + task.remaining_work_amount""")
M("C12-skip-per-step-update", "C12", "R12.3", PJ,
  """        self.workflow.update_PERT_data(self.time)
""", "")
M("C12-fs-uses-default-work", "C12", "R12.2", WF,
  """                    if dependency == BaseTaskDependency.FS:
                        est = input_task.est + input_task.remaining_work_amount
                        eft = est + next_task.remaining_work_amount""",
  """                    if dependency == BaseTaskDependency.FS:
                        est = input_task.est + input_task.default_work_amount
                        eft = est + next_task.remaining_work_amount""")
M("C12-heads-start-at-zero", "C12", "R12.2", WF,
  """            task.est = time
            if len(task.input_task_list) == 0:
                task.eft = time + task.remaining_work_amount""",
  """            task.est = 0
            if len(task.input_task_list) == 0:
                task.eft = task.remaining_work_amount""")
M("C12-reset-only-tails", "C12", "R12.1", WF,
  """        for task in self.task_list:
            task.lst = -1.0
            task.lft = -1.0
""",
  """        for task in self.task_list:
            if len(task.output_task_list) == 0:
                task.lst = -1.0
                task.lft = -1.0
""")
M("C12-backward-uses-lft", "C12", "R12.2", WF,
  """                    if dependency == BaseTaskDependency.FS:
                        lft = output_task.lst
                        lst = lft - prev_task.remaining_work_amount""",
  """                    if dependency == BaseTaskDependency.FS:
                        lft = output_task.lft
                        lst = lft - prev_task.remaining_work_amount""")
M("C12-no-pert-at-init", "C12", "R12.3", WF,
  """            self.critical_path_length = 0.0
            self.update_PERT_data(0)""",
  """            self.critical_path_length = 0.0""")

# ---------------------------------------------------------------------------------------- C15
M("C15-unconditional-store-in-initialize", "C15", "R15.1", WK,
  """        if state_info:
            self.state = BaseWorkerState.FREE
            self.assigned_task_list = []""",
  """        self.assigned_task_list = []
        if state_info:
            self.state = BaseWorkerState.FREE""")
M("C15-reset-time-every-simulate", "C15", "R15.2", PJ,
  """        self.simulation_mode = SimulationMode.FORWARD
        self.absence_time_list = list(absence_time_list)""",
  """        self.simulation_mode = SimulationMode.FORWARD
        self.time = 0
        self.absence_time_list = list(absence_time_list)""")
M("C15-stop-exporting-remaining-work", "C15", "R15.4", TK,
  """remaining_work_amount=self.remaining_work_amount, remaining_work_amount_record_list=""",
  """remaining_work_amount_record_list=""")
M("C15-fixpoint-removed", "C15", "R15.3", WF,
  """            if not newly_finished:
                break""",
  """            break""")
M("C15-pert-on-noop-initialize", "C15", "R15.1", WF,
  """        if state_info:
            self.critical_path_length = 0.0
            self.update_PERT_data(0)
            self.check_state(-1, BaseTaskState.READY)""",
  """        if state_info:
            self.critical_path_length = 0.0
            self.update_PERT_data(0)
        self.check_state(-1, BaseTaskState.READY)""")
M("C15-removal-unguarded", "C15", "R15.3", PD,
  """            if all_finished_flag and c.placed_workplace is not None:""",
  """            if all_finished_flag:""")
M("C15-state-not-restored", "C15", "R15.4", OG,
  """state=BaseWorkerState(w['state']), state_record_list=[BaseWorkerState""",
  """state_record_list=[BaseWorkerState""")
M("C15-new-live-attribute-unsaved", "C15", "R15.4", TK,
  """            self.remaining_work_amount = self.remaining_work_amount - work_amount_progress""",
  """            self.remaining_work_amount = self.remaining_work_amount - work_amount_progress
            self.last_progress = work_amount_progress""")

# ---------------------------------------------------------------------------------------- C02
M("C02-perform-also-ready", "C02", "R2.2", TK,
  """        if self.state == BaseTaskState.WORKING:
            work_amount_progress = 0.0""",
  """        if self.state == BaseTaskState.WORKING or self.state == BaseTaskState.READY:
            work_amount_progress = 0.0""")
M("C02-plus-for-minus", "C02", "R2.2", TK,
  """            self.remaining_work_amount = self.remaining_work_amount - work_amount_progress""",
  """            self.remaining_work_amount = self.remaining_work_amount + work_amount_progress""")
M("C02-drop-facility-factor", "C02", "R2.3", TK,
  """                    work_amount_progress += w_progress * f_progress""",
  """                    work_amount_progress += w_progress""")
M("C02-helper-ignores-absence", "C02", "R2.4", FA,
  """        if self.state == BaseFacilityState.ABSENCE:
            return 0.0
""", "")
M("C02-no-clamp", "C02", "R2.5", WF,
  """                    task.remaining_work_amount = 0.0
""", "")
M("C02-finish-check-under-working", "C02", "R2.7", PJ,
  """        self.workflow.check_state(self.time, BaseTaskState.FINISHED)
        self.product.check_state()
        self.product.check_removing_placed_workplace()""",
  """        self.product.check_removing_placed_workplace()
        self.workflow.check_state(self.time, BaseTaskState.FINISHED)
        self.product.check_state()""")
M("C02-record-before-perform", "C02", "R2.7", PJ,
  """            if working:
                if mode == 1:
                    self.__perform()
            elif perform_auto_task_while_absence_time:
                self.workflow.perform(self.time, only_auto_task=True)
            self.__record(working=working)""",
  """            self.__record(working=working)
            if working:
                if mode == 1:
                    self.__perform()
            elif perform_auto_task_while_absence_time:
                self.workflow.perform(self.time, only_auto_task=True)""")
M("C02-wrong-pairing-index", "C02", "R2.3", TK,
  """                    facility = self.allocated_facility_list[i]""",
  """                    facility = self.allocated_facility_list[0]""")
M("C02-initial-remaining-ignores-progress", "C02", "R2.6", TK,
  """            self.remaining_work_amount = self.default_work_amount * (1.0 - self.default_progress)
            self.state = BaseTaskState.NONE""",
  """            self.remaining_work_amount = self.default_work_amount
            self.state = BaseTaskState.NONE""")
M("C02-extra-writer-in-record", "C02", "R2.1", TK,
  """        self.remaining_work_amount_record_list.append(self.remaining_work_amount)""",
  """        self.remaining_work_amount = max(self.remaining_work_amount, 0.0)
        self.remaining_work_amount_record_list.append(self.remaining_work_amount)""")
M("C02-finish-threshold-loose", "C02", "R2.5", WF,
  """task.remaining_work_amount < 0.0 + error_tol, self.task_list""",
  """task.remaining_work_amount < 0.5 + error_tol, self.task_list""")
M("C02-worker-contributes-twice", "C02", "R2.3", TK,
  """                    work_amount_progress = work_amount_progress + worker.get_work_amount_skill_progress(self.name, seed=seed)""",
  """                    work_amount_progress = work_amount_progress + 2 * worker.get_work_amount_skill_progress(self.name, seed=seed)""")
M("C02-siblings-diverge", "C02", "R2.4", FA,
  """        return base_progress / float(sum_of_working_task_in_this_time)""",
  """        return base_progress""")
B("benign-perform-augassign", ["C02"], TK,
  """            self.remaining_work_amount = self.remaining_work_amount - work_amount_progress""",
  """            self.remaining_work_amount -= work_amount_progress""")

# ---------------------------------------------------------------------------------------- C11
M("C11-flip-reverse", "C11", "R11.2", PR,
  """task_list = sorted(task_list, key=lambda task: task.default_work_amount, reverse=True)""",
  """task_list = sorted(task_list, key=lambda task: task.default_work_amount)""")
M("C11-key-other-attribute", "C11", "R11.2", PR,
  """task_list = sorted(task_list, key=lambda task: task.remaining_work_amount)""",
  """task_list = sorted(task_list, key=lambda task: task.default_work_amount)""")
M("C11-sorted-slice", "C11", "R11.1", PR,
  """facility_list = sorted(facility_list, key=lambda facility: facility.cost_per_time)""",
  """facility_list = sorted(facility_list, key=lambda facility: facility.cost_per_time)[:1]""")
M("C11-drop-name-at-call-site", "C11", "R11.3", PJ,
  """free_facility_list = sort_facility_list(free_facility_list, task.facility_priority_rule, name=task.name)""",
  """free_facility_list = sort_facility_list(free_facility_list, task.facility_priority_rule)""")
M("C11-is-for-ids", "C11", "R11.4", PR,
  """key=lambda worker: (worker.main_workplace_id != target_workplace_id, worker.main_workplace_id is not None, sum(worker.workamount_skill_mean_map.values()))""",
  """key=lambda worker: (worker.main_workplace_id is not target_workplace_id, worker.main_workplace_id is not None, sum(worker.workamount_skill_mean_map.values()))""")
M("C11-iterate-unsorted", "C11", "R11.5", PJ,
  """        ready_and_working_task_list = sort_task_list(ready_and_working_task_list, task_priority_rule)
""", "")
M("C11-tslack-sign", "C11", "R11.2", PR,
  """task_list = sorted(task_list, key=lambda task: task.lst - task.est)""",
  """task_list = sorted(task_list, key=lambda task: task.est - task.lst)""")
M("C11-wrong-rule-attribute", "C11", "R11.5", PJ,
  """allocating_workers = sort_worker_list(allocating_workers, task.worker_priority_rule, name=task.name, workplace_id=placed_workplace.ID)""",
  """allocating_workers = sort_worker_list(allocating_workers, task.facility_priority_rule, name=task.name, workplace_id=placed_workplace.ID)""")
M("C11-hsv-missing-first", "C11", "R11.2", PR,
  """key=lambda facility: facility.workamount_skill_mean_map.get(kwargs['name'], -float('inf')), reverse=True""",
  """key=lambda facility: facility.workamount_skill_mean_map.get(kwargs['name'], float('inf')), reverse=True""")
M("C11-new-kwarg-unsupplied", "C11", "R11.3", PR,
  """        facility_list = sorted(facility_list, key=lambda facility: facility.cost_per_time)""",
  """        facility_list = sorted(facility_list, key=lambda facility: facility.cost_per_time * kwargs['weight'])""")
M("C11-sorter-filters", "C11", "R11.1", PR,
  """        workplace_list = sorted(workplace_list, key=lambda workplace: workplace.get_available_space_size(), reverse=True)""",
  """        workplace_list = sorted([w for w in workplace_list if w.get_available_space_size() > 0], key=lambda workplace: workplace.get_available_space_size(), reverse=True)""")
M("C11-workers-resorted-after", "C11", "R11.5", PJ,
  """                    allocating_workers = list(filter(lambda worker: worker.has_workamount_skill(task.name) and self.__is_allocated_worker(worker, task), free_worker_list))
""",
  """                    allocating_workers = list(filter(lambda worker: worker.has_workamount_skill(task.name) and self.__is_allocated_worker(worker, task), free_worker_list))
                    allocating_workers = sorted(allocating_workers, key=lambda w: w.name)
""")

# ---------------------------------------------------------------------------------------- C19
M("C19-off-by-one-length", "C19", "R19.1", TK,
  """                        if previous_state == BaseTaskState.WORKING:
                            working_time_list.append((from_time, to_time - 1 - from_time + finish_margin))
                        elif previous_state == BaseTaskState.READY:""",
  """                        if previous_state == BaseTaskState.WORKING:
                            working_time_list.append((from_time, to_time - from_time + finish_margin))
                        elif previous_state == BaseTaskState.READY:""")
M("C19-drop-working-to-ready-emission", "C19", "R19.1", TK,
  """                    if state == BaseTaskState.READY:
                        if previous_state == BaseTaskState.WORKING:
                            working_time_list.append((from_time, to_time - 1 - from_time + finish_margin))
""", "")
M("C19-swap-target-lists", "C19", "R19.1", WK,
  """                    if state == BaseWorkerState.WORKING:
                        if previous_state == BaseWorkerState.FREE:
                            ready_time_list.append((from_time, to_time - 1 - from_time + finish_margin))""",
  """                    if state == BaseWorkerState.WORKING:
                        if previous_state == BaseWorkerState.FREE:
                            working_time_list.append((from_time, to_time - 1 - from_time + finish_margin))""")
M("C19-finish-minus-one", "C19", "R19.2", TK,
  """        for from_time, length in working_time_list:
            to_time = from_time + length""",
  """        for from_time, length in working_time_list:
            to_time = from_time + length - 1""")
M("C19-extract-le-to-lt", "C19", "R19.3", WF,
  """                if len(task.state_record_list) <= time:
                    extract_flag = False
                    break""",
  """                if len(task.state_record_list) < time:
                    extract_flag = False
                    break""")
M("C19-set-last-datetime-time", "C19", "R19.4", PJ,
  """        init_datetime = last_datetime - unit_timedelta * (self.time - 1)""",
  """        init_datetime = last_datetime - unit_timedelta * self.time""")
M("C19-flush-wrong-length", "C19", "R19.1", CP,
  """            if previous_state == BaseComponentState.WORKING:
                working_time_list.append((from_time, time - from_time + finish_margin))""",
  """            if previous_state == BaseComponentState.WORKING:
                working_time_list.append((from_time, time - from_time - 1 + finish_margin))""")
M("C19-previous-not-updated", "C19", "R19.1", FA,
  """                    from_time = time
                    to_time = -1
            previous_state = state""",
  """                    from_time = time
                    to_time = -1
                    previous_state = state""")
M("C19-wrapper-wrong-state", "C19", "R19.3", PD,
  """        return self.__extract_state_component_list(target_time_list, BaseComponentState.READY)""",
  """        return self.__extract_state_component_list(target_time_list, BaseComponentState.WORKING)""")
M("C19-row-label-swapped", "C19", "R19.2", TM,
  """df.append({'Task': self.name + ': ' + worker.name, 'Start': (init_datetime + from_time * unit_timedelta).strftime('%Y-%m-%d %H:%M:%S'), 'Finish': (init_datetime + to_time * unit_timedelta).strftime('%Y-%m-%d %H:%M:%S'), 'State': 'ABSENCE', 'Type': 'Facility'})""",
  """df.append({'Task': self.name + ': ' + worker.name, 'Start': (init_datetime + from_time * unit_timedelta).strftime('%Y-%m-%d %H:%M:%S'), 'Finish': (init_datetime + to_time * unit_timedelta).strftime('%Y-%m-%d %H:%M:%S'), 'State': 'READY', 'Type': 'Facility'})""")
M("C19-initial-previous-ready", "C19", "R19.1", TK,
  """        previous_state = BaseTaskState.NONE
        from_time = -1""",
  """        previous_state = BaseTaskState.READY
        from_time = -1""")
M("C19-extract-any-instead-of-all", "C19", "R19.3", WP,
  """                if facility.state_record_list[time] != target_state:
                    extract_flag = False
                    break""",
  """                if facility.state_record_list[time] != target_state:
                    extract_flag = False
                else:
                    extract_flag = True""")
B("benign-extract-guard-spelling", ["C19"], TM,
  """                if len(worker.state_record_list) <= time:""",
  """                if not time < len(worker.state_record_list):""")

# ---------------------------------------------------------------------------------------- C20
M("C20-store-before-status-test", "C20", "R20.1", SP,
  """        project.read_simple_json(file_path)
        if project.status != BaseProjectStatus.FINISHED_SUCCESS:""",
  """        project.read_simple_json(file_path)
        self.file_path = file_path
        if project.status != BaseProjectStatus.FINISHED_SUCCESS:""")
M("C20-invert-quotient", "C20", "R20.3", SP,
  """        self.work_amount_progress_of_unit_step_time = project_unit_timedelta / self.unit_timedelta""",
  """        self.work_amount_progress_of_unit_step_time = self.unit_timedelta / project_unit_timedelta""")
M("C20-duration-before-removal", "C20", "R20.2", SP,
  """        if remove_absence_time_list:
            project.remove_absence_time_list()
        self.remove_absence_time_list = remove_absence_time_list
        self.read_json_file = True
        self.default_work_amount = project.time""",
  """        self.default_work_amount = project.time
        if remove_absence_time_list:
            project.remove_absence_time_list()
        self.remove_absence_time_list = remove_absence_time_list
        self.read_json_file = True""")
M("C20-auto-default-false", "C20", "R20.4", SP,
  """due_time=None, auto_task=True, fixing_allocating_worker_id_list=None""",
  """due_time=None, auto_task=False, fixing_allocating_worker_id_list=None""")
M("C20-refusal-continues", "C20", "R20.1", SP,
  """            warnings.warn('The target pDESy json file is not simulated. Some error will be occurred.Please call this function again after simulating the target project from pDESy json file.')
            return (-1, datetime.timedelta(days=1))""",
  """            warnings.warn('The target pDESy json file is not simulated. Some error will be occurred.Please call this function again after simulating the target project from pDESy json file.')""")
M("C20-duration-from-cost-list", "C20", "R20.2", SP,
  """        self.default_work_amount = project.time""",
  """        self.default_work_amount = len(project.cost_list) + len(project.absence_time_list)""")
M("C20-status-test-dropped", "C20", "R20.1", SP,
  """        if project.status != BaseProjectStatus.FINISHED_SUCCESS:""",
  """        if project.status == BaseProjectStatus.NONE:""")
M("C20-removal-unconditional", "C20", "R20.2", SP,
  """        if remove_absence_time_list:
            project.remove_absence_time_list()""",
  """        project.remove_absence_time_list()""")
M("C20-no-warning", "C20", "R20.1", SP,
  """            warnings.warn('The target pDESy json file is not simulated. Some error will be occurred.Please call this function again after simulating the target project from pDESy json file.')
            return""",
  """            return""")

# ---------------------------------------------------------------------------------------- C13
M("C13-drop-conveyor-test", "C13", "R13.3", PJ,
  """                                elif not component.placed_workplace in workplace.input_workplace_list:
                                    conveyor_condition = False""",
  """                                elif not component.placed_workplace in workplace.input_workplace_list:
                                    conveyor_condition = True""")
M("C13-can-put-always-true", "C13", "R13.3", WP,
  """        can_put = False
        if self.get_available_space_size() > component.space_size - error_tol:
            can_put = True
        return can_put""",
  """        can_put = True
        return can_put""")
M("C13-forget-removal-from-old-workplace", "C13", "R13.2", PJ,
  """                                elif pre_workplace is not None:
                                    pre_workplace.remove_placed_component(component)
                                component.set_placed_workplace(None)
                                component.set_placed_workplace(workplace)
                                workplace.set_placed_component(component)""",
  """                                component.set_placed_workplace(None)
                                component.set_placed_workplace(workplace)""")
M("C13-never-call-leave-routine", "C13", "R13.4", PJ,
  """        self.product.check_removing_placed_workplace()
""", "")
M("C13-direct-store-elsewhere", "C13", "R13.1", PD,
  """        for c in removing_placed_workplace_component_set:
            c.placed_workplace.remove_placed_component(c)
            c.set_placed_workplace(None)""",
  """        for c in removing_placed_workplace_component_set:
            c.placed_workplace.remove_placed_component(c)
            c.placed_workplace = None""")
M("C13-move-without-is-ready", "C13", "R13.3", PJ,
  """                if component.is_ready() and all((len(t.allocated_worker_list) == 0 for t in component.targeted_task_list)):""",
  """                if all((len(t.allocated_worker_list) == 0 for t in component.targeted_task_list)):""")
M("C13-move-ignores-same-step-allocation", "C13", "R13.7", PJ,
  """                if component.is_ready() and all((len(t.allocated_worker_list) == 0 for t in component.targeted_task_list)):""",
  """                if component.is_ready():""")
M("C13-no-break-after-move", "C13", "R13.3", PJ,
  """                                workplace.set_placed_component(component)
                                break""",
  """                                workplace.set_placed_component(component)""")
M("C13-is-ready-ignores-working", "C13", "R13.3", CP,
  """        if not all_none_flag and (not any_working_flag) and any_ready_flag:
            return True""",
  """        if not all_none_flag and any_ready_flag:
            return True""")
M("C13-leave-children-too", "C13", "R13.4", PD,
  """        top_component_list = list(filter(lambda c: len(c.parent_component_list) == 0, self.component_list))""",
  """        top_component_list = list(self.component_list)""")
M("C13-can-put-ignores-used-space", "C13", "R13.3", WP,
  """        use_space_size = sum([c.space_size for c in self.placed_component_list])
        return self.max_space_size - use_space_size""",
  """        return self.max_space_size""")
M("C13-set-without-recursion", "C13", "R13.2", CP,
  """        self.placed_workplace = placed_workplace
        if set_to_all_children:
            for child_c in self.child_component_list:
                child_c.set_placed_workplace(placed_workplace, set_to_all_children=set_to_all_children)""",
  """        self.placed_workplace = placed_workplace""")
M("C13-leave-when-any-finished", "C13", "R13.4", PD,
  """            all_finished_flag = all(map(lambda task: task.state == BaseTaskState.FINISHED, c.targeted_task_list))""",
  """            all_finished_flag = any(map(lambda task: task.state == BaseTaskState.FINISHED, c.targeted_task_list))""")
M("C12-join-takes-first-predecessor", "C12", "R12.2b", WF,
  """                    if est >= pre_est:
                        next_task.est = est
                        next_task.eft = eft""",
  """                    if pre_est == time or est >= pre_est:
                        next_task.est = est
                        next_task.eft = eft""")
M("C12-fork-takes-larger-lst", "C12", "R12.2b", WF,
  """                    if pre_lft < 0 or pre_lft >= lft:
                        prev_task.lst = lst
                        prev_task.lft = lft""",
  """                    if pre_lft < 0 or pre_lft <= lft:
                        prev_task.lst = lst
                        prev_task.lft = lft""")

# ---------------------------------------------------------------------------------------- lessons of the independent seeds (round 1)
M("C03-release-guard-by-state", "C03", "R3.3", WF,
  """                        if len(worker.assigned_task_list) > 0 and all(list(map(lambda task: task.state == BaseTaskState.FINISHED, worker.assigned_task_list))):""",
  """                        if worker.state == BaseWorkerState.WORKING:""")
M("C05-release-guard-by-state", "C05", "R3.3", WF,
  """                            if len(facility.assigned_task_list) > 0 and all(list(map(lambda task: task.state == BaseTaskState.FINISHED, facility.assigned_task_list))):""",
  """                            if facility.state == BaseFacilityState.WORKING:""")
M("C04-absence-refresh-before-update", "C04", "R4.4", PJ,
  """            self.__update()
            state_list = list(map(lambda task: task.state, self.workflow.task_list))""",
  """            if self.time not in absence_time_list:
                self.organization.check_update_state_from_absence_time_list(self.time)
            self.__update()
            state_list = list(map(lambda task: task.state, self.workflow.task_list))""",
  PJ,
  """            if working:
                self.organization.check_update_state_from_absence_time_list(self.time)
            else:
                self.organization.set_absence_state_to_all_workers_facilities()""",
  """            if not working:
                self.organization.set_absence_state_to_all_workers_facilities()""")
M("C10-absence-refresh-before-update", "C10", "R4.4", PJ,
  """            self.__update()
            state_list = list(map(lambda task: task.state, self.workflow.task_list))""",
  """            if self.time not in absence_time_list:
                self.organization.check_update_state_from_absence_time_list(self.time)
            self.__update()
            state_list = list(map(lambda task: task.state, self.workflow.task_list))""",
  PJ,
  """            if working:
                self.organization.check_update_state_from_absence_time_list(self.time)
            else:
                self.organization.set_absence_state_to_all_workers_facilities()""",
  """            if not working:
                self.organization.set_absence_state_to_all_workers_facilities()""")
M("C06-break-on-rejected-candidate", "C06", "R6.3", PJ,
  """                        if task.can_add_resources(worker=worker):
                            task.allocated_worker_list.append(worker)
                            worker.assigned_task_list.append(task)
                            free_worker_list = [w for w in free_worker_list if w.ID != worker.ID]""",
  """                        if task.can_add_resources(worker=worker):
                            task.allocated_worker_list.append(worker)
                            worker.assigned_task_list.append(task)
                            free_worker_list = [w for w in free_worker_list if w.ID != worker.ID]
                        elif len(task.allocated_worker_list) > 0:
                            break""")
M("C11-break-on-rejected-candidate", "C11", "R11.5", PJ,
  """                        if task.can_add_resources(worker=worker):
                            task.allocated_worker_list.append(worker)
                            worker.assigned_task_list.append(task)
                            free_worker_list = [w for w in free_worker_list if w.ID != worker.ID]""",
  """                        if not task.can_add_resources(worker=worker):
                            break
                        task.allocated_worker_list.append(worker)
                        worker.assigned_task_list.append(task)
                        free_worker_list = [w for w in free_worker_list if w.ID != worker.ID]""")
M("C08-positional-initialize-args", "C08", "R15.1", WP,
  """            w.initialize(state_info=state_info, log_info=log_info)""",
  """            w.initialize(state_info, log_info)""")
M("C16-conditional-relink", "C16", "R16.2", PJ,
  """            for w in x.worker_list:
                w.assigned_task_list = [self.workflow.get_task_list(ID=ID)[0] for ID in w.assigned_task_list]""",
  """            for w in x.worker_list:
                if w.state == BaseWorkerState.WORKING:
                    w.assigned_task_list = [self.workflow.get_task_list(ID=ID)[0] for ID in w.assigned_task_list]""")
M("C13-space-counts-parentless-only", "C13", "R13.3", WP,
  """        use_space_size = sum([c.space_size for c in self.placed_component_list])""",
  """        use_space_size = sum([c.space_size for c in self.placed_component_list if len(c.parent_component_list) == 0])""")
M("C14-max-over-started-tasks", "C14", "R14.1", CP,
  """    def check_state(self):
        \"\"\"Check and update the `state` of this component.\"\"\"
        self.__check_ready()
        self.__check_working()
        self.__check_finished()""",
  """    def check_state(self):
        \"\"\"Check and update the `state` of this component.\"\"\"
        if len(self.targeted_task_list) == 0:
            self.state = BaseComponentState.FINISHED
            return
        state_list = [t.state for t in self.targeted_task_list if t.state != BaseTaskState.NONE]
        if len(state_list) > 0:
            self.state = BaseComponentState(max(state_list))""")
M("C09-restore-before-cleanup", "C09", "R17.1", PJ,
  """            self.simulation_mode = SimulationMode.BACKWARD
            for autotask in autotask_removing_after_simulation:""",
  """            self.simulation_mode = SimulationMode.BACKWARD
            self.workflow.reverse_dependencies()
            self.organization.reverse_dependencies()
            for autotask in autotask_removing_after_simulation:""",
  PJ,
  """            if reverse_log_information:
                self.reverse_log_information()
            self.workflow.reverse_dependencies()
            self.organization.reverse_dependencies()""",
  """            if reverse_log_information:
                self.reverse_log_information()""")
B("benign-check-state-max-form", ["C14"], CP,
  """    def check_state(self):
        \"\"\"Check and update the `state` of this component.\"\"\"
        self.__check_ready()
        self.__check_working()
        self.__check_finished()""",
  """    def check_state(self):
        \"\"\"Check and update the `state` of this component.\"\"\"
        states = [t.state for t in self.targeted_task_list]
        if all([s == BaseTaskState.FINISHED for s in states]):
            self.state = BaseComponentState.FINISHED
        elif any([s == BaseTaskState.WORKING for s in states]):
            self.state = BaseComponentState.WORKING
        elif any([s == BaseTaskState.READY for s in states]):
            self.state = BaseComponentState.READY""")
B("benign-absence-set-before-loop", ["C10", "C05", "C07", "C08"], PJ,
  """        while True:
            self.__update()""",
  """        absence_steps = set(absence_time_list)
        while True:
            self.__update()""",
  PJ,
  """            if self.time in absence_time_list:
                working = False""",
  """            if self.time in absence_steps:
                working = False""")
M("C02-perform-skips-last-task", "C02", "R2.8", WF,
  """        for task in self.task_list:
            if only_auto_task:
                if task.auto_task:
                    task.perform(time, seed=seed)""",
  """        for task in self.task_list[:-1] if len(self.task_list) > 3 else self.task_list:
            if only_auto_task:
                if task.auto_task:
                    task.perform(time, seed=seed)""")
M("C02-perform-called-twice", "C02", "R2.7", PJ,
  """    def __perform(self):
        self.workflow.perform(self.time)""",
  """    def __perform(self):
        self.workflow.perform(self.time)
        if self.perform_auto_task_while_absence_time:
            self.workflow.perform(self.time, only_auto_task=True)""")
M("C10-absence-update-skips-solo-workers", "C10", "R10.2b", TM,
  """    def check_update_state_from_absence_time_list(self, step_time):
        \"\"\"""",
  """    def check_update_state_from_absence_time_list(self, step_time, skip_solo=True):
        \"\"\"""",
  TM,
  """        for worker in self.worker_list:
            worker.check_update_state_from_absence_time_list(step_time)""",
  """        for worker in self.worker_list:
            if skip_solo and worker.solo_working and len(worker.assigned_task_list) > 0:
                continue
            worker.check_update_state_from_absence_time_list(step_time)""")
# ---------------------------------------------------------------------------------------- round 6 rules
M("C12-task-equality-by-id", "C12", "R0.2", TK,
  """    def __str__(self):
        \"\"\"str.

        Returns:
            str: name of BaseTask""",
  """    def __eq__(self, other):
        return isinstance(other, BaseTask) and self.ID == other.ID

    def __hash__(self):
        return hash(self.ID)

    def __str__(self):
        \"\"\"str.

        Returns:
            str: name of BaseTask""")
B("benign-task-equality-is-identity", ["C12", "C01", "C17"], TK,
  """    def __str__(self):
        \"\"\"str.

        Returns:
            str: name of BaseTask""",
  """    def __eq__(self, other):
        return self is other

    def __hash__(self):
        return id(self)

    def __str__(self):
        \"\"\"str.

        Returns:
            str: name of BaseTask""")
M("C16-dump-raw-unicode", "C16", "R16.6", PJ,
  """json.dump(dict_data, f, indent=indent)""",
  """json.dump(dict_data, f, indent=indent, ensure_ascii=False)""")
B("benign-dump-sorted-keys-explicit-ascii", ["C16"], PJ,
  """json.dump(dict_data, f, indent=indent)""",
  """json.dump(dict_data, f, indent=indent, ensure_ascii=True)""")
M("C17-log-reversal-indexes-before-restore", "C17", "R17.6", PJ,
  """        total_step_length = len(self.cost_list)""",
  """        total_step_length = max((len(t.state_record_list) for t in self.workflow.task_list))""")
M("C10-sticky-auto-task-flag", "C10", "R10.6", PJ,
  """        self.absence_time_list = list(absence_time_list)
        self.perform_auto_task_while_absence_time = perform_auto_task_while_absence_time""",
  """        self.absence_time_list = list(absence_time_list)
        perform_auto_task_while_absence_time = perform_auto_task_while_absence_time or self.perform_auto_task_while_absence_time
        self.perform_auto_task_while_absence_time = perform_auto_task_while_absence_time""")
M("C20-sticky-auto-task-flag", "C20", "R10.6", PJ,
  """        self.absence_time_list = list(absence_time_list)
        self.perform_auto_task_while_absence_time = perform_auto_task_while_absence_time""",
  """        self.absence_time_list = list(absence_time_list)
        perform_auto_task_while_absence_time = perform_auto_task_while_absence_time or self.perform_auto_task_while_absence_time
        self.perform_auto_task_while_absence_time = perform_auto_task_while_absence_time""")
M("C06-space-counts-parts-twice", "C06", "R13.3", WP,
  """        use_space_size = sum([c.space_size for c in self.placed_component_list])""",
  """        use_space_size = sum([c.space_size + sum([k.space_size for k in c.child_component_list]) for c in self.placed_component_list])""")
M("C05-allocator-skips-zero-work-tasks", "C05", "R6.2", PJ,
  """lambda task: task.state == BaseTaskState.READY or task.state == BaseTaskState.WORKING, self.workflow.task_list""",
  """lambda task: (task.state == BaseTaskState.READY or task.state == BaseTaskState.WORKING) and task.remaining_work_amount > 1e-10, self.workflow.task_list""")
M("C19-extract-keyed-by-id", "C19", "R19.3", PD,
  """        component_set = set()""",
  """        component_set = {}""",
  PD,
  """                component_set.add(component)
        return list(component_set)""",
  """                component_set[component.ID] = component
        return list(component_set.values())""")
M("C15-priority-rule-or-default", "C15", "R16.2", WF,
  """EVERY:j.get('worker_priority_rule', -1)""",
  """j.get('worker_priority_rule') or -1""")
# ---------------------------------------------------------------------------------------- round 7 rules
M("C04-add-worker-keeps-old-team-id", "C04", "R4.5", TM,
  """        worker.team_id = self.ID
        self.worker_list.append(worker)""",
  """        if worker.team_id is None:
            worker.team_id = self.ID
        self.worker_list.append(worker)""")
M("C05-append-child-task-skips-known-task", "C05", "R5.6", WF,
  """        self.task_list.append(task)
        task.parent_workflow = self""",
  """        if task.parent_workflow is self:
            return
        self.task_list.append(task)
        task.parent_workflow = self""")
M("C06-workers-only-from-linked-teams", "C06", "R6.7", PJ,
  """list(map(lambda team: team.worker_list, self.organization.team_list))""",
  """list(map(lambda team: team.worker_list, [tm for tm in self.organization.team_list if len(tm.targeted_task_list) > 0 and tm.parent_team is None]))""")
M("C08-facility-record-default-shared", "C08", "R0.1", FA,
  """cost_list=None, assigned_task_list=None, assigned_task_id_record=None):""",
  """cost_list=None, assigned_task_list=None, assigned_task_id_record=[]):""",
  FA,
  """        if assigned_task_id_record is not None:
            self.assigned_task_id_record = assigned_task_id_record
        else:
            self.assigned_task_id_record = []""",
  """        self.assigned_task_id_record = assigned_task_id_record""")
M("C09-gantt-reverses-task-list", "C09", "R9.8", WF,
  """        if view_auto_task:
            target_task_list = self.task_list
        yticks = [10 * (n + 1) for n in range(len(target_task_list))]""",
  """        if view_auto_task:
            target_task_list = self.task_list
        target_task_list.reverse()
        yticks = [10 * (n + 1) for n in range(len(target_task_list))]""")
M("C10-pert-reads-due-time", "C10", "R10.7", WF,
  """                    task.state = BaseTaskState.FINISHED
                    newly_finished = True""",
  """                    task.state = BaseTaskState.FINISHED
                    newly_finished = task.due_time != time""")
M("C11-fifo-counts-trailing-ready-only", "C11", "R11.7", PR,
  """            num = len([i for i in range(len(k)) if k[i].name == 'READY'])""",
  """            num = 0
            for s0 in reversed(k):
                if s0.name != 'READY':
                    break
                num += 1""")
M("C12-finish-does-not-zero-remaining", "C12", "R12.4", WF,
  """                    newly_finished = True
                    task.remaining_work_amount = 0.0""",
  """                    newly_finished = True""")
M("C18-inserted-id-record-is-sliced", "C18", "R18.3", WK,
  """self.assigned_task_id_record.insert(step_time, self.assigned_task_id_record[step_time - 1])""",
  """self.assigned_task_id_record.insert(step_time, self.assigned_task_id_record[step_time - 1][:])""")
M("C20-subproject-ctor-drops-progress-rate", "C20", "R16.7", SP,
  """default_work_amount=default_work_amount, work_amount_progress_of_unit_step_time=work_amount_progress_of_unit_step_time, input_task_list=input_task_list""",
  """default_work_amount=default_work_amount, input_task_list=input_task_list""")
# ---------------------------------------------------------------------------------------- round 8 rules
M("C02-absence-membership-assumes-sorted-list", "C02", "R10.2", WK,
  """        if step_time in self.absence_time_list:""",
  """        if len(self.absence_time_list) > 0 and step_time <= self.absence_time_list[-1] and step_time in self.absence_time_list:""")
M("C04-empty-fixed-id-list-becomes-none", "C04", "R4.6", TK,
  """fixing_allocating_worker_id_list if fixing_allocating_worker_id_list is not None else None""",
  """fixing_allocating_worker_id_list if fixing_allocating_worker_id_list else None""")
M("C06-can-put-loses-tolerance", "C06", "R13.3", WP,
  """        if self.get_available_space_size() > component.space_size - error_tol:
            can_put = True""",
  """        if self.get_available_space_size() >= component.space_size:
            can_put = True""")
M("C13-move-guard-tests-current-task-only", "C13", "R13.3", PJ,
  """all((len(t.allocated_worker_list) == 0 for t in component.targeted_task_list))""",
  """all((len(task.allocated_worker_list) == 0 for t in component.targeted_task_list))""")
M("C17-fs-gate-accepts-working-predecessor-without-work", "C17", "R1.2", WF,
  """                if dependency == BaseTaskDependency.FS:
                    if input_task.state == BaseTaskState.FINISHED:
                        ready = True""",
  """                if dependency == BaseTaskDependency.FS:
                    if input_task.state == BaseTaskState.FINISHED or (input_task.state == BaseTaskState.WORKING and input_task.remaining_work_amount < 1e-10):
                        ready = True""")
M("C19-task-encoder-forgets-fifth-state", "C19", "R19.1", TK,
  """state != BaseTaskState.READY and state != BaseTaskState.WORKING""",
  """state in (BaseTaskState.NONE, BaseTaskState.FINISHED)""")
# ---------------------------------------------------------------------------------------- round 9 (refactoring slips)
M("C03-absence-refresh-stops-early", "C03", "R10.2b", WP,
  """        for facility in self.facility_list:
            facility.check_update_state_from_absence_time_list(step_time)""",
  """        for facility in self.facility_list:
            facility.check_update_state_from_absence_time_list(step_time)
            if facility.state == BaseFacilityState.ABSENCE:
                return""")
M("C10-absence-refresh-inlined-wrong-state", "C10", "R10.2b", WP,
  """        for facility in self.facility_list:
            facility.check_update_state_from_absence_time_list(step_time)""",
  """        for facility in self.facility_list:
            if step_time in facility.absence_time_list:
                facility.state = BaseFacilityState.ABSENCE
            else:
                facility.state = BaseFacilityState.FREE""")
M("C18-remove-loop-breaks", "C18", "R18.2", FA,
  """        for step_time in sorted(absence_time_list, reverse=True):
            if step_time < len(self.state_record_list):
                self.assigned_task_id_record.pop(step_time)
                self.cost_list.pop(step_time)
                self.state_record_list.pop(step_time)""",
  """        for step_time in sorted(absence_time_list, reverse=True):
            if step_time >= len(self.state_record_list):
                break
            self.assigned_task_id_record.pop(step_time)
            self.cost_list.pop(step_time)
            self.state_record_list.pop(step_time)""")
M("C14-inserted-state-after-finish", "C14", "R18.6", CP,
  """                        if insert_state_after == BaseComponentState.FINISHED:
                            insert_state = BaseComponentState.FINISHED""",
  """                        if insert_state_after == BaseComponentState.FINISHED:
                            insert_state = BaseComponentState.READY""")
M("C09-workplaces-initialized-per-team", "C09", "R9.4", OG,
  """        for team in self.team_list:
            team.initialize(state_info=state_info, log_info=log_info)
        for workplace in self.workplace_list:
            workplace.initialize(state_info=state_info, log_info=log_info)""",
  """        for team in self.team_list:
            team.initialize(state_info=state_info, log_info=log_info)
            for workplace in self.workplace_list:
                workplace.initialize(state_info=state_info, log_info=log_info)""")
M("C16-team-cost-from-worker-record", "C16", "R16.8", OG,
  """parent_team=j['parent_team'], cost_list=j['cost_list']))""",
  """parent_team=j['parent_team'], cost_list=w['cost_list']))""")
M("C08-team-cost-from-worker-record", "C08", "R16.8", OG,
  """parent_team=j['parent_team'], cost_list=j['cost_list']))""",
  """parent_team=j['parent_team'], cost_list=w['cost_list']))""")
M("C02-busy-facility-only-if-solo", "C02", "R4.2", TK,
  """            if len(facility.assigned_task_list) > 0:
                return False""",
  """            if facility.solo_working and len(facility.assigned_task_list) > 0:
                return False""")
M("C12-extend-reads-argument-twice", "C12", "R1.5", TK,
  """        for input_task in input_task_list:
            self.input_task_list.append([input_task, task_dependency_mode])
            input_task.output_task_list.append([self, task_dependency_mode])""",
  """        self.input_task_list.extend([[input_task, task_dependency_mode] for input_task in input_task_list])
        for input_task in input_task_list:
            input_task.output_task_list.append([self, task_dependency_mode])""")
M("C05-add-worker-keeps-old-team-id", "C05", "R4.5", TM,
  """        worker.team_id = self.ID
        self.worker_list.append(worker)""",
  """        if worker.team_id is None:
            worker.team_id = self.ID
        self.worker_list.append(worker)""")
# ---------------------------------------------------------------------------------------- round 10
M("C04-empty-fixed-id-list-means-anyone", "C04", "R4.2", TK,
  """            if self.fixing_allocating_worker_id_list is not None:
                if worker.ID not in self.fixing_allocating_worker_id_list:
                    return False""",
  """            if self.fixing_allocating_worker_id_list:
                if worker.ID not in self.fixing_allocating_worker_id_list:
                    return False""")
M("C11-main-workplace-compared-by-identity", "C11", "R11.8", PR,
  """EVERY:worker.main_workplace_id != target_workplace_id""",
  """worker.main_workplace_id is not target_workplace_id""")
M("C07-workplace-cost-not-reversed", "C07", "R8.4", WP,
  """        self.cost_list = self.cost_list[::-1]
        self.placed_component_id_record = self.placed_component_id_record[::-1]""",
  """        self.placed_component_id_record = self.placed_component_id_record[::-1]""")
M("C20-ss-gate-rejects-finished-predecessor", "C20", "R5.3", WF,
  """                    if input_task.state == BaseTaskState.WORKING or input_task.state == BaseTaskState.FINISHED:
                        ready = True""",
  """                    if input_task.state == BaseTaskState.WORKING:
                        ready = True""")
M("C05-status-written-in-perform-phase", "C05", "R5.2", PJ,
  """    def __perform(self):
        self.workflow.perform(self.time)""",
  """    def __perform(self):
        self.status = BaseProjectStatus.NONE
        self.workflow.perform(self.time)""")
