"""Helpers shared by the rule modules: anchors, interpreter factories, small AST utilities."""
import ast

from .errors import AnalysisError
from .interp import Interp, Obj, EnumSet, Const, ListV, Unk, CollV, Store, Mut, Call, Loop, Cond, Ret, Raise, flatten, State
from .exprnorm import Poly

TASK, WORKER, FACILITY, COMPONENT = "BaseTask", "BaseWorker", "BaseFacility", "BaseComponent"
TEAM, WORKPLACE, ORG, PROJECT, WORKFLOW, PRODUCT = (
    "BaseTeam", "BaseWorkplace", "BaseOrganization", "BaseProject", "BaseWorkflow", "BaseProduct")
TS, DEP, CS, WS, FS_ = "BaseTaskState", "BaseTaskDependency", "BaseComponentState", "BaseWorkerState", "BaseFacilityState"


def E(cls, member):
    return EnumSet(cls, [member])


def sim_loop(ctx):
    """-> (simulate FuncInfo, the `while` node that is the per-step loop)."""
    f = ctx.repo.method(PROJECT, "simulate")
    loops = [n for n in f.body() if isinstance(n, ast.While)]
    if len(loops) != 1:
        loops = [n for n in ast.walk(f.node) if isinstance(n, ast.While)]
    if len(loops) != 1:
        raise AnalysisError(f"anchor: expected exactly one `while` loop in BaseProject.simulate, found {len(loops)}")
    return f, loops[0]


_STEP_MEMO = {}


def step_stmts(ctx):
    """-> (statements of one iteration of the per-step loop, statements that follow the loop).  A loop condition other than `True` is
    the first statement of the iteration (`if not <condition>: break`): what it calls runs before every step."""
    f, loop = sim_loop(ctx)
    if id(loop) not in _STEP_MEMO:
        body = list(loop.body)
        if not (isinstance(loop.test, ast.Constant) and loop.test.value is True):
            brk = ast.If(test=ast.UnaryOp(op=ast.Not(), operand=loop.test), body=[ast.Break()], orelse=[])
            ast.copy_location(brk, loop)
            ast.fix_missing_locations(brk)
            body = [brk] + body
        top = f.body()
        post = top[top.index(loop) + 1:] if loop in top else []
        _STEP_MEMO[id(loop)] = (loop, body, list(loop.orelse) + post)
    return _STEP_MEMO[id(loop)][1], _STEP_MEMO[id(loop)][2]


def sim_reach(ctx, precise=True):
    """Functions reachable from the per-step loop of simulate() (its condition included)."""
    f, loop = sim_loop(ctx)
    return ctx.eff.reachable_from_stmts(f, [loop], precise=precise)


def same_class_inline(max_depth=4):
    """Inline policy: private/public helpers of the same class as the caller."""
    def pol(call, callee, depth):
        return False
    return pol


def inline_all(ctx, only=None, exclude=()):
    """Inline policy: every uniquely resolved in-package callee (optionally restricted)."""
    def pol(call, callee, depth):
        if callee.qualname in exclude or callee.name in exclude:
            return False
        if only is not None:
            return callee.qualname in only or callee.name in only
        return True
    return pol


def is_private_helper(callee):
    n = callee.name
    if n.startswith("_") and not (n.startswith("__") and n.endswith("__")):
        return True
    # a function of a private module of the package (`_util.py`): shared pieces of the methods that call it
    return callee.cls is None and getattr(callee, "parent", None) is None and callee.module is not None and callee.module.name.startswith("_") \
        and not callee.module.name.startswith("__")


def same_class_helpers(cls):
    """Inline policy: private helpers of `cls` (a method split into pieces stays one unit of analysis)."""
    def pol(call, callee, depth):
        return callee.cls == cls and is_private_helper(callee)
    return pol


def with_private_pieces(ctx, allowed):
    """`allowed`: set of qualnames.  -> that set plus every private helper (of any model class / module) whose callers all lie in
    the set already (a method split into private pieces stays what it was)."""
    callers = {}
    for fn in ctx.repo.all_funcs():
        for cs in ctx.eff.calls.get(id(fn.node), ()):
            for c in cs.callees:
                callers.setdefault(c.qualname, set()).add(fn.qualname)
    ok = set(allowed)
    changed = True
    while changed:
        changed = False
        for fn in ctx.repo.all_funcs():
            if is_private_helper(fn) and fn.qualname not in ok and callers.get(fn.qualname) and callers[fn.qualname] <= ok:
                ok.add(fn.qualname)
                changed = True
    return ok


def mk_interp(ctx, inline=None, auto_helpers=True, **kw):
    """`auto_helpers`: besides what `inline` accepts, a private helper of the *caller's own class* (or a private function of the
    caller's module) is followed -- a method that was split into private pieces stays one unit of analysis.  Rules that enumerate
    the paths of a large function (the step loop, the allocator) opt out and name what they follow."""
    user = inline

    def pol(call, callee, depth):
        if user is not None and user(call, callee, depth):
            return True
        if not auto_helpers or not is_private_helper(callee):
            return False
        caller = getattr(pol, "caller", None)
        if caller is None:
            return False
        if callee.cls is not None:
            # the caller's own class, or a base class it inherits the helper from
            return callee.cls == caller.cls or (caller.cls is not None and callee.cls in ctx.repo.mro(caller.cls))
        # a private function of the caller's module, or of a private module of the package
        return callee.module is caller.module or (callee.module is not None and callee.module.name.startswith("_") and not callee.module.name.startswith("__")) \
            or callee.name.startswith("_")
    I = Interp(ctx.repo, ctx.types, ctx.eff, inline=pol, **kw)
    I._policy = pol
    return I


def events(trace, kind=None, into_loops=True):
    evs = flatten(trace, into_loops)
    if kind is None:
        return evs
    return [e for e in evs if e.kind == kind]


def stores_of(trace, cls=None, attr=None):
    out = []
    for e in events(trace, "store"):
        if (attr is None or e.attr == attr) and (cls is None or e.cls == cls or e.cls is None):
            out.append(e)
    return out


def is_subclass(ctx, c, base):
    return c is not None and base in ctx.repo.mro(c)


def norm_src(node):
    return ast.unparse(node)


def qual(func):
    return func.qualname


def find_calls(node, name):
    out = []
    for n in ast.walk(node):
        if isinstance(n, ast.Call):
            f = n.func
            if (isinstance(f, ast.Name) and f.id == name) or (isinstance(f, ast.Attribute) and f.attr == name):
                out.append(n)
    return out


def kwarg(call, name, pos=None):
    for kw in call.keywords:
        if kw.arg == name:
            return kw.value
    if pos is not None and pos < len(call.args):
        return call.args[pos]
    return None


def parent_map(root):
    pm = {}
    for n in ast.walk(root):
        for ch in ast.iter_child_nodes(n):
            pm[id(ch)] = n
    return pm


def enclosing(pm, node, kinds):
    n = pm.get(id(node))
    while n is not None and not isinstance(n, kinds):
        n = pm.get(id(n))
    return n


def attr_chain(n):
    """`a.b.c` -> ['a','b','c'] ; None when not a pure Name/Attribute chain."""
    parts = []
    while isinstance(n, ast.Attribute):
        parts.append(n.attr)
        n = n.value
    if isinstance(n, ast.Name):
        parts.append(n.id)
        return list(reversed(parts))
    return None


def construct(func, role):
    """Stable construct key: class.method + role (no line numbers)."""
    return f"{func.qualname}:{role}"
