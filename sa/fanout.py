"""Fan-out summaries over the containment tree.

Given a structured trace (interp.Loop events nest their per-element alternatives), compute for a
set of (Class, attribute) keys how many matching events are applied **per object of that class**
-- as a set of possible counts, because alternatives through a loop body may differ.  A
traversal is *complete* when the loop iterates exactly the container attribute of the tree
(no filter, no slice) and no alternative leaves the body early before the event.
"""
import ast
import re

from .common import *
from . import spec

SINGLETON_PATHS = {
    "self": None,  # class of the analysed method's self
}


def _norm(name):
    return re.sub(r"\[\*\d+\]", "[*]", name)


class FanOut:
    def __init__(self, ctx, match, loop_match=None):
        """match(event) -> key or None ; key is usually (cls, attr).  loop_match(loop) -> key: count the loop
        itself as one event of its frame's `self` (and do not descend into it)."""
        self.ctx = ctx
        self.match = match
        self.loop_match = loop_match
        self.irregular = []

    def counts(self, trace, loopvars=()):
        """-> dict key -> set of possible counts per object (objects = loop elements of the innermost
        enclosing tree loop whose variable is the receiver, or singletons)."""
        total = {}

        def add_seq(acc, other):
            # sequential composition: sum of possible counts
            for k in set(acc) | set(other):
                a = acc.get(k, {0})
                b = other.get(k, {0})
                acc[k] = {x + y for x in a for y in b}
            return acc

        for ev in trace:
            if isinstance(ev, Loop) and self.loop_match is not None and self.loop_match(ev) is not None:
                k = self.loop_match(ev)
                recv = ev.self_obj
                if isinstance(recv, Obj) and self.receiver_ok(recv, loopvars, innermost=False):
                    add_seq(total, {k: {1}})
                else:
                    self.irregular.append(ev)
                    add_seq(total, {k: {-1}})
            elif isinstance(ev, Loop):
                alts = []
                for tr, ex in ev.alts:
                    alts.append(self.counts(tr, loopvars + (ev,)))
                merged = {}
                keys = set()
                for a in alts:
                    keys |= set(a)
                for k in keys:
                    s = set()
                    for a in alts:
                        s |= a.get(k, {0})
                    merged[k] = s
                if not ev.alts:
                    merged = {}
                # a loop nested in loops over *other* collections (its own collection is not reached through their element) runs once
                # per element of those: its objects are visited 0, 1 or many times, not once
                path = ev.coll.base if isinstance(ev.coll, CollV) else (ev.coll.tag if isinstance(ev.coll, Unk) else None)
                if path is not None and any(isinstance(lp.var, Obj) and lp.var.name not in path for lp in loopvars):
                    for k in merged:
                        if merged[k] != {0}:
                            merged[k] = merged[k] | {0, -1}
                # an alternative that leaves the loop (return / break) skips every element after the one it handled
                if any(ex is not None and ex[0] in ("return", "break") for _tr, ex in ev.alts):
                    for k in merged:
                        if merged[k] != {0}:
                            merged[k] = merged[k] | {0, -1}   # (-1: the traversal itself is irregular, not a condition in the body)
                # a loop that is not a complete tree traversal makes its counts unreliable: mark with -1
                if merged and not self.complete(ev):
                    for k in merged:
                        if merged[k] != {0}:
                            merged[k] = merged[k] | {-1}
                add_seq(total, merged)
            else:
                k = self.match(ev)
                if k is not None:
                    recv = getattr(ev, "recv", None)
                    if isinstance(recv, Obj) and self.receiver_ok(recv, loopvars):
                        add_seq(total, {k: {1}})
                    else:
                        self.irregular.append(ev)
                        add_seq(total, {k: {-1}})
        return total

    def receiver_ok(self, recv, loopvars, innermost=True):
        if not innermost:
            # step loops counted as one event of their frame's self (R18.1): the frame's self may legitimately be the element of an
            # outer loop while tables of bound methods are iterated inside (refactorings B7_19, B8_12)
            for lp in reversed(loopvars):
                if isinstance(lp.var, Obj) and lp.var == recv:
                    return True
            return "[*" not in recv.name and not recv.name.startswith("new")
        # receiver is the element variable of the innermost enclosing loop over its class's container, or a singleton path
        # An event on the element of an *outer* loop (or on a singleton) that sits inside a further loop over a model collection
        # is applied once per element of that inner collection -- 0, 1 or many times per object, not once (seed C08-k).
        for i in range(len(loopvars) - 1, -1, -1):
            lp = loopvars[i]
            if isinstance(lp.var, Obj) and lp.var == recv:
                return not any(isinstance(inner.var, Obj) for inner in loopvars[i + 1:])
        if any(isinstance(lp.var, Obj) for lp in loopvars) and not recv.name.startswith("new"):
            return "[*" not in recv.name and not any(self._per_element(lp, recv) for lp in loopvars)
        return "[*" not in recv.name and not recv.name.startswith("new")

    @staticmethod
    def _per_element(lp, recv):
        """A singleton receiver inside a loop whose collection is reached through that same singleton (`for f in self.facility_list:
        self.log.append(..)`) is touched once per element of the collection."""
        path = lp.coll.base if isinstance(lp.coll, CollV) else (lp.coll.tag if isinstance(lp.coll, Unk) else None)
        return isinstance(lp.var, Obj) and isinstance(path, str) and path.startswith(recv.name + ".")

    def complete(self, lp):
        """Loop iterates a plain container attribute of the tree, unfiltered."""
        if lp.coll is None:
            return False
        if isinstance(lp.coll, CollV) and lp.coll.preds:
            return False
        containers = {cont for _p, cont, _c, many in spec.TREE if many == "many"}
        it = getattr(lp.node, "iter", None)
        chain = attr_chain(it) if it is not None else None
        if chain and isinstance(it, ast.Attribute):
            return chain[-1] in containers
        # the iterable is not written as an attribute chain (a local, a table entry, a parameter): decide by the value it
        # denotes -- the unfiltered, unsliced container attribute of an object of the tree
        v = lp.coll
        path = v.base if isinstance(v, CollV) else (v.tag if isinstance(v, Unk) else None)
        if path is None:
            return False
        m = re.fullmatch(r"[A-Za-z_][\w.]*(\[\*\d+\][\w.]*)*\.(\w+)", path)
        return bool(m) and m.group(2) in containers


def log_append_matcher(ctx):
    def m(ev):
        if isinstance(ev, Mut) and ev.op == "append":
            for (c, a) in spec.LOGS:
                if ev.attr == a and ev.cls is not None and is_subclass(ctx, ev.cls, c):
                    return (c, a)
        return None
    return m


def relevant_callees(ctx, pred):
    """Set of function-node ids whose call closure contains an effect satisfying pred."""
    out = set()
    for f in ctx.repo.all_funcs():
        for g in ctx.eff.reachable([f], precise=True):
            if any(pred(e) for e in ctx.eff.of(g)):
                out.add(id(f.node))
                break
    return out
