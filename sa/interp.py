"""A small abstract interpreter over the statement kinds pDESy uses.

It never runs repo code: it walks the syntax tree with abstract values (constants, finite enum
value-sets, polynomials over opaque symbols with interval facts, abstract objects named by
access path) and enumerates control-flow paths, forking only on conditions it cannot decide and
refining the state on each side (conditional constant propagation over the finite `IntEnum`
domains the repo declares).  Each path carries a structured trace of events (attribute stores,
in-place mutations, calls, loops with their per-element alternatives, conditions taken).

Loops are summarised: the body is executed once for an arbitrary element from a state in which
everything the body may assign is forgotten; alternatives through the body are kept inside the
`Loop` event (they do not multiply the outer paths), and everything the body may assign is
forgotten again afterwards.  Collections that a rule abstracts explicitly (`collections`) are
iterated concretely instead.
"""
import ast
import itertools
from fractions import Fraction

from .errors import AnalysisError
from .exprnorm import Poly
from .effects import MUTATORS

# ------------------------------------------------------------------------------------------
# abstract values


class Const:
    __slots__ = ("v",)

    def __init__(self, v):
        self.v = v

    def __eq__(self, o):
        return isinstance(o, Const) and type(self.v) is type(o.v) and self.v == o.v

    def __hash__(self):
        return hash(("C", self.v))

    def __repr__(self):
        return f"{self.v!r}"


class EnumSet:
    __slots__ = ("cls", "members")

    def __init__(self, cls, members):
        self.cls = cls
        self.members = frozenset(members)

    def single(self):
        return next(iter(self.members)) if len(self.members) == 1 else None

    def __eq__(self, o):
        return isinstance(o, EnumSet) and self.cls == o.cls and self.members == o.members

    def __hash__(self):
        return hash((self.cls, self.members))

    def __repr__(self):
        s = self.single()
        if s is not None:
            return f"{self.cls}.{s}"
        return f"{self.cls}.{{{','.join(sorted(self.members))}}}"


class Obj:
    __slots__ = ("name", "cls", "maybe_none")

    def __init__(self, name, cls=None, maybe_none=False):
        self.name = name
        self.cls = cls
        self.maybe_none = maybe_none

    def __eq__(self, o):
        return isinstance(o, Obj) and self.name == o.name

    def __hash__(self):
        return hash(("O", self.name))

    def __repr__(self):
        return f"<{self.cls or '?'} {self.name}{'?' if self.maybe_none else ''}>"


class Unk:
    """Unknown value; `tag` is the access path / source text it came from, `typ` its static type."""
    __slots__ = ("tag", "typ", "pred")

    def __init__(self, tag="?", typ=None):
        self.tag = tag
        self.typ = typ
        self.pred = None   # (test node, env it was evaluated in, frame): an undecided boolean remembers what it is the truth of

    def __eq__(self, o):
        return isinstance(o, Unk) and self.tag == o.tag

    def __hash__(self):
        return hash(("U", self.tag))

    def __repr__(self):
        return f"?{self.tag}"


class OrderedUnk(Unk):
    """`sorted(xs)` / `sorted(xs, reverse=...)` of an unknown collection of plain values: unknown, but ascending/descending."""
    __slots__ = ("reverse",)


class ClassV(Unk):
    """A class of the package used as a value (handed to a generic builder: `read(BaseWorker, BaseWorkerState, keys, record)`)."""
    __slots__ = ("cls",)


class RepeatV(Unk):
    """`itertools.repeat(x)`: endlessly the value of `node` (evaluated where it was written)."""
    __slots__ = ("node", "val")


class IterV(Unk):
    """`iter(xs)`: an iterator over the collection written as `src` (value `val` when it was taken)."""
    __slots__ = ("src", "val")


class MapV(Unk):
    """`[elt(x) for x in coll]` over a collection known only abstractly: unknown as a list, but element i is elt(coll[i]) as
    long as nothing the expression reads has been written since (`mark`)."""
    __slots__ = ("key", "var", "elt", "env", "mark", "mark_ev")


class ListV:
    """A list/tuple value whose items are known abstractly.  fresh=True: built on this path."""
    __slots__ = ("items", "fresh", "kind")

    def __init__(self, items, fresh=True, kind="list"):
        self.items = list(items)
        self.fresh = fresh
        self.kind = kind

    def __eq__(self, o):
        return isinstance(o, ListV) and self.items == o.items and self.kind == o.kind

    def __hash__(self):
        return hash(("L", len(self.items)))

    def __repr__(self):
        b = "()" if self.kind == "tuple" else "[]"
        return b[0] + ", ".join(map(repr, self.items)) + b[1]


class CollV:
    """A collection known only through what holds for all of its elements: `base` is the access
    path (or tag) of the collection it was drawn from, `preds` a list of (param name, test expr)
    that every element satisfies (filter lambdas, comprehension conditions)."""
    __slots__ = ("base", "preds", "typ", "kind", "cpreds", "reverse", "penv")

    def __init__(self, base, preds, typ=None, kind="list", cpreds=(), penv=None):
        self.base, self.preds, self.typ, self.kind = base, list(preds), typ, kind
        self.reverse = None   # False / True: the result of a plain sorted(...) / sorted(..., reverse=True)
        self.penv = dict(penv or {})   # id(pred node) -> {local name: constant value} the predicate was written with (a helper's locals)
        self.cpreds = list(cpreds)   # canonical text of each predicate at the moment it was added (objects by access path)

    def __eq__(self, o):
        return isinstance(o, CollV) and self.base == o.base and self.preds == o.preds

    def __hash__(self):
        return hash(("CV", self.base, len(self.preds)))

    def __repr__(self):
        return f"{{x in {self.base} | " + " and ".join(ast.unparse(b) for _p, b in self.preds) + "}"


class BoundV:
    """`obj.method` taken as a value (a local alias of a bound method).  `func` is the FuncInfo for a method of a model object
    `recv`; for a container method (`append = rows.append`) `op` is the method name and `ref` the receiver expression."""
    __slots__ = ("recv", "func", "op", "ref")

    def __init__(self, recv=None, func=None, op=None, ref=None):
        self.recv, self.func, self.op, self.ref = recv, func, op, ref

    def __eq__(self, o):
        return self is o

    def __hash__(self):
        return id(self)

    def __repr__(self):
        return f"<bound {self.recv!r}.{self.func.name}>" if self.func else f"<bound {ast.unparse(self.ref)}.{self.op}>"


class RefV:
    """A local name that denotes the *same container* as an attribute of a model object (`records = self.state_record_list`):
    reading the name reads the attribute as it is now, mutating through the name mutates the attribute."""
    __slots__ = ("obj", "attr")

    def __init__(self, obj, attr):
        self.obj, self.attr = obj, attr

    def __eq__(self, o):
        return isinstance(o, RefV) and o.obj == self.obj and o.attr == self.attr

    def __hash__(self):
        return hash(("R", self.obj.name if self.obj is not None else None, self.attr))

    def __repr__(self):
        return f"&{self.obj.name}.{self.attr}" if self.obj is not None else f"&{self.attr}"


class DictV:
    """A dict literal with decidable keys.  An entry whose value was written as the bare name of a local container keeps
    that *name* (`ref`): mutating `d[k]` mutates the local, as in Python where both denote the same object."""
    __slots__ = ("entries",)

    def __init__(self, entries):
        self.entries = list(entries)   # (key value, value, ref name or None)

    def __eq__(self, o):
        return self is o

    def __hash__(self):
        return id(self)

    def __repr__(self):
        return "{" + ", ".join(f"{k!r}: {('&' + r) if r else repr(v)}" for k, v, r in self.entries) + "}"


class FuncV:
    """A function value the interpreter does not call: a lambda or a nested def (its AST node is kept)."""
    __slots__ = ("node", "cenv")

    def __init__(self, node, cenv=None):
        self.node = node
        self.cenv = cenv   # the definer's locals, kept when the function travels to another frame (a closure handed to a helper)

    def __eq__(self, o):
        return isinstance(o, FuncV) and o.node is self.node

    def __hash__(self):
        return hash(("F", id(self.node)))

    def __repr__(self):
        return "<lambda>" if isinstance(self.node, ast.Lambda) else f"<def {self.node.name}>"


class SortedV:
    """The result of sorted(base, key=..., reverse=...): a permutation of `base` (stable)."""
    __slots__ = ("base", "key", "reverse", "node", "env")

    def __init__(self, base, key, reverse, node, env=None):
        self.base, self.key, self.reverse, self.node = base, key, reverse, node
        self.env = env or {}   # the locals at the call (the key may be a closure over them)

    def __eq__(self, o):
        return isinstance(o, SortedV) and o.node is self.node

    def __hash__(self):
        return hash(("S", id(self.node)))

    def __repr__(self):
        return f"sorted({self.base!r}, key={self.key!r}, reverse={self.reverse!r})"


TRUE, FALSE, NONE = Const(True), Const(False), Const(None)
_MISSING = object()


# ------------------------------------------------------------------------------------------
# events


class Ev:
    kind = "ev"

    def __init__(self, node, func, stack):
        self.node = node
        self.func = func
        self.stack = stack

    @property
    def loc(self):
        return self.func.loc(self.node) if self.func else "?"

    @property
    def where(self):
        return self.func.qualname if self.func else "?"


class Store(Ev):
    kind = "store"

    def __init__(self, cls, attr, recv, value, node, func, stack, aug=None, prev=None):
        super().__init__(node, func, stack)
        self.cls, self.attr, self.recv, self.value, self.aug, self.prev = cls, attr, recv, value, aug, prev

    def __repr__(self):
        return f"store {self.cls}.{self.attr} := {self.value!r} @{self.loc}"


class Mut(Ev):
    kind = "mut"

    def __init__(self, cls, attr, recv, op, args, node, func, stack, argnodes=None):
        super().__init__(node, func, stack)
        self.cls, self.attr, self.recv, self.op, self.args = cls, attr, recv, op, args
        self.argnodes = argnodes or []
        self.facts = {}
        self.heap = {}

    def __repr__(self):
        return f"mut {self.cls}.{self.attr}.{self.op}({', '.join(map(repr, self.args))}) @{self.loc}"


class Call(Ev):
    kind = "call"

    def __init__(self, name, callees, args, node, func, stack, inlined, recv=None):
        super().__init__(node, func, stack)
        self.name, self.callees, self.args, self.inlined, self.recv = name, callees, args, inlined, recv
        self.ret = None
        self.facts = {}

    def __repr__(self):
        return f"call {self.name}{'*' if self.inlined else ''} @{self.loc}"


class Loop(Ev):
    kind = "loop"

    def __init__(self, iter_text, coll, var, alts, node, func, stack, elem_cls=None):
        super().__init__(node, func, stack)
        self.iter_text, self.coll, self.var, self.alts, self.elem_cls = iter_text, coll, var, alts, elem_cls
        self.self_obj = None
        self.elem_heap = {}

    def __repr__(self):
        return f"loop {self.iter_text} x{len(self.alts)} @{self.loc}"


class Cond(Ev):
    kind = "cond"

    def __init__(self, text, truth, forked, node, func, stack):
        super().__init__(node, func, stack)
        self.text, self.truth, self.forked = text, truth, forked
        self.vnames = ()
        self.vtags = ()   # access paths of the unknown values the test reads (a flag handed to a helper under another name)

    def mentions(self, name):
        """Does the test read `name` -- by its text or by the value a local stands for?"""
        return name in self.text or any(name in t for t in self.vtags)

    def _stands_for(self, local, name):
        return any(n == local and name in t for n, t in zip(self.vnames, self.vtags))

    def establishes(self, name):
        """The truth this branch establishes for a flag the test reads (`if flag:` taken, `if not flag:` not taken -> True);
        None when the test does not read the flag or is not a plain (negated) read of it."""
        if not self.mentions(name):
            return None
        def atom(t, truth):
            neg = False
            while isinstance(t, ast.UnaryOp) and isinstance(t.op, ast.Not):
                neg, t = not neg, t.operand
            if isinstance(t, ast.BoolOp):
                # a conjunction that holds makes every conjunct hold; a disjunction that fails makes every disjunct fail
                if isinstance(t.op, ast.And) == (truth != neg):
                    for x in t.values:
                        if name in ast.unparse(x) or any(isinstance(n, ast.Name) and self._stands_for(n.id, name) for n in ast.walk(x)):
                            r = atom(x, truth != neg)
                            if r is not None:
                                return r
                return None
            if isinstance(t, ast.Compare) and len(t.ops) == 1 and isinstance(t.comparators[0], ast.Constant) and t.comparators[0].value in (True, False) \
                    and isinstance(t.ops[0], (ast.Is, ast.Eq, ast.IsNot, ast.NotEq)):
                neg ^= (t.comparators[0].value is False) ^ isinstance(t.ops[0], (ast.IsNot, ast.NotEq))
                t = t.left
            if isinstance(t, ast.Call) and isinstance(t.func, ast.Name) and t.func.id == "bool" and len(t.args) == 1:
                t = t.args[0]
            if not isinstance(t, (ast.Name, ast.Attribute)):
                return None
            if not (name in ast.unparse(t) or (isinstance(t, ast.Name) and self._stands_for(t.id, name))):
                return None
            return truth != neg
        return atom(ast.parse(self.text, mode="eval").body, self.truth)

    def __repr__(self):
        return f"cond {'' if self.truth else 'not '}({self.text}){'?' if self.forked else ''} @{self.loc}"


class LocalSet(Ev):
    """A local name is bound to a collection value (logged so that rules can see candidate lists being rebuilt)."""
    kind = "local"

    def __init__(self, name, value, node, func, stack):
        super().__init__(node, func, stack)
        self.name, self.value = name, value

    def __repr__(self):
        return f"local {self.name} := {self.value!r} @{self.loc}"


class Read(Ev):
    """Attribute read (only logged when the interpreter is created with log_reads=True).  `consts` is None for a
    plain read, or the set of enum members / constants the value is compared with (==, !=, in, is)."""
    kind = "read"

    def __init__(self, cls, attr, recv, consts, node, func, stack):
        super().__init__(node, func, stack)
        self.cls, self.attr, self.recv, self.consts = cls, attr, recv, consts

    def __repr__(self):
        c = "" if self.consts is None else f" cmp {sorted(map(str, self.consts))}"
        return f"read {self.cls}.{self.attr} of {self.recv!r}{c} @{self.loc}"


class Pick(Ev):
    """`coll[<const>]` on a collection known by its element facts: the element `result` was picked by position."""
    kind = "pick"

    def __init__(self, coll, index, result, node, func, stack):
        super().__init__(node, func, stack)
        self.coll, self.index, self.result = coll, index, result

    def __repr__(self):
        return f"pick {ast.unparse(self.node)[:40]} -> {self.result!r} @{self.loc}"


class KwRead(Ev):
    """A constant-key subscript of the function's **kwargs (logged when the interpreter has `log_kw`)."""
    kind = "kwread"

    def __init__(self, key, node, func, stack):
        super().__init__(node, func, stack)
        self.key = key

    def __repr__(self):
        return f"kwargs[{self.key!r}] @{self.loc}"


class Ret(Ev):
    kind = "ret"

    def __init__(self, value, node, func, stack):
        super().__init__(node, func, stack)
        self.value = value

    def __repr__(self):
        return f"return {self.value!r} @{self.loc}"


class Raise(Ev):
    kind = "raise"

    def __repr__(self):
        return f"raise @{self.loc}"


def flatten(trace, into_loops=True):
    """Depth-first list of events; loop alternatives are all visited (in order) when into_loops."""
    out = []
    for e in trace:
        out.append(e)
        if into_loops and isinstance(e, Loop):
            for tr, _ex in e.alts:
                out.extend(flatten(tr, True))
    return out


# ------------------------------------------------------------------------------------------
# state


class State:
    def __init__(self):
        self.env = {}
        self.heap = {}
        self.bounds = {}
        self.memo = {}
        self.trace = []
        self.neq = {}  # symbol text -> set of excluded Const values (light disequality facts)
        self.vknown = {}  # id(unknown boolean value) -> (value, truth): a value passed around keeps the truth a branch gave it
        self.facts = {}  # canonical predicate text -> (truth, frozenset of attribute names it depends on)

    def copy(self):
        s = State()
        s.env = dict(self.env)
        s.heap = dict(self.heap)
        s.bounds = dict(self.bounds)
        s.memo = dict(self.memo)
        s.trace = list(self.trace)
        s.neq = {k: set(v) for k, v in self.neq.items()}
        s.vknown = dict(self.vknown)
        s.facts = dict(self.facts)
        return s


class Frame:
    _uid = itertools.count()

    def __init__(self, func, ft, stack, depth=None):
        self.func = func
        self.ft = ft
        self.stack = stack
        self.depth = len(stack) if depth is None else depth   # inlining depth: frames of nested defs do not count (they are part of their definer)
        self.uid = next(Frame._uid)
        self.callvals = {}


class Interp:
    def __init__(self, repo, types, eff, inline=None, max_depth=4, max_paths=3000, collections=None,
                 exc_in_try=False, enum_domain=None, call_hook=None, havoc_on_call=True, integral=(), unroll_while=0,
                 distinct_objs=False):
        self.repo, self.types, self.eff = repo, types, eff
        self.inline = inline or (lambda call, callee, depth: False)
        self.max_depth = max_depth
        self.max_paths = max_paths
        self.collections = collections or {}  # key text (access path) -> list of Obj
        self.exc_in_try = exc_in_try
        self.enum_domain = enum_domain or {}  # enum class -> members to consider
        self.call_hook = call_hook
        self.name_comprehensions = False   # (table extraction) `[f(x) for x in <unknown list>]` is named "list-of:<f(x[*])>"
        self.havoc_on_call = havoc_on_call
        self.integral = set(integral)  # symbols known to be integer-valued (besides len(...))
        self.log_reads = False
        self._cmp_consts = None
        self.unroll_while = unroll_while  # >0: execute `while` loops concretely for up to that many iterations
        self._quiet = 0  # >0: re-evaluation for refinement only -- no Call / Read events are logged
        self.distinct_objs = distinct_objs  # small concrete models: differently named objects are different objects
        self.npaths = 0
        self._fresh = itertools.count()
        self.unknown_stmts = []

    # -- helpers -------------------------------------------------------------------------
    def full_enum(self, cls):
        return EnumSet(cls, self.enum_domain.get(cls) or self.repo.enums[cls].keys())

    def value_for_type(self, path, t):
        if t is None:
            return Unk(path, None)
        if t[0] == "obj":
            return Obj(path, t[1], maybe_none=True)
        if t[0] == "enum":
            return self.full_enum(t[1])
        if t[0] == "prim" and t[1] in ("float", "int"):
            return Poly.sym(path)
        return Unk(path, t)

    @staticmethod
    def _is_shared_piece(callee, fr):
        """A private module-level function (a piece shared by the methods that call it) does not use up inlining depth -- unless it
        is already on the stack."""
        if callee.cls is not None or not (callee.name.startswith("_") or (callee.module is not None and callee.module.name.startswith("_"))) or callee.name.startswith("__"):
            return False
        return not any(q == callee.qualname for _loc, q in fr.stack)

    def path_of(self, v, fallback):
        if isinstance(v, Obj):
            return v.name
        if isinstance(v, Unk):
            return v.tag
        if isinstance(v, CollV):
            return v.base
        return fallback

    # -- running -------------------------------------------------------------------------
    def run_function(self, func, bind=None, heap=None, st=None, self_obj=None):
        """Execute a function from a fresh state.  `bind` maps parameter names to abstract values;
        unbound parameters get typed unknowns (or their literal defaults when `bind` has the key
        '__defaults__')."""
        st = st or State()
        ft = self.types.ftypes(func)
        fr = Frame(func, ft, ())
        bind = dict(bind or {})
        use_defaults = bind.pop("__defaults__", False)
        if heap:
            st.heap.update(heap)
        for p in func.params + func.kwonly:
            if p in bind:
                st.env[p] = bind[p]
            elif p == "self" and func.cls:
                st.env[p] = self_obj or Obj("self", func.cls)
            elif use_defaults and p in func.defaults:
                st.env[p] = self.eval(func.defaults[p], st, fr)
            else:
                st.env[p] = self.value_for_type(p, ft.lookup(p, func.node))
                if isinstance(st.env[p], Obj):
                    st.env[p].maybe_none = p in func.defaults
        for k, v in bind.items():
            if k not in st.env:
                st.env[k] = v   # *args / **kwargs names
        return self.exec_block(func.body(), st, fr)

    def run_block(self, func, stmts, bind=None, heap=None, st=None):
        st = st or State()
        ft = self.types.ftypes(func)
        fr = Frame(func, ft, ())
        if "self" not in st.env and func.cls:
            st.env["self"] = Obj("self", func.cls)
        for k, v in (bind or {}).items():
            st.env[k] = v
        if heap:
            st.heap.update(heap)
        return self.exec_block(stmts, st, fr)

    def exec_block(self, stmts, st, fr):
        outs = [(st, None)]
        for s in stmts:
            nxt = []
            for (s0, ex) in outs:
                if ex is not None:
                    nxt.append((s0, ex))
                else:
                    nxt.extend(self.exec_stmt(s, s0, fr))
            outs = nxt
            if len(outs) > self.max_paths:
                raise AnalysisError(f"path explosion (> {self.max_paths}) in {fr.func.qualname} at line {s.lineno}")
        return outs

    # -- statements -----------------------------------------------------------------------
    def exec_stmt(self, s, st, fr):
        if isinstance(s, ast.While) and not (isinstance(s.test, ast.Constant) and s.test.value is True) and not s.orelse:
            # `while f(): body` with an in-package call in the condition: the call happens before *every* iteration, so it is the
            # first statement of an endless loop -- `while True: if not f(): break; body`
            calls = [c for c in self._calls_in(s) if self._resolve(c, st, fr)[0]]
            if calls:
                memo = self.__dict__.setdefault("_while_memo", {})
                if id(s) not in memo:
                    brk = ast.If(test=ast.UnaryOp(op=ast.Not(), operand=s.test), body=[ast.Break()], orelse=[])
                    w = ast.While(test=ast.Constant(True), body=[brk] + list(s.body), orelse=[])
                    ast.copy_location(w, s)
                    ast.copy_location(brk, s)
                    ast.fix_missing_locations(w)
                    memo[id(s)] = (s, w)
                s = memo[id(s)][1]
        # hoist in-package calls that the policy wants inlined
        pre = self._hoist_calls(s, st, fr)
        outs = []
        for st1, ex in pre:
            if ex is not None:
                outs.append((st1, ex))
                continue
            outs.extend(self._exec_stmt(s, st1, fr))
        return outs

    def _calls_in(self, node, skip_bodies=True):
        """Call nodes in evaluation-ish order, not descending into lambdas/comprehensions/defs, and
        for compound statements only into their header expressions."""
        heads = []
        if isinstance(node, (ast.If, ast.While)):
            heads = [node.test]
        elif isinstance(node, ast.For):
            heads = [node.iter]
        elif isinstance(node, (ast.Try, ast.With, ast.FunctionDef, ast.ClassDef)):
            heads = [i.context_expr for i in node.items] if isinstance(node, ast.With) else []
        else:
            heads = [node]
        out = []

        def go(n):
            if isinstance(n, (ast.Lambda, ast.ListComp, ast.SetComp, ast.GeneratorExp, ast.DictComp, ast.FunctionDef)):
                return
            for ch in ast.iter_child_nodes(n):
                go(ch)
            if isinstance(n, ast.Call):
                out.append(n)

        for h in heads:
            go(h)
        return out

    def _hoist_calls(self, s, st, fr):
        outs = [(st, None)]
        for call in self._calls_in(s):
            callees, resolved = self._resolve(call, outs[0][0], fr)
            if not callees:
                continue
            if len(callees) != 1 or not resolved:
                continue
            callee = callees[0]
            depth = fr.depth
            if hasattr(self.inline, "__dict__"):
                self.inline.caller = fr.func   # the policy may depend on who calls
            if depth >= self.max_depth + 2 or not (getattr(callee, "parent", None) is not None or (depth < self.max_depth and self.inline(call, callee, depth))):
                continue
            nxt = []
            for st0, ex in outs:
                if ex is not None:
                    nxt.append((st0, ex))
                    continue
                for st1, val, ex1 in self.inline_call(call, callee, st0, fr):
                    if ex1 is not None:
                        nxt.append((st1, ex1))
                    else:
                        st1.env["__call_%d" % id(call)] = val
                        nxt.append((st1, None))
            outs = nxt
            if len(outs) > self.max_paths:
                raise AnalysisError(f"path explosion inlining {callee.qualname}")
        return outs

    def _resolve(self, call, st, fr):
        """Static call resolution, refined by the abstract receiver: when the static type of the receiver is unknown or a
        union (a loop over `(self.organization, self.workflow, self.product)`), the class of the receiver *value* picks
        the method."""
        callees, resolved = fr.ft.resolve_call(call)
        f = call.func
        if isinstance(f, ast.Name) and f.id in st.env:
            bv = st.env[f.id]
            if isinstance(bv, BoundV) and bv.func is not None:
                return [bv.func], True
            if isinstance(bv, FuncV) and isinstance(bv.node, ast.FunctionDef):
                from .loader import FuncInfo
                fi = FuncInfo(bv.node.name, bv.node, fr.func.cls, fr.func.module, parent=fr.func)
                fi.cenv = bv.cenv
                return [fi], True
        if (len(callees) != 1 or not resolved) and isinstance(f, ast.Attribute) and not any(isinstance(n, ast.Call) for n in ast.walk(f.value)):
            self._quiet += 1
            try:
                rv = self.eval(f.value, st, fr)
            finally:
                self._quiet -= 1
            if isinstance(rv, Obj) and rv.cls:
                m = self.repo.lookup_method(rv.cls, f.attr)
                if m is not None:
                    return [m], True
        return callees, resolved

    def inline_call(self, call, callee, st, fr):
        """-> list of (state, return value, exit) ; exit is None or ('raise', node)."""
        unbound = isinstance(call.func, ast.Attribute) and isinstance(call.func.value, ast.Name) and call.func.value.id in self.repo.classes \
            and call.func.value.id not in st.env
        args = self._bind_args(call, callee, st, fr, unbound)
        recv = None
        if unbound:
            recv = args.get("self")
        elif isinstance(call.func, ast.Name) and isinstance(st.env.get(call.func.id), BoundV) and callee.params and callee.params[0] == "self":
            recv = st.env[call.func.id].recv
            args["self"] = recv
        elif isinstance(call.func, ast.Attribute) and callee.cls and callee.params and callee.params[0] == "self":
            if isinstance(call.func.value, ast.Call) and isinstance(call.func.value.func, ast.Name) and call.func.value.func.id == "super":
                recv = st.env.get("self")
            else:
                recv = self.eval(call.func.value, st, fr)
            if isinstance(recv, Obj) and recv.maybe_none:
                recv = Obj(recv.name, recv.cls, False)
            args["self"] = recv
        elif callee.name == "__init__" and callee.cls:
            recv = Obj(f"new{next(self._fresh)}:{callee.cls}", callee.cls)
            args["self"] = recv
        cev = Call(ast.unparse(call.func), [callee.qualname], args, call, fr.func, fr.stack, True, recv)
        st.trace.append(cev)
        saved_env = st.env
        nfr = Frame(callee, self.types.ftypes(callee), fr.stack + ((fr.func.loc(call), callee.qualname),),
                    depth=fr.depth if (getattr(callee, "parent", None) is not None or self._is_shared_piece(callee, fr)) else fr.depth + 1)
        env = dict(saved_env) if getattr(callee, "parent", None) is not None else {}   # a nested def sees the locals of its definer
        foreign_closure = getattr(callee, "cenv", None) is not None
        if foreign_closure:
            env = dict(callee.cenv)   # ... also when it is called from a helper it was handed to
        for p in callee.params + callee.kwonly:
            if p in args:
                env[p] = args[p]
            elif p in callee.defaults:
                env[p] = self._eval_default(callee.defaults[p])
            else:
                env[p] = self.value_for_type(p, nfr.ft.lookup(p, callee.node))
        if callee.kwarg:
            env[callee.kwarg] = Unk("kwargs", ("dict", None, None))
            env["__kwargs__"] = ListV([Const(k) for k in args.get("__extra_kw__", [])])
        if getattr(callee, "vararg", None):
            # *args: the positional arguments beyond the named parameters, as a tuple
            npos = len([p for p in callee.params if not (p == "self" and callee.cls and not unbound)])
            extra_pos = [a0 for a0 in call.args[npos:]]
            items, known = [], not any(isinstance(a0, ast.Starred) for a0 in call.args[:npos])
            for a0 in extra_pos:
                if not known:
                    break
                if isinstance(a0, ast.Starred):
                    sv = self.eval(a0.value, st, fr)   # `*rest` handed on: its elements, when they are known
                    if isinstance(sv, ListV):
                        items.extend(sv.items)
                    else:
                        known = False
                else:
                    v0 = self.eval(a0, st, fr)
                    r0 = self._ref_of(a0, v0, st, fr)   # a model object's list handed over is that list, not a copy
                    items.append((r0 if r0 is not None and r0.obj is not None else None) or v0)
            env[callee.vararg] = ListV(items, True, "tuple") if known else Unk("varargs", ("list", None))
        st.env = env
        res = []
        # local containers handed to the callee are shared objects: what the callee does to its parameter (add / append /
        # remove, or a loop that makes it unknown) is visible through the caller's name, unless the callee rebinds the name
        shared = {}
        env0 = dict(env)
        cparams = [p for p in callee.params if not (p == "self" and callee.cls and not unbound)]
        for p, a in list(zip(cparams, call.args)) + [(kw.arg, kw.value) for kw in call.keywords if kw.arg]:
            if isinstance(a, ast.Name) and a.id in saved_env and isinstance(saved_env[a.id], (ListV, CollV)) and p in env:
                rebound = any((isinstance(n, ast.Name) and n.id == p and isinstance(n.ctx, ast.Store)) for n in ast.walk(callee.node))
                if not rebound:
                    shared[p] = a.id
        nested = getattr(callee, "parent", None) is not None
        own = set()
        if nested:
            own = set(callee.params) | set(callee.kwonly)
            nonloc = set()
            for n in ast.walk(callee.node):
                if isinstance(n, ast.Name) and isinstance(n.ctx, ast.Store):
                    own.add(n.id)
                elif isinstance(n, (ast.Nonlocal, ast.Global)):
                    nonloc |= set(n.names)
            own -= nonloc
        for st1, ex in self.exec_block(callee.body(), st, nfr):
            back = {a: st1.env[p] for p, a in shared.items() if p in st1.env and st1.env[p] is not env0.get(p)}
            if nested and not foreign_closure:
                # free variables of a nested def are the definer's locals: what the body did to them stays
                for k, v in st1.env.items():
                    if k in saved_env and k not in own and v is not saved_env[k]:
                        back[k] = v
            st1.env = dict(saved_env)
            st1.env.update(back)
            if ex is None:
                res.append((st1, NONE if callee.name != "__init__" else recv, None))
            elif ex[0] == "return":
                res.append((st1, ex[1] if callee.name != "__init__" else recv, None))
            elif ex[0] == "raise":
                res.append((st1, None, ex))
            else:
                raise AnalysisError(f"unexpected exit {ex} from {callee.qualname}")
        return res

    def _eval_default(self, node):
        try:
            if isinstance(node, (ast.List, ast.Dict, ast.Set)):
                return ListV([])
            v = ast.literal_eval(node)
            if isinstance(v, (int, float)) and not isinstance(v, bool):
                return Poly.const(v)
            return Const(v)
        except Exception:
            en = self.repo.enum_of_member_expr(node)
            if en:
                return EnumSet(en[0], [en[1]])
            return Unk(ast.unparse(node))

    def _bind_args(self, call, callee, st, fr, unbound=False):
        params = list(callee.params)
        if callee.cls and params and params[0] == "self" and not unbound:
            params = params[1:]
        args = {}
        for i, a in enumerate(call.args):
            if isinstance(a, ast.Starred):
                continue
            if i < len(params):
                v = self.eval(a, st, fr)
                if isinstance(v, FuncV) and isinstance(v.node, (ast.FunctionDef, ast.Lambda)) and v.cenv is None and a is not None:
                    v = FuncV(v.node, dict(st.env))   # a nested def / lambda handed on: it keeps seeing its definer's locals
                r = self._ref_of(a, v, st, fr)
                args[params[i]] = (r if r is not None and r.obj is not None else None) or v   # (references to the caller's locals do not cross frames)
        extra = []
        for kw in call.keywords:
            if kw.arg is None:
                dv = self.eval(kw.value, st, fr)
                if isinstance(dv, DictV):
                    for k, v, _r in dv.entries:
                        if isinstance(k, Const) and isinstance(k.v, str):
                            if k.v in callee.params or k.v in callee.kwonly:
                                args[k.v] = v
                            else:
                                extra.append(k.v)
                continue
            if kw.arg in callee.params or kw.arg in callee.kwonly:
                v = self.eval(kw.value, st, fr)
                r = self._ref_of(kw.value, v, st, fr)
                args[kw.arg] = (r if r is not None and r.obj is not None else None) or v
            else:
                extra.append(kw.arg)
        if extra:
            args["__extra_kw__"] = extra
        return args

    def _pair_select(self, s):
        """`x = T[bool(c)]` / `T[c]` with c a comparison (T a pair written in place, a local or a module-level table): the
        conditional expression `T[1] if c else T[0]`, since True == 1 and False == 0 as an index.  T must be free of calls, so
        that evaluating it in only one branch changes nothing.  -> statement or None."""
        v = s.value
        if not isinstance(v, ast.Subscript) or isinstance(v.slice, ast.Slice):
            return None
        c = v.slice
        if isinstance(c, ast.Call) and isinstance(c.func, ast.Name) and c.func.id == "bool" and len(c.args) == 1 and not c.keywords:
            c = c.args[0]
        elif not (isinstance(c, (ast.Compare, ast.BoolOp)) or (isinstance(c, ast.UnaryOp) and isinstance(c.op, ast.Not))):
            return None
        if any(isinstance(n, (ast.Call, ast.NamedExpr, ast.Await, ast.Yield)) for n in ast.walk(v.value)):
            return None
        memo = self.__dict__.setdefault("_pair_memo", {})
        if id(s) not in memo:
            if isinstance(v.value, (ast.Tuple, ast.List)) and len(v.value.elts) == 2:
                hi, lo = v.value.elts[1], v.value.elts[0]
            else:
                hi = ast.copy_location(ast.Subscript(value=v.value, slice=ast.copy_location(ast.Constant(1), v), ctx=ast.Load()), v)
                lo = ast.copy_location(ast.Subscript(value=v.value, slice=ast.copy_location(ast.Constant(0), v), ctx=ast.Load()), v)
            ife = ast.copy_location(ast.IfExp(test=c, body=hi, orelse=lo), v)
            s2 = ast.Return(value=ife) if isinstance(s, ast.Return) else ast.Assign(targets=s.targets, value=ife, type_comment=None)
            memo[id(s)] = (s, ast.copy_location(s2, s))
        return memo[id(s)][1]

    def _comp_as_loop(self, s):
        """(table extraction mode) `x = [f(a) for a in xs if c]` written as the loop it abbreviates, so that what f does is seen as
        events of a loop over xs."""
        v = s.value
        if not (isinstance(s, ast.Assign) and len(s.targets) == 1 and isinstance(s.targets[0], ast.Name) and isinstance(v, ast.ListComp) and len(v.generators) == 1
                and any(isinstance(n, ast.Call) for n in ast.walk(v.elt))):
            return None
        memo = self.__dict__.setdefault("_comploop_memo", {})
        if id(s) not in memo:
            g = v.generators[0]
            name = s.targets[0].id
            app = ast.Expr(value=ast.Call(func=ast.Attribute(value=ast.Name(id=name, ctx=ast.Load()), attr="append", ctx=ast.Load()), args=[v.elt], keywords=[]))
            body = [app]
            for c in reversed(g.ifs):
                body = [ast.If(test=c, body=body, orelse=[])]
            init = ast.Assign(targets=[ast.Name(id=name, ctx=ast.Store())], value=ast.List(elts=[], ctx=ast.Load()), type_comment=None)
            lp = ast.For(target=g.target, iter=g.iter, body=body, orelse=[], type_comment=None)
            for n in (init, lp):
                ast.copy_location(n, s)
                ast.fix_missing_locations(n)
            memo[id(s)] = (s, [init, lp])
        return memo[id(s)][1]

    def _exec_stmt(self, s, st, fr):
        if self.name_comprehensions and isinstance(s, ast.Assign):
            two = self._comp_as_loop(s)
            if two is not None:
                return self.exec_block(two, st, fr)
        if isinstance(s, (ast.Assign, ast.Return)) and isinstance(s.value, ast.Subscript):
            s = self._pair_select(s) or s
        # `x = A if C else B` / `return A if C else B` with an undecided C is the if-statement it abbreviates
        if isinstance(s, ast.Return) and isinstance(s.value, ast.IfExp) and self.truth(s.value.test, st, fr) is None:
            outs = []
            for st1, truth, forked in self.branch(s.value.test, st, fr):
                v = s.value.body if truth else s.value.orelse
                if isinstance(s, ast.Return):
                    s2 = ast.Return(value=v)
                elif isinstance(s, ast.Assign):
                    s2 = ast.Assign(targets=s.targets, value=v, type_comment=None)
                else:
                    s2 = ast.AugAssign(target=s.target, op=s.op, value=v)
                ast.copy_location(s2, s)
                outs.extend(self._exec_stmt(s2, st1, fr))
            return outs
        if isinstance(s, ast.Expr):
            self.eval(s.value, st, fr, effects=True)
            return [(st, None)]
        if isinstance(s, ast.Assign) and isinstance(s.value, ast.IfExp) and self.truth(s.value.test, st, fr) is None:
            self._quiet += 1
            try:
                va, vb = self.eval(s.value.body, st, fr), self.eval(s.value.orelse, st, fr)
            finally:
                self._quiet -= 1
            both_members = isinstance(va, EnumSet) and isinstance(vb, EnumSet) and va.single() is not None and vb.single() is not None and va.single() != vb.single()
            if (isinstance(va, (BoundV, FuncV)) and isinstance(vb, (BoundV, FuncV))) or (isinstance(va, DictV) and isinstance(vb, DictV)) or both_members:
                # `f = self.a if cond else self.b`: which code runs later depends on the condition -- one path each
                # (likewise two tables of keyword arguments: which call is made later depends on the condition; and two
                # different members of an enum: `state = A if c else B` is a transition chosen by c)
                outs = []
                for st1, truth, forked in self.branch(s.value.test, st, fr):
                    s2 = ast.copy_location(ast.Assign(targets=s.targets, value=(s.value.body if truth else s.value.orelse), type_comment=None), s)
                    outs.extend(self._exec_stmt(s2, st1, fr))
                return outs
        if isinstance(s, ast.Assign):
            # table lookup with an enum-valued key that is not decided yet: one path per member (the table is a case split)
            look = s.value
            keyn = dn = None
            if isinstance(look, ast.Call) and isinstance(look.func, ast.Attribute) and look.func.attr == "get" and look.args and not look.keywords:
                dn, keyn = look.func.value, look.args[0]
            elif isinstance(look, ast.Subscript) and not isinstance(look.slice, ast.Slice):
                dn, keyn = look.value, look.slice
            if keyn is not None and isinstance(keyn, (ast.Name, ast.Attribute)):
                self._quiet += 1
                try:
                    dv, kv = self.eval(dn, st, fr), self.eval(keyn, st, fr)
                finally:
                    self._quiet -= 1
                if isinstance(dv, DictV) and isinstance(kv, EnumSet) and kv.single() is None and 1 < len(kv.members) <= 8:
                    outs = []
                    for m in sorted(kv.members):
                        s2 = st.copy()
                        if self.refine(keyn, EnumSet(kv.cls, [m]), s2, fr):
                            outs.extend(self._exec_stmt(s, s2, fr))
                    if outs:
                        return outs
            # selection from a table by an enum-valued local that is not decided yet (`next(row for k, row in table if key == k)`):
            # one path per member, when that decides the selection for every member
            if isinstance(look, ast.Call) and isinstance(look.func, ast.Name) and look.func.id == "next" and look.args and isinstance(look.args[0], ast.GeneratorExp):
                self._quiet += 1
                try:
                    v0 = self.eval(look, st.copy(), fr)
                finally:
                    self._quiet -= 1
                if isinstance(v0, Unk):
                    bound = {x.id for c in ast.walk(look) if isinstance(c, ast.comprehension) for x in ast.walk(c.target) if isinstance(x, ast.Name)}
                    for nm in [n for n in ast.walk(look) if isinstance(n, ast.Name) and n.id not in bound and isinstance(st.env.get(n.id), EnumSet)]:
                        kv = st.env[nm.id]
                        if kv.single() is not None or not (1 < len(kv.members) <= 8):
                            continue
                        cases = []
                        for m in sorted(kv.members):
                            s2 = st.copy()
                            if not self.refine(nm, EnumSet(kv.cls, [m]), s2, fr):
                                continue
                            self._quiet += 1
                            try:
                                vm = self.eval(look, s2.copy(), fr)
                            finally:
                                self._quiet -= 1
                            if isinstance(vm, Unk):
                                cases = None
                                break
                            cases.append(s2)
                        if cases:
                            outs = []
                            for s2 in cases:
                                outs.extend(self._exec_stmt(s, s2, fr))
                            return outs
            unpack = isinstance(s.value, (ast.Tuple, ast.List)) and any(isinstance(t, (ast.Tuple, ast.List)) for t in s.targets)
            if unpack and len(s.targets) == 1 and isinstance(s.targets[0], (ast.Tuple, ast.List)) and len(s.targets[0].elts) == len(s.value.elts) \
                    and not any(isinstance(x, ast.Starred) for x in list(s.targets[0].elts) + list(s.value.elts)) \
                    and any(isinstance(t, ast.Name) for t in s.targets[0].elts):
                # `a, b = x.p, x.q`: every right-hand side is evaluated first; a *local name* then denotes the very container it was
                # given (like `a = x.p`), an attribute target receives the value
                vals = []
                for x in s.value.elts:
                    self._no_refs = getattr(self, "_no_refs", 0) + 1
                    try:
                        v = self.eval(x, st, fr, effects=True)
                    finally:
                        self._no_refs -= 1
                    vals.append((v, self._ref_of(x, v, st, fr)))
                for t, (v, ref) in zip(s.targets[0].elts, vals):
                    if isinstance(t, ast.Name) and ref is not None:
                        st.env[t.id] = ref
                        for k in [k for k in st.memo if k[0] == fr.uid and _mentions(k[1], t.id)]:
                            del st.memo[k]
                    else:
                        self.assign(t, v, st, fr, s)
                return [(st, None)]
            if unpack:
                self._no_refs = getattr(self, "_no_refs", 0) + 1   # `a, b = (x.p, x.q)` copies the values of the right-hand side
            try:
                v = self.eval(s.value, st, fr, effects=True)
            finally:
                if unpack:
                    self._no_refs -= 1
            ref = self._ref_of(s.value, v, st, fr)
            for t in s.targets:
                if ref is not None and isinstance(t, ast.Name):
                    st.env[t.id] = ref   # alias of a model object's container: same object, not a copy
                    for k in [k for k in st.memo if k[0] == fr.uid and _mentions(k[1], t.id)]:
                        del st.memo[k]
                    continue
                self.assign(t, v, st, fr, s)
            return [(st, None)]
        if isinstance(s, ast.AnnAssign):
            if s.value is not None:
                v = self.eval(s.value, st, fr, effects=True)
                self.assign(s.target, v, st, fr, s)
            return [(st, None)]
        if isinstance(s, ast.AugAssign):
            cur = self.eval(s.target, st, fr)
            rhs = self.eval(s.value, st, fr, effects=True)
            v = self.binop(s.op, cur, rhs, s)
            self.assign(s.target, v, st, fr, s, aug=(type(s.op).__name__, rhs))
            return [(st, None)]
        if isinstance(s, ast.If):
            return self.exec_if(s, st, fr)
        if isinstance(s, ast.For):
            return self.exec_for(s, st, fr)
        if isinstance(s, ast.While):
            return self.exec_while(s, st, fr)
        if isinstance(s, ast.Return):
            val = s.value
            inner = val.args[0] if isinstance(val, ast.Call) and isinstance(val.func, ast.Name) and val.func.id == "bool" and len(val.args) == 1 else val
            if isinstance(inner, (ast.Compare, ast.BoolOp)) or (isinstance(inner, ast.UnaryOp) and isinstance(inner.op, ast.Not)) or (inner is not val):
                if self.truth(inner, st, fr) is None:
                    outs = []
                    for st1, truth, forked in self.branch(inner, st, fr):
                        v1 = Const(truth)
                        if not fr.stack:
                            st1.trace.append(Ret(v1, s, fr.func, fr.stack))
                        outs.append((st1, ("return", v1)))
                    return outs
            v = self.eval(s.value, st, fr, effects=True) if s.value is not None else NONE
            v = self._deref_locals(v, st)
            if isinstance(v, Unk) and v.typ == ("prim", "bool") and isinstance(s.value, ast.Call):
                self._quiet += 1
                try:
                    t = self.truth(s.value, st, fr)   # a boolean whose value an established fact decides
                finally:
                    self._quiet -= 1
                if t is not None:
                    v = Const(t)
            if not fr.stack:
                st.trace.append(Ret(v, s, fr.func, fr.stack))
            return [(st, ("return", v))]
        if isinstance(s, ast.Break):
            return [(st, ("break",))]
        if isinstance(s, ast.Continue):
            return [(st, ("continue",))]
        if isinstance(s, ast.Pass):
            return [(st, None)]
        if isinstance(s, ast.Raise):
            st.trace.append(Raise(s, fr.func, fr.stack))
            return [(st, ("raise", s))]
        if isinstance(s, ast.Try):
            return self.exec_try(s, st, fr)
        if isinstance(s, ast.With):
            for it in s.items:
                v = self.eval(it.context_expr, st, fr, effects=True)
                if it.optional_vars is not None:
                    self.assign(it.optional_vars, Unk(ast.unparse(it.context_expr)), st, fr, s)
            return self.exec_block(s.body, st, fr)
        if isinstance(s, ast.Delete):
            for t in s.targets:
                for tt in (t.elts if isinstance(t, (ast.Tuple, ast.List)) else [t]):
                    if isinstance(tt, ast.Attribute):
                        base = self.eval(tt.value, st, fr)
                        cls = base.cls if isinstance(base, Obj) else None
                        st.trace.append(Mut(cls, tt.attr, base, "del", [], s, fr.func, fr.stack))
                        if isinstance(base, Obj):
                            st.heap.pop((base.name, tt.attr), None)
                    elif isinstance(tt, ast.Name):
                        st.env.pop(tt.id, None)
                    elif isinstance(tt, ast.Subscript):
                        self._mut_event(tt.value, "delitem", [], s, st, fr)
            return [(st, None)]
        if isinstance(s, ast.FunctionDef):
            st.env[s.name] = FuncV(s)
            return [(st, None)]
        if isinstance(s, (ast.Import, ast.ImportFrom, ast.Global, ast.Nonlocal, ast.ClassDef)):
            return [(st, None)]
        if isinstance(s, ast.Assert):
            return [(st, None)]
        self.unknown_stmts.append(s)
        raise AnalysisError(f"unsupported statement {type(s).__name__} at {fr.func.loc(s)}")

    def exec_if(self, s, st, fr):
        outs = []
        vtags = []
        self._quiet += 1
        try:
            for n in ast.walk(s.test):
                if isinstance(n, ast.Name) and n.id in st.env and isinstance(st.env[n.id], Unk) and st.env[n.id].tag != n.id:
                    vtags.append((n.id, st.env[n.id].tag))
                elif isinstance(n, ast.Name) and isinstance(st.env.get(n.id), RefV) and st.env[n.id].obj is not None:
                    vtags.append((n.id, f"{st.env[n.id].obj.name}.{st.env[n.id].attr}"))   # a model object's list handed over under another name
        finally:
            self._quiet -= 1
        for st1, truth, forked in self.branch(s.test, st, fr):
            cv = Cond(ast.unparse(s.test), truth, forked, s, fr.func, fr.stack)
            cv.vtags = tuple(t for _n, t in vtags)
            cv.vnames = tuple(n for n, t in vtags)
            st1.trace.append(cv)
            outs.extend(self.exec_block(s.body if truth else s.orelse, st1, fr))
        return outs

    def branch(self, test, st, fr):
        """-> list of (state, truth, forked)."""
        v = self.truth(test, st, fr)
        if v is not None:
            return [(st, v, False)]
        cs = self._enum_membership_split(test, st, fr)
        if cs is not None:
            return cs
        key = (fr.uid, ast.unparse(test))
        if key in st.memo:
            return [(st, st.memo[key], False)]
        sk = self._semantic_key(test, st, fr)
        if sk is not None and sk[0] in st.memo:
            return [(st, st.memo[sk[0]] != sk[1], False)]
        res = []
        for truth in (True, False):
            s2 = st.copy()
            self._quiet += 1
            try:
                ok = self.assume(test, truth, s2, fr)
            finally:
                self._quiet -= 1
            if ok is False:
                continue
            s2.memo[key] = truth
            if sk is not None:
                s2.memo[sk[0]] = (truth != sk[1])
            res.append((s2, truth, True))
        if len(res) == 1:
            return [(res[0][0], res[0][1], False)]
        self.npaths += 1
        return res

    def _enum_membership_split(self, test, st, fr):
        """`x in table` / `x not in table` with x an enum value that is not known and `table` a dict (or tuple) keyed by members of
        that enum: one path per member of x, so that a later `table[x]` is decided (a table-driven gate instead of an if/elif
        chain).  -> list of (state, truth, forked) or None."""
        t = test
        neg = False
        while isinstance(t, ast.UnaryOp) and isinstance(t.op, ast.Not):
            neg, t = not neg, t.operand
        if not (isinstance(t, ast.Compare) and len(t.ops) == 1 and isinstance(t.ops[0], (ast.In, ast.NotIn)) and isinstance(t.left, (ast.Name, ast.Attribute))):
            return None
        if isinstance(t.ops[0], ast.NotIn):
            neg = not neg
        self._quiet += 1
        try:
            x = self.eval(t.left, st, fr)
            tab = self.eval(t.comparators[0], st, fr)
        finally:
            self._quiet -= 1
        if not (isinstance(x, EnumSet) and 1 < len(x.members) <= 8):
            return None
        if isinstance(tab, DictV):
            keys = [k for k, _v, _r in tab.entries]
        elif isinstance(tab, ListV) and tab.fresh:
            keys = list(tab.items)
        else:
            return None
        if not keys or not all(isinstance(k, EnumSet) and k.cls == x.cls and k.single() is not None for k in keys):
            return None
        names = {k.single() for k in keys}
        out = []
        for m in sorted(x.members):
            s2 = st.copy()
            self._quiet += 1
            try:
                self.refine(t.left, EnumSet(x.cls, [m]), s2, fr)
            finally:
                self._quiet -= 1
            out.append((s2, (m in names) != neg, True))
        self.npaths += len(out) - 1
        return out

    def _semantic_key(self, test, st, fr):
        """For `a <op> b` over polynomials: a memo key that identifies the comparison by its normal form
        (so `i < len(x)` and `len(x) > i` and `not i >= len(x)` share one truth value on a path).
        -> ((-2, kind, repr(poly)), negated) or None.  The key's first component -2 never equals a frame uid."""
        neg = False
        t = test
        while isinstance(t, ast.UnaryOp) and isinstance(t.op, ast.Not):
            neg = not neg
            t = t.operand
        if not (isinstance(t, ast.Compare) and len(t.ops) == 1 and isinstance(t.ops[0], (ast.Lt, ast.LtE, ast.Gt, ast.GtE))):
            return None
        a = self.eval(t.left, st, fr)
        b = self.eval(t.comparators[0], st, fr)
        if not (isinstance(a, Poly) and isinstance(b, Poly)):
            return None
        d = a - b
        op = t.ops[0]
        # normalise to  d < 0  or  d <= 0
        if isinstance(op, ast.Lt):
            kind, n2 = "lt", False
        elif isinstance(op, ast.LtE):
            kind, n2 = "le", False
        elif isinstance(op, ast.Gt):      # d > 0  ==  not (d <= 0)
            kind, n2 = "le", True
        else:                             # d >= 0 ==  not (d < 0)
            kind, n2 = "lt", True
        return ((-2, kind + ":" + repr(d)), neg != n2)

    def _assigned_in(self, stmts):
        names, attrs = set(), set()
        for s in stmts:
            for n in ast.walk(s):
                if isinstance(n, (ast.Assign, ast.AugAssign, ast.AnnAssign, ast.For)):
                    tgts = n.targets if isinstance(n, ast.Assign) else [n.target]
                    for t in tgts:
                        for x in ast.walk(t):
                            if isinstance(x, ast.Name) and isinstance(x.ctx, ast.Store):
                                names.add(x.id)
                            if isinstance(x, ast.Attribute) and isinstance(x.ctx, ast.Store):
                                attrs.add(x.attr)
                            if isinstance(x, ast.Subscript) and isinstance(x.ctx, ast.Store) and isinstance(x.value, ast.Name):
                                names.add(x.value.id)   # `d[k] = v` changes the local container d
                if isinstance(n, ast.Delete):
                    for t in n.targets:
                        if isinstance(t, ast.Subscript) and isinstance(t.value, ast.Name):
                            names.add(t.value.id)
                if isinstance(n, ast.Call) and isinstance(n.func, ast.Attribute) and n.func.attr in MUTATORS:
                    v = n.func.value
                    if isinstance(v, ast.Attribute):
                        attrs.add(v.attr)
                    elif isinstance(v, ast.Name):
                        names.add(v.id)
        return names, attrs

    def _callee_write_attrs(self, stmts, fr, elem=None):
        """Attributes the in-package callees of `stmts` may write.  `elem` = (loop variable name, class of the elements by value):
        a method call on the loop variable that the static types could not resolve is resolved by that class."""
        attrs = set()
        if elem is not None and elem[1]:
            inside = {id(n) for s0 in stmts for n in ast.walk(s0)}
            roots = []
            for cs in self.eff.calls_of(fr.func):
                if id(cs.node) not in inside:
                    continue
                fn = cs.node.func if isinstance(cs.node, ast.Call) else None
                if (not cs.resolved or len(cs.callees) > 1) and isinstance(fn, ast.Attribute) and isinstance(fn.value, ast.Name) and fn.value.id == elem[0]:
                    m = self.repo.lookup_method(elem[1], fn.attr)
                    if m is not None:
                        roots.append(m)
                        continue
                roots.extend(cs.callees)
            funcs = self.eff.reachable(roots, False)
        else:
            funcs = self.eff.reachable_from_stmts(fr.func, stmts, precise=False)
        for f in funcs:
            for e in self.eff.of(f):
                if e.kind in ("store", "mut", "del"):
                    attrs.add(e.attr)
        return attrs

    @staticmethod
    def _source_name(e, sorters=()):
        """Peel list()/sorted()/filter()/comprehension/permutation-sorter wrappers; -> the Name the value derives from."""
        while True:
            if isinstance(e, ast.Name):
                return e.id
            if isinstance(e, ast.Call) and isinstance(e.func, ast.Name):
                n = e.func.id
                if n in ("list", "sorted", "tuple") and e.args:
                    e = e.args[0]
                    continue
                if n == "filter" and len(e.args) == 2:
                    e = e.args[1]
                    continue
                if (n.startswith("sort_") or n in sorters) and e.args:
                    e = e.args[0]
                    continue
                return None
            if isinstance(e, ast.ListComp) and len(e.generators) == 1 and isinstance(e.elt, ast.Name) \
                    and isinstance(e.generators[0].target, ast.Name) and e.elt.id == e.generators[0].target.id:
                e = e.generators[0].iter
                continue
            return None

    def _self_refining(self, st, names, attrs, stmts, fr):
        """Names bound to a filtered collection whose every re-assignment in `stmts` only narrows / reorders it:
        the element facts survive the loop (except facts that read something the loop changes)."""
        keep = {}
        for n in names:
            v = st.env.get(n)
            if not isinstance(v, CollV):
                continue
            ok, seen = True, False
            for s0 in stmts:
                for a in ast.walk(s0):
                    if isinstance(a, ast.Assign) and any(isinstance(t, ast.Name) and t.id == n for t in a.targets):
                        seen = True
                        if self._source_name(a.value) != n and not self._call_narrows(a.value, n, fr):
                            ok = False
                    elif isinstance(a, (ast.AugAssign, ast.For)) and any(isinstance(t, ast.Name) and t.id == n for t in ast.walk(a.target)):
                        ok = False
                    elif isinstance(a, ast.Call) and isinstance(a.func, ast.Attribute) and isinstance(a.func.value, ast.Name) and a.func.value.id == n \
                            and a.func.attr in MUTATORS and a.func.attr not in ("remove", "pop", "sort", "reverse", "discard"):
                        ok = False
            if ok and seen:
                preds = []
                for pn, body in v.preds:
                    conjs = body.values if isinstance(body, ast.BoolOp) and isinstance(body.op, ast.And) else [body]
                    for c in conjs:
                        if not (self.pred_reads(c, fr) & attrs):
                            preds.append((pn, c))
                keep[n] = CollV(v.base, preds, v.typ, v.kind, penv=v.penv)
        return keep

    def _call_narrows(self, e, name, fr, depth=0):
        """`name = helper(..., name, ...)` where every in-package callee returns, on all its paths, a value derived from the
        parameter that receives `name` by order-preserving narrowing (and only re-binds that parameter the same way)."""
        if not isinstance(e, ast.Call) or depth > 3:
            return False
        callees, resolved = fr.ft.resolve_call(e)
        if not callees or not resolved:
            return False
        for c in callees:
            params = [p for p in c.params if not (p == "self" and c.cls)] if isinstance(e.func, (ast.Attribute, ast.Name)) and c.cls and c.params[:1] == ["self"] else list(c.params)
            pos = None
            for i, a in enumerate(e.args):
                if isinstance(a, ast.Name) and a.id == name and i < len(params):
                    pos = params[i]
            for kw in e.keywords:
                if kw.arg and isinstance(kw.value, ast.Name) and kw.value.id == name:
                    pos = kw.arg
            if pos is None:
                return False
            cft = self.types.ftypes(c)
            rets = [r for r in ast.walk(c.node) if isinstance(r, ast.Return) and cft.owner_func(r) is c.node]
            if not rets:
                return False
            for r in rets:
                if r.value is None or self._source_name(r.value) != pos:
                    return False
            for a in ast.walk(c.node):
                if isinstance(a, ast.Assign) and any(isinstance(t, ast.Name) and t.id == pos for t in a.targets) and cft.owner_func(a) is c.node:
                    cfr = Frame(c, cft, ())
                    if self._source_name(a.value) != pos and not self._call_narrows(a.value, pos, cfr, depth + 1):
                        return False
        return True

    def havoc(self, st, names, attrs, fr):
        for n in names:
            if n in st.env:
                t = fr.ft.lookup(n, fr.func.node)
                st.env[n] = self.value_for_type(f"{n}~{next(self._fresh)}", t)
        if attrs:
            for k in [k for k in st.heap if k[1] in attrs]:
                del st.heap[k]
        for k in [k for k in st.memo if k[0] == fr.uid and any(n in k[1] for n in names)]:
            del st.memo[k]
        if attrs:
            for k in [k for k in st.memo if any(a in k[1] for a in attrs)]:
                del st.memo[k]
            self._drop_facts(st, attrs)

    @staticmethod
    def _chain_args(it):
        """`itertools.chain(a, b, ...)` / `chain(a, b)` / `[*a, *b]` / `a + b` used as a loop iterable -> [a, b, ...]"""
        if isinstance(it, ast.Call) and not it.keywords and it.args and ast.unparse(it.func) in ("itertools.chain", "chain") \
                and not any(isinstance(a, ast.Starred) for a in it.args):
            return list(it.args)
        if isinstance(it, (ast.List, ast.Tuple)) and it.elts and all(isinstance(x, ast.Starred) for x in it.elts):
            return [x.value for x in it.elts]
        if isinstance(it, ast.Call) and not it.keywords and len(it.args) == 1 and isinstance(it.func, ast.Name) and it.func.id in ("list", "tuple", "iter"):
            return Interp._chain_args(it.args[0])
        if isinstance(it, ast.BinOp) and isinstance(it.op, ast.Add):
            # `a + b` of two model collections (attribute chains, possibly wrapped in list()/tuple())
            def coll(e):
                if isinstance(e, ast.Call) and not e.keywords and len(e.args) == 1 and isinstance(e.func, ast.Name) and e.func.id in ("list", "tuple"):
                    e = e.args[0]
                return e if isinstance(e, ast.Attribute) else None
            parts = []
            for e in (it.left, it.right):
                sub = Interp._chain_args(e) if isinstance(e, ast.BinOp) else None
                if sub is None:
                    c = coll(e)
                    if c is None:
                        return None
                    sub = [c]
                parts.extend(sub)
            return parts
        return None

    def _generator_parts(self, it, st, fr):
        """`for x in obj.gen():` where gen's body is only `yield from <expr>` statements -> the <expr>s with `self` replaced
        by the receiver expression (the loop over the generator is the loops over those, in order)."""
        if not (isinstance(it, ast.Call) and not it.args and not it.keywords and isinstance(it.func, ast.Attribute)):
            return None
        callees, resolved = self._resolve(it, st, fr)
        if len(callees) != 1 or not resolved:
            return None
        g = callees[0]
        body = [b for b in g.body() if not (isinstance(b, ast.Expr) and isinstance(b.value, ast.Constant))]
        if g.params != ["self"] or not body:
            return None
        if len(body) == 1 and isinstance(body[0], ast.Return) and body[0].value is not None and self._chain_args(body[0].value) is not None:
            # a helper that returns the concatenation of several collections of the receiver
            exprs = self._chain_args(body[0].value)
        elif all(isinstance(b, ast.Expr) and isinstance(b.value, ast.YieldFrom) for b in body):
            exprs = [b.value.value for b in body]
        else:
            return None
        import copy
        recv = it.func.value

        class S(ast.NodeTransformer):
            def visit_Name(self, n):
                return copy.deepcopy(recv) if n.id == "self" else n
        parts = []
        for b in exprs:
            e = S().visit(copy.deepcopy(b))
            ast.copy_location(e, it)
            for x in ast.walk(e):
                ast.copy_location(x, it)
            parts.append(e)
        return parts

    def _zip_map_loop(self, s, st, fr):
        """`for x, f in zip(coll, flags)` with `flags = [elt(y) for y in coll]` computed beforehand == `for x in coll:
        f = elt(x)`, provided nothing elt reads is written in between or by the loop body.  -> the equivalent loop or None."""
        it = s.iter
        if not (isinstance(it, ast.Call) and isinstance(it.func, ast.Name) and it.func.id == "zip" and len(it.args) >= 2 and not it.keywords
                and isinstance(s.target, ast.Tuple) and len(s.target.elts) == len(it.args) and all(isinstance(t, ast.Name) for t in s.target.elts)):
            return None
        self._quiet += 1
        try:
            vals = [self.eval(a, st, fr) for a in it.args]
        finally:
            self._quiet -= 1
        key = self.path_of(vals[0], ast.unparse(it.args[0]))
        if isinstance(vals[0], ListV) or key in self.collections or not all(isinstance(m, MapV) and m.key == key for m in vals[1:]):
            return None
        written = set(self._assigned_in(s.body)[1]) | set(self._callee_write_attrs(s.body, fr))
        x0 = s.target.elts[0].id
        pre = []
        for tgt, m in zip(s.target.elts[1:], vals[1:]):
            if len(st.trace) < m.mark or (m.mark and st.trace[m.mark - 1] is not m.mark_ev):
                return None
            w = set(written)
            for ev in flatten(st.trace[m.mark:]):
                if isinstance(ev, (Store, Mut)):
                    w.add(ev.attr)
                elif isinstance(ev, Call) and not ev.inlined:
                    for q in ev.callees or ():
                        c, _, n = q.partition(".")
                        g0 = self.repo.lookup_method(c, n) if n else self.repo.functions.get(c)
                        if g0 is None:
                            return None
                        for g in self.eff.reachable([g0], precise=False):
                            w |= {ef.attr for ef in self.eff.of(g) if ef.kind in ("store", "mut", "del")}
            reads = set(self.pred_reads(m.elt, fr)) | {key.rsplit(".", 1)[-1]}
            if reads & w:
                return None
            for n in ast.walk(m.elt):
                if isinstance(n, ast.Name) and n.id != m.var and n.id in m.env and st.env.get(n.id) is not m.env[n.id] and not _same(st.env.get(n.id), m.env[n.id]):
                    return None
            memo = self.__dict__.setdefault("_zipmap_memo", {})
            mk = (id(s), id(m.elt), tgt.id)
            if mk not in memo:
                class Sub(ast.NodeTransformer):
                    def visit_Name(self_, n):
                        return ast.copy_location(ast.Name(id=x0, ctx=n.ctx), n) if n.id == m.var else n
                import copy
                memo[mk] = (s, m.elt, ast.copy_location(ast.Assign(targets=[ast.Name(id=tgt.id, ctx=ast.Store())], value=Sub().visit(copy.deepcopy(m.elt))), s))
                ast.fix_missing_locations(memo[mk][2])
            pre.append(memo[mk][2])
        memo = self.__dict__.setdefault("_zipmap_memo", {})
        lk = (id(s), tuple(id(p) for p in pre))
        if lk not in memo:
            memo[lk] = (s, ast.copy_location(ast.For(target=s.target.elts[0], iter=it.args[0], body=pre + list(s.body), orelse=list(s.orelse), type_comment=None), s))
        return memo[lk][1]

    def _zip_repeat_loop(self, s, st, fr):
        """`for a, b in zip(A, itertools.repeat(v))` == `for a in A: b = v` (v is a constant or a name whose value has not changed)."""
        it = s.iter
        if not (isinstance(it, ast.Call) and isinstance(it.func, ast.Name) and it.func.id == "zip" and len(it.args) == 2 and not it.keywords
                and isinstance(s.target, ast.Tuple) and len(s.target.elts) == 2 and all(isinstance(t, ast.Name) for t in s.target.elts)):
            return None
        self._quiet += 1
        try:
            vals = [self.eval(a, st, fr) for a in it.args]
        finally:
            self._quiet -= 1
        reps = [i for i, v in enumerate(vals) if isinstance(v, RepeatV)]
        if len(reps) != 1 or not isinstance(vals[reps[0]].val, (Const, EnumSet, Poly)):
            return None
        i = reps[0]
        memo = self.__dict__.setdefault("_ziprep_memo", {})
        key = (id(s), i, repr(vals[i].val))
        if key not in memo:
            pre = ast.Assign(targets=[ast.Name(id=s.target.elts[i].id, ctx=ast.Store())], value=vals[i].node, type_comment=None)
            lp = ast.For(target=s.target.elts[1 - i], iter=it.args[1 - i], body=[pre] + list(s.body), orelse=list(s.orelse), type_comment=None)
            ast.copy_location(lp, s)
            ast.copy_location(pre, s)
            ast.fix_missing_locations(lp)
            memo[key] = (s, lp)
        return memo[key][1]

    def _accumulate_flatten(self, s, st, fr):
        """`acc = []` ... `for p in X: acc.extend(p.attr)` (or `getattr(p, <known name>)`, or `acc += p.attr`) is the flattening of
        the `attr` lists of X's elements: the same value as chain.from_iterable / the nested comprehension.  -> True when handled."""
        if s.orelse or len(s.body) != 1 or not isinstance(s.target, ast.Name):
            return False
        b = s.body[0]
        acc = arg = None
        if isinstance(b, ast.Expr) and isinstance(b.value, ast.Call) and isinstance(b.value.func, ast.Attribute) and b.value.func.attr == "extend" \
                and isinstance(b.value.func.value, ast.Name) and len(b.value.args) == 1 and not b.value.keywords:
            acc, arg = b.value.func.value.id, b.value.args[0]
        elif isinstance(b, ast.AugAssign) and isinstance(b.op, ast.Add) and isinstance(b.target, ast.Name):
            acc, arg = b.target.id, b.value
        if acc is None:
            return False
        cur = st.env.get(acc)
        if not (isinstance(cur, ListV) and cur.fresh and not cur.items and cur.kind == "list"):
            return False
        var = s.target.id
        attr = None
        if isinstance(arg, ast.Attribute) and isinstance(arg.value, ast.Name) and arg.value.id == var:
            attr = arg.attr
        elif isinstance(arg, ast.Call) and isinstance(arg.func, ast.Name) and arg.func.id == "getattr" and len(arg.args) == 2 \
                and isinstance(arg.args[0], ast.Name) and arg.args[0].id == var:
            nm = self.eval(arg.args[1], st, fr)
            if isinstance(nm, Const) and isinstance(nm.v, str) and nm.v.isidentifier():
                attr = nm.v
        if attr is None:
            return False
        gen = ast.GeneratorExp(elt=ast.Attribute(value=ast.Name(id=var, ctx=ast.Load()), attr=attr, ctx=ast.Load()),
                               generators=[ast.comprehension(target=ast.Name(id=var, ctx=ast.Store()), iter=s.iter, ifs=[], is_async=0)])
        ast.copy_location(gen, s)
        ast.fix_missing_locations(gen)
        v = self._flatten(gen, st, fr)
        if v is None:
            return False
        st.env[acc] = v
        return True

    def exec_for(self, s, st, fr):
        if self._accumulate_flatten(s, st, fr):
            return [(st, None)]
        z = self._zip_map_loop(s, st, fr) or self._zip_repeat_loop(s, st, fr)
        if z is not None:
            return self.exec_for(z, st, fr)
        parts = self._chain_args(s.iter) or self._generator_parts(s.iter, st, fr)
        if parts is not None and len(parts) >= 1 and (len(parts) > 1 or parts[0] is not s.iter) and not any(isinstance(n, ast.Break) for b in s.body for n in ast.walk(b)):
            # one loop over the concatenation == the loops over the parts, one after the other (no `break` in the body)
            outs = [(st, None)]
            for i, part in enumerate(parts):
                seg = ast.copy_location(ast.For(target=s.target, iter=part, body=s.body, orelse=(s.orelse if i == len(parts) - 1 else []), type_comment=None), s)
                nxt = []
                for st0, ex in outs:
                    if ex is not None:
                        nxt.append((st0, ex))
                    else:
                        nxt.extend(self.exec_for(seg, st0, fr))
                outs = nxt
            return outs
        coll = self.eval(s.iter, st, fr, effects=True)
        key = self.path_of(coll, ast.unparse(s.iter))
        if isinstance(coll, ListV):
            return self._concrete_for(s, st, fr, coll.items)
        if key in self.collections:
            return self._concrete_for(s, st, fr, self.collections[key])
        # summary mode
        names, attrs = self._assigned_in(s.body + s.orelse)
        for t in ast.walk(s.target):
            if isinstance(t, ast.Name):
                names.add(t.id)
        et0 = coll.typ[1] if isinstance(coll, (Unk, CollV)) and coll.typ and coll.typ[0] in ("list", "set") and coll.typ[1] else None
        elem = (s.target.id, et0[1]) if isinstance(s.target, ast.Name) and et0 and et0[0] == "obj" else None
        attrs |= self._callee_write_attrs(s.body, fr, elem)
        # a local that aliases a model object's container and is only *mutated* in the body stays that alias: what changes is
        # the attribute it denotes
        rebound = {x.id for b in s.body + s.orelse for n in ast.walk(b) if isinstance(n, (ast.Assign, ast.AugAssign, ast.AnnAssign, ast.For))
                   for t in (n.targets if isinstance(n, ast.Assign) else [n.target]) for x in ast.walk(t) if isinstance(x, ast.Name) and isinstance(x.ctx, ast.Store)}
        for nm in list(names):
            if isinstance(st.env.get(nm), RefV) and nm not in rebound:
                names.discard(nm)
                attrs.add(st.env[nm].attr)
        keep = self._self_refining(st, names, attrs, s.body + s.orelse, fr)
        self.havoc(st, names, attrs, fr)
        st.env.update(keep)
        et = None
        ct = fr.ft.type_of(s.iter)
        if ct and ct[0] in ("list", "set"):
            et = ct[1]
        if (et is None or et[0] == "union") and isinstance(coll, (Unk, CollV)) and coll.typ and coll.typ[0] in ("list", "set") and coll.typ[1]:
            et = coll.typ[1]   # the static type of the expression is unknown (a table entry, a parameter) but the value knows what it holds
        if et is not None and et[0] == "union":
            et = None
        var = self._fresh_elem(key, et)
        # Element facts of a filtered collection were established when the collection was built.  A fact that reads
        # something the loop body itself changes is guaranteed only for the first iteration; it is assumed for the
        # later ones only if every path that changes it leaves the loop.
        stale_preds = []
        cand_preds = []
        if isinstance(coll, CollV):
            for pname, pbody in coll.preds:
                for conj in (pbody.values if isinstance(pbody, ast.BoolOp) and isinstance(pbody.op, ast.And) else [pbody]):
                    if self.pred_reads(conj, fr) & attrs:
                        cand_preds.append((pname, conj))
        alts = []
        outs = []
        elem_heap = {}
        for phase in ("first", "later"):
            body_st = st.copy()
            body_st.trace = []
            self.assign(s.target, var, body_st, fr, s, quiet=True)
            if isinstance(coll, CollV):
                self._quiet += 1
                try:
                    self.assume_elem(coll, var, body_st, fr, skip=stale_preds if phase == "later" else ())
                finally:
                    self._quiet -= 1
            if phase == "first":
                elem_heap = {k[1]: v for k, v in body_st.heap.items() if isinstance(var, Obj) and k[0] == var.name}
            phase_alts = []
            for st1, ex in self.exec_block(s.body, body_st, fr):
                phase_alts.append((st1.trace, ex))
                alts.append((st1.trace, ex))
                if ex is not None and ex[0] in ("return", "raise"):
                    s2 = st1
                    tr = st.trace + [Loop(ast.unparse(s.iter), coll, var, [(st1.trace, ex)], s, fr.func, fr.stack, self._elem_cls(et))]
                    s2.trace = tr
                    outs.append((s2, ex))
            if phase == "first":
                if not cand_preds:
                    break
                # what does a continuing iteration change on objects other than its own element?
                changed = set()
                for tr, ex in phase_alts:
                    if ex is None or ex[0] == "continue":
                        for e in flatten(tr):
                            if isinstance(e, (Store, Mut)) and not e.attr.startswith("$") and not (isinstance(e.recv, Obj) and isinstance(var, Obj) and e.recv == var):
                                changed.add(e.attr)
                            elif isinstance(e, Call) and not e.inlined and e.callees:
                                for q in e.callees:
                                    c, _, n = q.partition(".")
                                    g0 = self.repo.lookup_method(c, n) if n else self.repo.functions.get(c)
                                    if g0 is not None:
                                        for g in self.eff.reachable([g0], precise=False):
                                            changed |= {ef.attr for ef in self.eff.of(g) if ef.kind in ("store", "mut", "del")}
                stale_preds = [(pn, cj) for pn, cj in cand_preds if self.pred_reads(cj, fr) & changed]
                if not stale_preds:
                    break
        lp = Loop(ast.unparse(s.iter), coll, var, alts, s, fr.func, fr.stack, self._elem_cls(et))
        lp.self_obj = st.env.get("self")
        lp.elem_heap = elem_heap
        after = st
        after.trace.append(lp)
        self.havoc(after, names, attrs, fr)
        after.env.update(keep)
        if s.orelse:
            outs.extend(self.exec_block(s.orelse, after, fr))
        else:
            outs.append((after, None))
        return outs

    @staticmethod
    def _capture(cond, pname, st):
        """Constant-valued locals a predicate mentions (a tuple of enum members bound in a helper ...): kept with the collection, so that
        the predicate means the same when it is assumed in another frame."""
        out = {}
        for n in ast.walk(cond):
            if isinstance(n, ast.Name) and n.id != pname and n.id in st.env:
                v = st.env[n.id]
                ok = isinstance(v, (Const, EnumSet)) or (isinstance(v, Poly) and v.is_const()) or \
                    (isinstance(v, ListV) and v.kind in ("tuple", "list", "set") and all(isinstance(x, (Const, EnumSet)) or (isinstance(x, Poly) and x.is_const()) for x in v.items))
                if ok:
                    out[n.id] = v
        return out

    def assume_elem(self, coll, var, st, fr, skip=()):
        """Make the element facts of a CollV hold for `var` in st (except the conjuncts listed in `skip`)."""
        skip_ids = {id(c) for _p, c in skip}
        for pname, body in coll.preds:
            saved = st.env.get(pname, None)
            had = pname in st.env
            st.env[pname] = var
            cap = coll.penv.get(id(body)) or {}
            shadow = {k: st.env.get(k, _MISSING) for k in cap}
            st.env.update(cap)
            try:
                self._assume_pred(body, skip_ids, st, fr)
            finally:
                for k, v0 in shadow.items():
                    if v0 is _MISSING:
                        st.env.pop(k, None)
                    else:
                        st.env[k] = v0
            if had:
                st.env[pname] = saved
            else:
                st.env.pop(pname, None)
        return

    def _assume_pred(self, body, skip_ids, st, fr):
        if True:
            if skip_ids:
                conjs = body.values if isinstance(body, ast.BoolOp) and isinstance(body.op, ast.And) else [body]
                for c in conjs:
                    if id(c) not in skip_ids:
                        self.assume(c, True, st, fr)
            else:
                self.assume(body, True, st, fr)

    @staticmethod
    def _elem_cls(et):
        if et and et[0] == "obj":
            return et[1]
        if et and et[0] in ("pair", "tuple") and et[1] and et[1][0] == "obj":
            return et[1][1]
        return None

    def _fresh_elem(self, key, et):
        n = next(self._fresh)
        if et is None:
            return Unk(f"{key}[*{n}]")
        if et[0] in ("pair", "tuple"):
            return ListV([self._fresh_elem(f"{key}.{i}", t) for i, t in enumerate(et[1:])], fresh=False, kind="tuple")
        v = self.value_for_type(f"{key}[*{n}]", et)
        if isinstance(v, Obj):
            v.maybe_none = False
        return v

    def _live_items(self, s, st, fr):
        """If the iterable is an attribute whose value is a known heap list, return that list as it is *now*."""
        it = s.iter
        if isinstance(it, ast.Attribute):
            self._quiet += 1
            try:
                base = self.eval(it.value, st, fr)
            finally:
                self._quiet -= 1
            if isinstance(base, Obj):
                v = st.heap.get((base.name, it.attr))
                if isinstance(v, ListV):
                    return v.items
        return None

    def _concrete_for(self, s, st, fr, items):
        outs = [(st, None)]
        live = self._live_items(s, st, fr) is not None
        n_iter = len(items) if not live else 64
        for idx in range(n_iter):
            nxt = []
            any_active = False
            for st0, ex in outs:
                if ex is not None:
                    nxt.append((st0, ex))
                    continue
                if live:
                    cur = self._live_items(s, st0, fr)
                    if cur is None:
                        cur = items
                    if idx >= len(cur):
                        nxt.append((st0, ("__done__",)))
                        continue
                    it = cur[idx]
                else:
                    it = items[idx]
                any_active = True
                self.assign(s.target, it, st0, fr, s, quiet=True)
                for st1, ex1 in self.exec_block(s.body, st0, fr):
                    if ex1 is None or ex1[0] == "continue":
                        nxt.append((st1, None))
                    elif ex1[0] == "break":
                        nxt.append((st1, ("__broken__",)))
                    else:
                        nxt.append((st1, ex1))
            outs = nxt
            if live and not any_active:
                break
        res = []
        for st0, ex in outs:
            if ex == ("__done__",):
                ex = None
            if ex == ("__broken__",):
                res.append((st0, None))
            elif ex is None and s.orelse:
                res.extend(self.exec_block(s.orelse, st0, fr))
            else:
                res.append((st0, ex))
        return res

    def _iterator_loop(self, s, st, fr):
        """`it = iter(xs)` ... `while (x := next(it, END)) is not END: body`  ==  `for x in xs: body` (the iterator is used nowhere
        else in the loop).  -> the equivalent for-loop or None."""
        t = s.test
        if not (isinstance(t, ast.Compare) and len(t.ops) == 1 and isinstance(t.ops[0], ast.IsNot) and isinstance(t.left, ast.NamedExpr)
                and isinstance(t.left.target, ast.Name) and isinstance(t.comparators[0], ast.Name)):
            return None
        c = t.left.value
        if not (isinstance(c, ast.Call) and isinstance(c.func, ast.Name) and c.func.id == "next" and len(c.args) == 2 and not c.keywords
                and isinstance(c.args[0], ast.Name) and isinstance(c.args[1], ast.Name) and c.args[1].id == t.comparators[0].id):
            return None
        iv = st.env.get(c.args[0].id)
        if not isinstance(iv, IterV):
            return None
        if any(isinstance(n, ast.Name) and n.id == c.args[0].id for b in s.body + s.orelse for n in ast.walk(b)):
            return None
        self._quiet += 1
        try:
            now = self.eval(iv.src, st, fr)
        finally:
            self._quiet -= 1
        if not (now is iv.val or _same(now, iv.val) or repr(now) == repr(iv.val)):
            return None
        memo = self.__dict__.setdefault("_iterloop_memo", {})
        if id(s) not in memo:
            memo[id(s)] = (s, ast.fix_missing_locations(ast.copy_location(
                ast.For(target=ast.Name(id=t.left.target.id, ctx=ast.Store()), iter=iv.src, body=list(s.body), orelse=list(s.orelse), type_comment=None), s)))
        return memo[id(s)][1]

    def _index_loop(self, s, st, fr):
        """`i = 0` ... `while i < len(xs): x = xs[i]; i += 1; body`  ==  `for x in xs: body` (i is used for nothing else and xs is not
        rebound in the loop).  -> the equivalent for-loop or None."""
        t = s.test
        if not (isinstance(t, ast.Compare) and len(t.ops) == 1 and isinstance(t.ops[0], ast.Lt) and isinstance(t.left, ast.Name)
                and isinstance(t.comparators[0], ast.Call) and isinstance(t.comparators[0].func, ast.Name) and t.comparators[0].func.id == "len"
                and len(t.comparators[0].args) == 1 and isinstance(t.comparators[0].args[0], (ast.Name, ast.Attribute))) or s.orelse or len(s.body) < 2:
            return None
        i, xs = t.left.id, t.comparators[0].args[0]
        iv = st.env.get(i)
        if not (isinstance(iv, Poly) and iv.is_const() and iv.const_value() == 0):
            return None
        first = s.body[0]
        if not (isinstance(first, ast.Assign) and len(first.targets) == 1 and isinstance(first.targets[0], ast.Name) and isinstance(first.value, ast.Subscript)
                and ast.unparse(first.value.value) == ast.unparse(xs) and isinstance(first.value.slice, ast.Name) and first.value.slice.id == i):
            return None

        def is_inc(b):
            return (isinstance(b, ast.AugAssign) and isinstance(b.target, ast.Name) and b.target.id == i and isinstance(b.op, ast.Add)
                    and isinstance(b.value, ast.Constant) and b.value.value == 1) or \
                (isinstance(b, ast.Assign) and len(b.targets) == 1 and isinstance(b.targets[0], ast.Name) and b.targets[0].id == i
                 and ast.unparse(b.value).replace(" ", "") in (f"{i}+1", f"1+{i}"))
        rest = list(s.body[1:])
        if is_inc(rest[0]):
            rest = rest[1:]
        elif is_inc(rest[-1]) and not any(isinstance(n, ast.Continue) for b in rest for n in ast.walk(b)):
            rest = rest[:-1]
        else:
            return None
        x = first.targets[0].id
        xs_names = {n.id for n in ast.walk(xs) if isinstance(n, ast.Name)}
        for b in rest:
            for n in ast.walk(b):
                if isinstance(n, ast.Name) and (n.id == i or (n.id in xs_names and isinstance(n.ctx, ast.Store))):
                    return None
        memo = self.__dict__.setdefault("_indexloop_memo", {})
        if id(s) not in memo:
            lp = ast.For(target=ast.Name(id=x, ctx=ast.Store()), iter=xs, body=rest or [ast.Pass()], orelse=[], type_comment=None)
            memo[id(s)] = (s, ast.fix_missing_locations(ast.copy_location(lp, s)))
        return memo[id(s)][1]

    def exec_while(self, s, st, fr):
        lp = self._iterator_loop(s, st, fr) or self._index_loop(s, st, fr)
        if lp is not None:
            return self.exec_for(lp, st, fr)
        if self.unroll_while > 0:
            active, done = [st], []
            for _i in range(self.unroll_while):
                nxt = []
                for st0 in active:
                    for st1, truth, forked in self.branch(s.test, st0, fr):
                        if not truth:
                            done.append((st1, None))
                            continue
                        for st2, ex in self.exec_block(s.body, st1, fr):
                            if ex is None or ex[0] == "continue":
                                nxt.append(st2)
                            elif ex[0] == "break":
                                done.append((st2, None))
                            else:
                                done.append((st2, ex))
                active = nxt
                if not active:
                    return done
                if len(active) + len(done) > self.max_paths:
                    raise AnalysisError(f"path explosion unrolling while loop at {fr.func.loc(s)}")
            # not finished within the bound: continue each remaining state in summary mode
            for st0 in active:
                done.extend(self._exec_while_summary(s, st0, fr))
            return done
        return self._exec_while_summary(s, st, fr)

    def _exec_while_summary(self, s, st, fr):
        names, attrs = self._assigned_in(s.body)
        attrs |= self._callee_write_attrs(s.body, fr)
        self.havoc(st, names, attrs, fr)
        body_st = st.copy()
        body_st.trace = []
        alts, outs = [], []
        for st0, truth, forked in self.branch(s.test, body_st, fr):
            if not truth:
                continue
            for st1, ex in self.exec_block(s.body, st0, fr):
                alts.append((st1.trace, ex))
                if ex is not None and ex[0] in ("return", "raise"):
                    st1.trace = st.trace + [Loop("while " + ast.unparse(s.test), None, None, [(st1.trace, ex)], s, fr.func, fr.stack)]
                    outs.append((st1, ex))
        st.trace.append(Loop("while " + ast.unparse(s.test), None, None, alts, s, fr.func, fr.stack))
        self.havoc(st, names, attrs, fr)
        infinite = isinstance(s.test, ast.Constant) and s.test.value is True and not any(
            ex is not None and ex[0] == "break" for _t, ex in alts)
        if not infinite:
            outs.append((st, None))
        return outs

    def exec_try(self, s, st, fr):
        outs = []
        body_outs = []
        if self.exc_in_try:
            # an exception is assumed possible after every top-level statement of the try body
            cur = [(st, None)]
            for stmt in s.body:
                nxt = []
                for st0, ex in cur:
                    if ex is not None:
                        body_outs.append((st0, ex))
                        continue
                    for st1, ex1 in self.exec_stmt(stmt, st0, fr):
                        nxt.append((st1, ex1))
                        if any(isinstance(n, ast.Call) for n in ast.walk(stmt)):
                            s_exc = st1.copy()
                            body_outs.append((s_exc, ("raise", stmt)))
                cur = nxt
            body_outs.extend(cur)
        else:
            body_outs = self.exec_block(s.body, st, fr)
        after_handlers = []
        for st0, ex in body_outs:
            if ex is not None and ex[0] == "raise" and s.handlers:
                for h in s.handlers:
                    s2 = st0.copy()
                    after_handlers.extend(self.exec_block(h.body, s2, fr))
                if not any(h.type is None or (isinstance(h.type, ast.Name) and h.type.id in ("Exception", "BaseException")) for h in s.handlers):
                    after_handlers.append((st0, ex))
            elif ex is None and s.orelse:
                after_handlers.extend(self.exec_block(s.orelse, st0, fr))
            else:
                after_handlers.append((st0, ex))
        for st0, ex in after_handlers:
            if s.finalbody:
                for st1, ex1 in self.exec_block(s.finalbody, st0, fr):
                    outs.append((st1, ex1 if ex1 is not None else ex))
            else:
                outs.append((st0, ex))
        return outs

    # -- assignment ----------------------------------------------------------------------
    def assign(self, target, v, st, fr, stmt, aug=None, quiet=False):
        if isinstance(target, ast.Name):
            st.env[target.id] = v
            if not quiet and isinstance(v, (CollV, ListV)) and isinstance(stmt, ast.Assign):
                st.trace.append(LocalSet(target.id, v, stmt, fr.func, fr.stack))
            for k in [k for k in st.memo if k[0] == fr.uid and _mentions(k[1], target.id)]:
                del st.memo[k]
        elif isinstance(target, (ast.Tuple, ast.List)):
            if isinstance(v, ListV) and len(v.items) == len(target.elts):
                for t, x in zip(target.elts, v.items):
                    self.assign(t, x, st, fr, stmt, quiet=quiet)
            else:
                for i, t in enumerate(target.elts):
                    ty = fr.ft.type_of(t) if isinstance(t, ast.Name) else None
                    self.assign(t, self.value_for_type(f"{ast.unparse(t)}~{next(self._fresh)}", ty), st, fr, stmt, quiet=quiet)
        elif isinstance(target, ast.Attribute):
            base = self.eval(target.value, st, fr)
            cls = base.cls if isinstance(base, Obj) else None
            if cls is None:
                t = fr.ft.type_of(target.value)
                cls = t[1] if t and t[0] == "obj" else None
            prev = None
            if isinstance(base, Obj):
                prev = self.eval(target, st, fr) if not quiet else None
                st.heap[(base.name, target.attr)] = v
            else:
                for k in [k for k in st.heap if k[1] == target.attr]:
                    del st.heap[k]
            for k in [k for k in st.memo if _mentions(k[1], target.attr)]:
                del st.memo[k]
            self._drop_facts(st, {target.attr}, fr)
            if not quiet:
                st.trace.append(Store(cls, target.attr, base, v, stmt, fr.func, fr.stack, aug=aug, prev=prev))
        elif isinstance(target, ast.Subscript) and isinstance(target.value, ast.Name) and isinstance(st.env.get(target.value.id), DictV) \
                and not isinstance(target.slice, ast.Slice):
            # `d[k] = v` on a local dict: an entry with an equal key is replaced, a new key is added; when it cannot be decided
            # whether the key is already there, the dict is no longer known
            d = st.env[target.value.id]
            key = self.eval(target.slice, st, fr)
            rs = [self._equal(key, k) for k, _v, _r in d.entries]
            if any(r is True for r in rs):
                i = rs.index(True)
                st.env[target.value.id] = DictV(d.entries[:i] + [(d.entries[i][0], v, None)] + d.entries[i + 1:])
            elif all(r is False for r in rs) and (isinstance(key, (Const, Unk)) or (isinstance(key, EnumSet) and key.single() is not None) or (isinstance(key, Poly) and key.is_const())):
                st.env[target.value.id] = DictV(d.entries + [(key, v, None)])
            else:
                st.env[target.value.id] = Unk(f"dict~{next(self._fresh)}", ("dict", None, None))
        elif isinstance(target, ast.Subscript):
            self._mut_event(target.value, "setitem", [v], stmt, st, fr)
        else:
            raise AnalysisError(f"unsupported assignment target at {fr.func.loc(stmt)}")

    def _ref_of(self, node, v, st, fr):
        """RefV when `node` denotes a mutable container held in an attribute of a model object (or is itself such an alias)."""
        if isinstance(node, ast.Name) and isinstance(st.env.get(node.id), RefV):
            return st.env[node.id]
        if isinstance(node, ast.Name) and isinstance(v, ListV) and v.fresh and v.kind in ("list", "set") and node.id in st.env:
            # `x = y` where y is a local list that is bound exactly once in the whole (outermost) function: x is the same list
            host = fr.func
            while getattr(host, "parent", None) is not None:
                host = host.parent
            stores = [n for n in ast.walk(host.node) if isinstance(n, ast.Name) and n.id == node.id and isinstance(n.ctx, ast.Store)]
            if len(stores) == 1:
                # ... and that one binding is executed once per call (not inside a loop, where each iteration makes a new list)
                in_loop = any(isinstance(lp, (ast.For, ast.While, ast.ListComp, ast.SetComp, ast.GeneratorExp, ast.DictComp)) and any(x is stores[0] for x in ast.walk(lp))
                              for lp in ast.walk(host.node))
                if not in_loop:
                    return RefV(None, node.id)
        if isinstance(node, ast.IfExp):
            self._quiet += 1
            try:
                t = self.truth(node.test, st, fr)
            finally:
                self._quiet -= 1
            if t is not None:
                return self._ref_of(node.body if t else node.orelse, v, st, fr)
            return None
        # an entry of a table of local lists:  run_list = lists_by_state[state] / lists_by_state.get(state)
        dn = kn = None
        if isinstance(node, ast.Subscript) and not isinstance(node.slice, ast.Slice):
            dn, kn = node.value, node.slice
        elif isinstance(node, ast.Call) and isinstance(node.func, ast.Attribute) and node.func.attr == "get" and node.args and not node.keywords:
            dn, kn = node.func.value, node.args[0]
        if dn is not None:
            self._quiet += 1
            try:
                dv = self.eval(dn, st, fr)
                ent = self._dict_entry(dv, self.eval(kn, st, fr)) if isinstance(dv, DictV) else None
            finally:
                self._quiet -= 1
            if ent not in (None, False) and ent[2] and ent[2] in st.env:
                return RefV(None, ent[2])
        if isinstance(node, ast.Attribute) and isinstance(node.ctx, ast.Load):
            t = None
            if isinstance(v, (ListV, CollV)) or (isinstance(v, Unk) and v.typ and v.typ[0] in ("list", "set", "dict")):
                self._quiet += 1
                try:
                    base = self.eval(node.value, st, fr)
                finally:
                    self._quiet -= 1
                if isinstance(base, Obj) and base.cls:
                    return RefV(base, node.attr)
        return None

    def _deref_locals(self, v, st, depth=0):
        """A value that leaves its frame must not refer to the frame's locals by name."""
        if isinstance(v, RefV) and v.obj is None:
            return self._deref_locals(self.deref(v, st), st, depth + 1) if depth < 4 else Unk(v.attr)
        if isinstance(v, ListV) and any(isinstance(x, (RefV, ListV)) for x in v.items) and depth < 4:
            return ListV([self._deref_locals(x, st, depth + 1) for x in v.items], v.fresh, v.kind)
        return v

    def deref(self, r, st):
        if r.obj is None:          # reference to a local container (an element of a literal table)
            v = st.env.get(r.attr)
            return self.deref(v, st) if isinstance(v, RefV) else (v if v is not None else Unk(r.attr))
        k = (r.obj.name, r.attr)
        if k in st.heap:
            return st.heap[k]
        t = self.types.field_type(r.obj.cls, r.attr) if r.obj.cls else None
        v = self.value_for_type(f"{r.obj.name}.{r.attr}", t)
        st.heap[k] = v
        return v

    _MODCONST = {}

    def _module_const(self, name, fr):
        """Value of a module-level name that is assigned exactly once at top level (lookup tables, constants)."""
        mod = fr.func.module
        key = (id(self.repo), mod.path, name)
        if key in Interp._MODCONST:
            return Interp._MODCONST[key]
        Interp._MODCONST[key] = None   # cycle guard
        val = None
        defs = [st0 for st0 in mod.tree.body if isinstance(st0, ast.Assign) and any(isinstance(t, ast.Name) and t.id == name for t in st0.targets)]
        others = [st0 for st0 in mod.tree.body if isinstance(st0, (ast.AugAssign, ast.AnnAssign)) and isinstance(st0.target, ast.Name) and st0.target.id == name]
        if len(defs) == 1 and not others and len(defs[0].targets) == 1:
            self._quiet += 1
            try:
                v = self.eval(defs[0].value, State(), fr)
            finally:
                self._quiet -= 1
            if isinstance(v, (DictV, ListV, FuncV, Const, EnumSet, Poly)):
                if isinstance(v, ListV):
                    v = ListV(v.items, False, v.kind)
                val = v
        Interp._MODCONST[key] = val
        return val

    def _call_simple_def(self, fn, call, st, fr, effects):
        """A nested def made of plain local assignments and one final `return <expr>`, called where statements cannot be
        hoisted (a comprehension condition, a key function): evaluated in place like a lambda.  -> value or None."""
        body = [b for b in fn.body if not (isinstance(b, ast.Expr) and isinstance(b.value, ast.Constant))]
        if not body or not isinstance(body[-1], ast.Return) or body[-1].value is None:
            return None
        if not all(isinstance(b, ast.Assign) and all(isinstance(t, ast.Name) for t in b.targets) for b in body[:-1]):
            return None
        params = [a.arg for a in fn.args.args]
        vals = {}
        for i, a in enumerate(call.args):
            if i < len(params):
                vals[params[i]] = self.eval(a, st, fr, effects)
        for kw in call.keywords:
            if kw.arg in params:
                vals[kw.arg] = self.eval(kw.value, st, fr, effects)
        dflt = fn.args.defaults
        for p, d in zip(params[len(params) - len(dflt):], dflt):
            if p not in vals:
                vals[p] = self.eval(d, st, fr)
        if set(params) - set(vals):
            return None
        saved = st.env
        st.env = dict(saved)
        st.env.update(vals)
        self._quiet += 1
        try:
            for b in body[:-1]:
                v = self.eval(b.value, st, fr)
                ref = self._ref_of(b.value, v, st, fr)
                for t in b.targets:
                    st.env[t.id] = ref or v
            return self.eval(body[-1].value, st, fr)
        finally:
            self._quiet -= 1
            st.env = saved

    def _call_pure_def(self, fn, call, st, fr, callee=None):
        """A nested def with loops / early returns called where statements cannot be hoisted (a comprehension condition, a
        filter predicate): interpreted on a copy of the state; the value counts only if the body has no effect on the heap and
        every path returns the same constant.  -> value or None."""
        if getattr(self, "_pure_depth", 0) >= 2:
            return None
        if callee is None:
            from .loader import FuncInfo
            callee = FuncInfo(fn.name, fn, fr.func.cls, fr.func.module, parent=fr.func)
        st0 = st.copy()
        n0 = len(st0.trace)
        self._pure_depth = getattr(self, "_pure_depth", 0) + 1
        self._quiet += 1
        try:
            outs = self.inline_call(call, callee, st0, fr)
        except AnalysisError:
            return None
        finally:
            self._quiet -= 1
            self._pure_depth -= 1
        val = None
        for st1, v, ex in outs:
            if ex is not None:
                return None
            if any(isinstance(ev, (Store, Mut)) and not ev.attr.startswith("$") for ev in flatten(st1.trace[n0:])):
                return None
            if isinstance(v, Poly) and v.is_const():
                if val is not None and not (isinstance(val, Poly) and val == v):
                    return None
            elif isinstance(v, EnumSet) and v.single() is not None:
                if val is not None and not (isinstance(val, EnumSet) and val.cls == v.cls and val.single() == v.single()):
                    return None
            elif not isinstance(v, Const) or (val is not None and not (isinstance(val, Const) and val.v == v.v)):
                return None
            val = v
        return val

    def _call_lambda(self, fv, call, st, fr, effects):
        lam = fv.node
        params = [a.arg for a in lam.args.args]
        vals = {}
        for i, a in enumerate(call.args):
            if i < len(params):
                vals[params[i]] = self.eval(a, st, fr, effects)
        for kw in call.keywords:
            if kw.arg in params:
                vals[kw.arg] = self.eval(kw.value, st, fr, effects)
        dflt = lam.args.defaults
        for p, d in zip(params[len(params) - len(dflt):], dflt):
            if p not in vals:
                vals[p] = self.eval(d, st, fr)
        saved = st.env
        st.env = dict(saved)
        st.env.update(vals)
        try:
            return self.eval(lam.body, st, fr, effects)
        finally:
            st.env = saved

    def _dict_entry(self, d, key):
        """-> the entry of a DictV selected by `key`; False when no key can match; None when undecided."""
        rs = [self._equal(key, k) for k, _v, _r in d.entries]
        for r, ent in zip(rs, d.entries):
            if r is True:
                return ent
        if all(r is False for r in rs):
            return False
        return None

    def _mut_event(self, recv_expr, op, args, node, st, fr, argnodes=None):
        if isinstance(recv_expr, ast.Call) and isinstance(recv_expr.func, ast.Name) and recv_expr.func.id == "getattr" and len(recv_expr.args) == 2:
            nm = self.eval(recv_expr.args[1], st, fr)
            if isinstance(nm, Const) and isinstance(nm.v, str) and nm.v.isidentifier():
                # getattr(x, "name").append(...) is x.name.append(...)
                tgt = ast.copy_location(ast.Attribute(value=recv_expr.args[0], attr=nm.v, ctx=ast.Load()), recv_expr)
                return self._mut_event(tgt, op, args, node, st, fr, argnodes)
        if isinstance(recv_expr, ast.Subscript) and not isinstance(recv_expr.slice, ast.Slice):
            d = self.eval(recv_expr.value, st, fr)
            if isinstance(d, DictV):
                ent = self._dict_entry(d, self.eval(recv_expr.slice, st, fr))
                if ent not in (None, False) and ent[2]:
                    return self._mut_event(ast.copy_location(ast.Name(id=ent[2], ctx=ast.Load()), recv_expr), op, args, node, st, fr, argnodes)
                if ent is None:
                    # undecided key: any of the referenced locals may have been mutated
                    for _k, _v, ref in d.entries:
                        if ref and ref in st.env:
                            st.env[ref] = Unk(f"{ref}~{next(self._fresh)}", fr.ft.lookup(ref, fr.func.node))
                return True
            return False
        if isinstance(recv_expr, ast.Attribute):
            base = self.eval(recv_expr.value, st, fr)
            cls = base.cls if isinstance(base, Obj) else None
            if cls is None:
                t = fr.ft.type_of(recv_expr.value)
                cls = t[1] if t and t[0] == "obj" else None
            cur = st.heap.get((base.name, recv_expr.attr)) if isinstance(base, Obj) else None
            mev = Mut(cls, recv_expr.attr, base, op, args, node, fr.func, fr.stack, argnodes)
            mev.facts = dict(st.facts)
            names = {o.name for o in [base] + list(args) if isinstance(o, Obj)}
            mev.heap = {k: v for k, v in st.heap.items() if k[0] in names}
            st.trace.append(mev)
            if isinstance(cur, ListV) and cur.fresh and op == "append" and len(args) == 1:
                st.heap[(base.name, recv_expr.attr)] = ListV(cur.items + [args[0]], True, cur.kind)
            elif isinstance(cur, ListV) and cur.fresh and op in ("extend", "update") and len(args) == 1 and isinstance(args[0], ListV):
                st.heap[(base.name, recv_expr.attr)] = ListV(cur.items + list(args[0].items), True, cur.kind)
            elif isinstance(cur, ListV) and cur.fresh and op == "remove" and len(args) == 1 and \
                    all(self._equal(args[0], x) is not None for x in cur.items) and any(self._equal(args[0], x) for x in cur.items):
                items = list(cur.items)
                for i, x in enumerate(items):
                    if self._equal(args[0], x):
                        del items[i]
                        break
                st.heap[(base.name, recv_expr.attr)] = ListV(items, True, cur.kind)
            elif isinstance(base, Obj):
                st.heap.pop((base.name, recv_expr.attr), None)
            for k in [k for k in st.memo if _mentions(k[1], recv_expr.attr)]:
                del st.memo[k]
            self._drop_facts(st, {recv_expr.attr}, fr)
            return True
        if isinstance(recv_expr, ast.Name) and isinstance(st.env.get(recv_expr.id), RefV) and st.env[recv_expr.id].obj is None:
            return self._mut_event(ast.copy_location(ast.Name(id=st.env[recv_expr.id].attr, ctx=ast.Load()), recv_expr), op, args, node, st, fr, argnodes)
        if isinstance(recv_expr, ast.Name) and isinstance(st.env.get(recv_expr.id), RefV):
            r = st.env[recv_expr.id]
            st.env["__refobj"] = r.obj
            try:
                tgt = ast.copy_location(ast.Attribute(value=ast.copy_location(ast.Name(id="__refobj", ctx=ast.Load()), recv_expr), attr=r.attr, ctx=ast.Load()), recv_expr)
                return self._mut_event(tgt, op, args, node, st, fr, argnodes)
            finally:
                st.env.pop("__refobj", None)
        if isinstance(recv_expr, ast.Name):
            cur = st.env.get(recv_expr.id)
            st.trace.append(Mut(None, "$" + recv_expr.id, cur, op, args, node, fr.func, fr.stack, argnodes))
            if isinstance(cur, ListV) and cur.fresh and op in ("append", "add") and len(args) == 1:
                items = cur.items + ([args[0]] if not (cur.kind == "set" and any(_same(args[0], x) for x in cur.items)) else [])
                st.env[recv_expr.id] = ListV(items, True, cur.kind)
            elif isinstance(cur, ListV) and cur.fresh and cur.kind == "list" and op == "insert" and len(args) == 2 and isinstance(args[0], Poly) and args[0].is_const() \
                    and float(args[0].const_value()).is_integer():
                i = int(args[0].const_value())
                items = list(cur.items)
                items.insert(i, args[1])
                st.env[recv_expr.id] = ListV(items, True, cur.kind)
            elif isinstance(cur, ListV) and cur.fresh and op in ("extend", "update") and len(args) == 1 and isinstance(args[0], ListV):
                items = list(cur.items)
                for x in args[0].items:
                    if not (cur.kind == "set" and any(_same(x, y) for y in items)):
                        items.append(x)
                st.env[recv_expr.id] = ListV(items, True, cur.kind)
            elif isinstance(cur, ListV):
                st.env[recv_expr.id] = Unk(f"{recv_expr.id}~{next(self._fresh)}", fr.ft.lookup(recv_expr.id, fr.func.node))
            elif isinstance(cur, CollV) and op not in ("remove", "discard", "pop", "sort", "reverse", "clear", "difference_update", "intersection_update", "index", "count", "copy"):
                # elements are added to a filtered collection: what is known about every element is what holds for the old and
                # for the new ones alike
                other = args[0] if len(args) == 1 else None
                if op in ("update", "extend") and isinstance(other, CollV) and other.base == cur.base and len(cur.cpreds) == len(cur.preds):
                    common = [(pr, cp) for pr, cp in zip(cur.preds, cur.cpreds) if cp in other.cpreds]
                    nv = CollV(cur.base, [pr for pr, _ in common], cur.typ, cur.kind, [cp for _, cp in common], penv=cur.penv)
                    st.env[recv_expr.id] = nv
                else:
                    st.env[recv_expr.id] = Unk(f"{recv_expr.id}~{next(self._fresh)}", fr.ft.lookup(recv_expr.id, fr.func.node))
            for k in [k for k in st.memo if k[0] == fr.uid and _mentions(k[1], recv_expr.id)]:
                del st.memo[k]
            return True
        return False

    # -- expressions ------------------------------------------------------------------------
    def eval(self, e, st, fr, effects=False):
        r = self.repo
        if isinstance(e, ast.Constant):
            if isinstance(e.value, (int, float)) and not isinstance(e.value, bool):
                return Poly.const(e.value)
            return Const(e.value)
        if isinstance(e, ast.Name):
            if e.id in st.env:
                v = st.env[e.id]
                if isinstance(v, RefV):
                    return self.deref(v, st)
                return v
            if e.id in ("True", "False", "None"):
                return Const({"True": True, "False": False, "None": None}[e.id])
            mv = self._module_const(e.id, fr)
            if mv is not None:
                return mv
            if e.id in self.repo.functions and isinstance(e.ctx, ast.Load):
                return FuncV(self.repo.function_for(e.id, fr.func.module).node)   # a module-level function used as a value (a sort key, a table entry)
            if e.id in r.classes and isinstance(e.ctx, ast.Load):
                cv = ClassV(e.id, None)
                cv.cls = e.id
                return cv
            return Unk(e.id, fr.ft.lookup(e.id, e))
        if isinstance(e, ast.Attribute):
            en = r.enum_of_member_expr(e)
            if en:
                return EnumSet(en[0], [en[1]])
            cc, self._cmp_consts = self._cmp_consts, None
            base = self.eval(e.value, st, fr, effects)
            self._cmp_consts = cc
            if self.log_reads and not self._quiet and isinstance(base, Obj) and base.cls and isinstance(e.ctx, ast.Load):
                st.trace.append(Read(base.cls, e.attr, base, self._cmp_consts, e, fr.func, fr.stack))
            if isinstance(base, Obj):
                k = (base.name, e.attr)
                if k in st.heap:
                    return st.heap[k]
                if f"{base.name}.{e.attr}" in self.collections:
                    return ListV(self.collections[f"{base.name}.{e.attr}"], False)
                t = self.types.field_type(base.cls, e.attr) if base.cls else None
                if t is None and base.cls and isinstance(e.ctx, ast.Load):
                    m = self.repo.lookup_method(base.cls, e.attr)
                    if m is not None:
                        return BoundV(recv=base, func=m)
                v = self.value_for_type(f"{base.name}.{e.attr}", t)
                st.heap[k] = v
                return v
            if (isinstance(base, (ListV, CollV, DictV)) or (isinstance(base, Unk) and base.typ and base.typ[0] in ("list", "set", "dict"))) \
                    and e.attr in MUTATORS and isinstance(e.value, (ast.Name, ast.Attribute)) and isinstance(e.ctx, ast.Load):
                return BoundV(op=e.attr, ref=e.value)
            if isinstance(base, DictV) and e.attr == "get" and isinstance(e.value, (ast.Name, ast.Attribute)) and isinstance(e.ctx, ast.Load):
                return BoundV(op="get", ref=e.value)
            if isinstance(base, ClassV) and base.cls in self.repo.enums and e.attr in self.repo.enums[base.cls]:
                return EnumSet(base.cls, [e.attr])   # a member of an enum class that was handed over as a value
            if isinstance(base, EnumSet) and base.single() is not None and e.attr in ("name", "value"):
                if e.attr == "name":
                    return Const(base.single())
                val = self.repo.enums[base.cls].get(base.single())
                if isinstance(val, (int, float)):
                    return Poly.const(val)
            if isinstance(base, Const) and base.v is None and not (isinstance(e.value, ast.Name) and (e.value.id == "self" or e.value.id in fr.func.params or e.value.id in fr.func.kwonly)):
                # an attribute of a model attribute that is None on this path (`task.target_component.placed_workplace` after the
                # `is None` branch): Python raises AttributeError here; the value is marked so that rules can tell
                return Unk(f"<None>.{e.attr}", fr.ft.type_of(e))
            tag = f"{self.path_of(base, ast.unparse(e.value))}.{e.attr}"
            return Unk(tag, fr.ft.type_of(e))
        if isinstance(e, ast.UnaryOp):
            v = self.eval(e.operand, st, fr, effects)
            if isinstance(e.op, ast.Not):
                t = self._truth_of_value(v)
                return Const(not t) if t is not None else Unk("not " + repr(v), ("prim", "bool"))
            if isinstance(e.op, ast.USub) and isinstance(v, Poly):
                return -v
            if isinstance(e.op, ast.UAdd) and isinstance(v, Poly):
                return v
            return Unk(ast.unparse(e))
        if isinstance(e, ast.BinOp):
            a = self.eval(e.left, st, fr, effects)
            b = self.eval(e.right, st, fr, effects)
            return self.binop(e.op, a, b, e)
        if isinstance(e, ast.BoolOp):
            # `a or b` / `a and b` yield one of the operands (Python semantics), decided left to right
            is_or = isinstance(e.op, ast.Or)
            last = None
            for x in e.values:
                if isinstance(x, (ast.Compare, ast.BoolOp)) or (isinstance(x, ast.UnaryOp) and isinstance(x.op, ast.Not)):
                    t = self.truth(x, st, fr)
                    v = Const(t) if t is not None else None
                else:
                    v = self.eval(x, st, fr, effects)
                    t = self._truth_of_value(v)
                    if t is None:
                        t = self.truth(x, st, fr)
                        if t is not None and isinstance(v, Unk) and v.typ == ("prim", "bool"):
                            v = Const(t)   # a boolean whose value an established fact decides
                if t is None:
                    t_all = self.truth(e, st, fr)
                    if t_all is not None:
                        return Const(t_all)
                    return Unk(ast.unparse(e), ("prim", "bool"))
                if t == is_or:
                    return v
                last = v
            return last
        if isinstance(e, ast.Compare):
            t = self.truth(e, st, fr)
            if t is not None:
                return Const(t)
            u = Unk(ast.unparse(e), ("prim", "bool"))
            u.pred = (e, dict(st.env), fr)
            return u
        if isinstance(e, ast.IfExp):
            t = self.truth(e.test, st, fr)
            if t is True:
                return self.eval(e.body, st, fr, effects)
            if t is False:
                return self.eval(e.orelse, st, fr, effects)
            a = self.eval(e.body, st, fr, effects)
            b = self.eval(e.orelse, st, fr, effects)
            if _same(a, b):
                return a
            if isinstance(a, EnumSet) and isinstance(b, EnumSet) and a.cls == b.cls:
                return EnumSet(a.cls, a.members | b.members)
            if isinstance(a, Obj) and b == NONE:
                return Obj(a.name, a.cls, True)
            return Unk(ast.unparse(e), fr.ft.type_of(e))
        if isinstance(e, (ast.Tuple, ast.List)):
            items = []
            for x in e.elts:
                v = self.eval(x, st, fr, effects)
                # an element written as `obj.some_list` is that list itself, not a copy (tables of records to be edited alike)
                r = self._ref_of(x, v, st, fr) if isinstance(x, (ast.Attribute, ast.Name)) and not getattr(self, "_no_refs", 0) else None
                if r is None and not getattr(self, "_no_refs", 0) and isinstance(x, ast.Name) and isinstance(v, ListV) and v.fresh and v.kind in ("list", "set") and x.id in st.env:
                    r = RefV(None, x.id)   # a local list placed in a table: the table entry *is* that list
                items.append(r or v)
            return ListV(items, True, "tuple" if isinstance(e, ast.Tuple) else "list")
        if isinstance(e, ast.Set):
            return ListV([self.eval(x, st, fr, effects) for x in e.elts], True, "set")
        if isinstance(e, ast.Dict):
            if not e.keys:
                return DictV([])   # a dict built up entry by entry (`d[k] = v`)
            if e.keys and all(k is not None for k in e.keys):
                ents = []
                for k, v in zip(e.keys, e.values):
                    kv = self.eval(k, st, fr)
                    if not (isinstance(kv, Const) or (isinstance(kv, EnumSet) and kv.single() is not None) or (isinstance(kv, Poly) and kv.is_const())):
                        ents = None
                        break
                    vv = self.eval(v, st, fr, effects)
                    ref = v.id if isinstance(v, ast.Name) and isinstance(vv, ListV) and v.id in st.env and vv.kind in ("list", "set") else None
                    ents.append((kv, vv, ref))
                if ents is not None:
                    return DictV(ents)
            return Unk("dict~%d" % next(self._fresh), ("dict", None, None))
        if isinstance(e, ast.Subscript):
            base = self.eval(e.value, st, fr, effects)
            if isinstance(base, DictV) and not isinstance(e.slice, ast.Slice):
                ent = self._dict_entry(base, self.eval(e.slice, st, fr))
                if ent not in (None, False):
                    return st.env.get(ent[2], ent[1]) if ent[2] else ent[1]
                return Unk(f"{ast.unparse(e)[:40]}~{next(self._fresh)}", fr.ft.type_of(e))
            if isinstance(base, ListV) and not isinstance(e.slice, ast.Slice):
                idx = self.eval(e.slice, st, fr)
                if isinstance(idx, Poly) and idx.is_const():
                    i = int(idx.const_value())
                    if -len(base.items) <= i < len(base.items):
                        return base.items[i]
            if isinstance(base, CollV) and not isinstance(e.slice, ast.Slice) and base.kind != "set":
                idx = self.eval(e.slice, st, fr)
                if isinstance(idx, Poly) and idx.is_const():
                    # one element of a collection known by its element facts: the facts hold for it (facts that became
                    # stale since the collection was built were dropped from the value by the writes themselves)
                    et = base.typ[1] if base.typ and base.typ[0] in ("list", "set") else None
                    k = (base.base, int(idx.const_value()), id(e))
                    var = self._fresh_elem(f"{base.base}[{int(idx.const_value())}]", et)
                    if isinstance(var, Obj):
                        self._quiet += 1
                        try:
                            self.assume_elem(base, var, st, fr)
                        finally:
                            self._quiet -= 1
                        if not self._quiet:
                            st.trace.append(Pick(base, int(idx.const_value()), var, e, fr.func, fr.stack))
                        return var
            if isinstance(e.slice, ast.Slice):
                sl = e.slice
                if isinstance(base, ListV) and sl.lower is None and sl.upper is None and sl.step is not None:
                    stp = self.eval(sl.step, st, fr)
                    if isinstance(stp, Poly) and stp.is_const() and stp.const_value() == -1:
                        return ListV(list(reversed(base.items)), True, base.kind)
                return Unk(f"{self.path_of(base, ast.unparse(e.value))}[{ast.unparse(e.slice)}]", fr.ft.type_of(e))
            lk = getattr(self, "log_kw", None)
            if lk and isinstance(e.value, ast.Name) and e.value.id == lk[0] and isinstance(e.slice, ast.Constant) and not self._quiet:
                st.trace.append(KwRead(e.slice.value, e, fr.func, fr.stack))
            key_txt = ast.unparse(e.slice)
            if isinstance(e.slice, ast.Name):
                kv0 = st.env.get(e.slice.id)
                if isinstance(kv0, Const) and isinstance(kv0.v, str):
                    key_txt = repr(kv0.v)   # `record[key]` with key a known string: named by the string
            tag = f"{self.path_of(base, ast.unparse(e.value))}[{key_txt}]"
            typ = fr.ft.type_of(e)
            if typ is None and isinstance(base, Unk) and base.typ and base.typ[0] == "dict" and len(base.typ) > 2:
                typ = base.typ[2]   # an untyped parameter holding a typed map: the value knows what its entries are
            if typ is None and isinstance(base, (Unk, CollV)) and base.typ and base.typ[0] == "list" and not isinstance(e.slice, ast.Slice):
                typ = base.typ[1]   # ... or a typed list (a state log handed to a shared helper)
            return self.value_for_type(tag, typ)
        if isinstance(e, ast.Call):
            return self.eval_call(e, st, fr, effects)
        if isinstance(e, (ast.ListComp, ast.GeneratorExp, ast.SetComp)):
            return self._eval_comp(e, st, fr)
        if isinstance(e, ast.Lambda):
            return FuncV(e)
        if isinstance(e, ast.NamedExpr) and isinstance(e.target, ast.Name):
            v = self.eval(e.value, st, fr, effects)
            st.env[e.target.id] = v
            return v
        if isinstance(e, ast.JoinedStr):
            return Unk("fstr", ("prim", "str"))
        if isinstance(e, ast.Starred):
            return self.eval(e.value, st, fr, effects)
        if isinstance(e, ast.DictComp):
            return Unk("dictcomp", ("dict", None, None))
        return Unk(ast.unparse(e))

    def _eval_comp(self, e, st, fr):
        if len(e.generators) == 1:
            g = e.generators[0]
            coll = self.eval(g.iter, st, fr)
            key = self.path_of(coll, ast.unparse(g.iter))
            items = coll.items if isinstance(coll, ListV) else self.collections.get(key)
            if items is not None:
                out = []
                saved = dict(st.env)
                for it in items:
                    self.assign(g.target, it, st, fr, e, quiet=True)
                    keep = True
                    for c in g.ifs:
                        t = self.truth(c, st, fr)
                        if t is None:
                            st.env = saved
                            return Unk(ast.unparse(e), fr.ft.type_of(e))
                        keep = keep and t
                    if keep:
                        out.append(self.eval(e.elt, st, fr))
                st.env = saved
                return ListV(out, True)
            if isinstance(g.target, ast.Name) and isinstance(e.elt, ast.Name) and e.elt.id == g.target.id:
                preds = list(coll.preds) if isinstance(coll, CollV) else []
                typ = coll.typ if isinstance(coll, (CollV, Unk)) else None
                for c in g.ifs:
                    preds.append((g.target.id, c))
                cp = list(coll.cpreds) if isinstance(coll, CollV) else []
                for c in g.ifs:
                    cp.append(self.canon(c, st, fr))
                pe = dict(coll.penv) if isinstance(coll, CollV) else {}
                for c in g.ifs:
                    cap = self._capture(c, g.target.id, st)
                    if cap:
                        pe[id(c)] = cap
                return CollV(key, preds, typ or fr.ft.type_of(g.iter), cpreds=cp, penv=pe)
            if isinstance(g.target, ast.Name) and not g.ifs and type(coll) is Unk and self.name_comprehensions \
                    and any(isinstance(n, ast.Call) for n in ast.walk(e.elt)):
                saved = dict(st.env)
                st.env[g.target.id] = Unk(f"{coll.tag}[*]")
                self._quiet += 1
                try:
                    ev = self.eval(e.elt, st, fr)
                finally:
                    self._quiet -= 1
                    st.env = saved
                if isinstance(ev, Unk):
                    return Unk(f"list-of:{ev.tag}", fr.ft.type_of(e))
            if isinstance(g.target, ast.Name) and not g.ifs and isinstance(e, ast.ListComp) and not g.is_async \
                    and not any(isinstance(n, (ast.Call, ast.NamedExpr, ast.Lambda)) for n in ast.walk(e.elt)):
                m = MapV("comp~%d" % next(self._fresh), fr.ft.type_of(e))
                m.key, m.var, m.elt, m.env = key, g.target.id, e.elt, dict(st.env)
                m.mark, m.mark_ev = len(st.trace), (st.trace[-1] if st.trace else None)
                return m
        elif e.generators and isinstance(e.elt, ast.Name) and isinstance(e.generators[-1].target, ast.Name) \
                and e.elt.id == e.generators[-1].target.id and not isinstance(e, ast.GeneratorExp):
            # flattening comprehension `[x for outer in A for x in outer.B if p(x)]`: the elements are known only through
            # the innermost conditions that mention nothing bound by an outer generator
            g = e.generators[-1]
            outer = {n.id for g0 in e.generators[:-1] for n in ast.walk(g0.target) if isinstance(n, ast.Name)}
            preds = []
            for c in g.ifs:
                for conj in (c.values if isinstance(c, ast.BoolOp) and isinstance(c.op, ast.And) else [c]):
                    if not any(isinstance(n, ast.Name) and n.id in outer for n in ast.walk(conj)):
                        preds.append((g.target.id, conj))
            base = " / ".join(ast.unparse(g0.iter) for g0 in e.generators)
            if len(e.generators) == 2 and isinstance(e.generators[0].target, ast.Name) and isinstance(g.iter, ast.Attribute) and isinstance(g.iter.value, ast.Name) \
                    and g.iter.value.id == e.generators[0].target.id:
                # all members of all owners: named like chain.from_iterable would name it; conditions on the owner (and conditions on
                # the member that mention the owner) are part of the name -- the result then does not cover every owner
                self._quiet += 1
                try:
                    ov = self.eval(e.generators[0].iter, st, fr)
                finally:
                    self._quiet -= 1
                base = f"{self.path_of(ov, ast.unparse(e.generators[0].iter))} / *.{g.iter.attr}"
                oc = list(e.generators[0].ifs) + [cj for c in g.ifs for cj in (c.values if isinstance(c, ast.BoolOp) and isinstance(c.op, ast.And) else [c])
                                                   if any(isinstance(n, ast.Name) and n.id in outer for n in ast.walk(cj))]
                if oc:
                    base = base.replace(" / ", "[if " + " and ".join(ast.unparse(c) for c in oc) + "] / ", 1)
            typ = fr.ft.type_of(e)
            if typ and typ[0] in ("list", "set") and typ[1]:
                return CollV(base, preds, typ, "set" if isinstance(e, ast.SetComp) else "list")
        return Unk("comp~%d" % next(self._fresh), fr.ft.type_of(e))

    def binop(self, op, a, b, node):
        if isinstance(a, Poly) and isinstance(b, Poly):
            if isinstance(op, ast.Add):
                return a + b
            if isinstance(op, ast.Sub):
                return a - b
            if isinstance(op, ast.Mult):
                return a * b
            if isinstance(op, ast.Div) and b.is_const() and b.const_value() != 0:
                return a.scale(1 / b.const_value())
            if isinstance(op, ast.Div):
                return Poly.sym(f"({a!r})/({b!r})")
        if isinstance(a, ListV) and isinstance(b, ListV) and isinstance(op, ast.Add):
            return ListV(a.items + b.items, True, a.kind)
        if isinstance(a, ListV) and isinstance(b, ListV) and isinstance(op, (ast.BitOr, ast.BitAnd, ast.Sub)):
            # set algebra on known collections (elements compared as abstract values)
            def has(lst, x):
                return any(_same(x, y) for y in lst)
            if isinstance(op, ast.BitOr):
                items = list(a.items) + [x for x in b.items if not has(a.items, x)]
            elif isinstance(op, ast.BitAnd):
                items = [x for x in a.items if has(b.items, x)]
            else:
                items = [x for x in a.items if not has(b.items, x)]
            return ListV(items, True, "set")
        if isinstance(op, ast.BitOr) and isinstance(a, (CollV, ListV, Unk)) and isinstance(b, (CollV, ListV, Unk)):
            # union of collections known only by their element facts: nothing is known about an arbitrary element
            ta = a.typ if isinstance(a, (CollV, Unk)) else None
            tb = b.typ if isinstance(b, (CollV, Unk)) else None
            return Unk(f"union~{getattr(node, 'lineno', 0)}:{getattr(node, 'col_offset', 0)}", ta or tb)
        if isinstance(a, Const) and isinstance(b, Const) and isinstance(a.v, str) and isinstance(b.v, str) and isinstance(op, ast.Add):
            return Const(a.v + b.v)
        # arithmetic over unknowns stays symbolic when both are numeric-ish
        ta = a if isinstance(a, Poly) else (Poly.sym(a.tag) if isinstance(a, Unk) else None)
        tb = b if isinstance(b, Poly) else (Poly.sym(b.tag) if isinstance(b, Unk) else None)
        if ta is not None and tb is not None and isinstance(op, (ast.Add, ast.Sub, ast.Mult)):
            return self.binop(op, ta, tb, node)
        if ta is not None and tb is not None and isinstance(op, ast.Div):
            return self.binop(op, ta, tb, node)
        return Unk(f"binop~{getattr(node, 'lineno', 0)}:{getattr(node, 'col_offset', 0)}")

    # -- calls -----------------------------------------------------------------------------------
    def eval_call(self, e, st, fr, effects):
        k = "__call_%d" % id(e)
        if k in st.env:
            return st.env[k]
        if self.call_hook is not None:
            hv = self.call_hook(self, e, st, fr)
            if hv is not None:
                return hv
        f = e.func
        # calls through values: a lambda / table entry, a local alias of a bound method
        if isinstance(f, (ast.Name, ast.Subscript)) and not (isinstance(f, ast.Name) and (f.id in self.repo.functions or f.id in self.repo.classes)):
            self._quiet += 1
            try:
                fv = self.eval(f, st, fr) if (isinstance(f, ast.Subscript) or f.id in st.env or self._module_const(f.id, fr) is not None) else None
            finally:
                self._quiet -= 1
            if isinstance(fv, ClassV):
                call2 = ast.copy_location(ast.Call(func=ast.copy_location(ast.Name(id=fv.cls, ctx=ast.Load()), e), args=list(e.args), keywords=list(e.keywords)), e)
                saved_f = st.env.pop(fv.cls, None)
                try:
                    return self.eval_call(call2, st, fr, effects)
                finally:
                    if saved_f is not None:
                        st.env[fv.cls] = saved_f
            if isinstance(fv, FuncV) and isinstance(fv.node, ast.Lambda):
                return self._call_lambda(fv, e, st, fr, effects)
            if isinstance(fv, FuncV) and isinstance(fv.node, ast.FunctionDef) and ("__call_%d" % id(e)) not in st.env:
                r = self._call_simple_def(fv.node, e, st, fr, effects)
                if r is None:
                    r = self._call_pure_def(fv.node, e, st, fr)
                if r is not None:
                    return r
            if isinstance(fv, BoundV) and fv.op == "get" and e.args and not e.keywords:
                # `lookup = TABLE.get` ... `lookup(key)`: the dict method called through its alias
                call2 = ast.copy_location(ast.Call(func=ast.copy_location(ast.Attribute(value=fv.ref, attr="get", ctx=ast.Load()), e), args=list(e.args), keywords=[]), e)
                return self.eval_call(call2, st, fr, effects)
            if isinstance(fv, BoundV) and fv.op is not None:
                args = [self.eval(a, st, fr, effects) for a in e.args]
                if effects:
                    self._mut_event(fv.ref, fv.op, args, e, st, fr, list(e.args))
                return Unk(f"{ast.unparse(fv.ref)}.{fv.op}()")
        # in-place mutators on attributes / locals
        if isinstance(f, ast.Attribute) and f.attr in MUTATORS and isinstance(f.value, ast.Subscript) and not isinstance(f.value.slice, ast.Slice) \
                and isinstance(self.eval(f.value.value, st, fr), DictV):
            args = [self.eval(a, st, fr, effects) for a in e.args]
            if effects:
                self._mut_event(f.value, f.attr, args, e, st, fr, list(e.args))
            return Unk(f"{ast.unparse(f)[:40]}()")
        if isinstance(f, ast.Attribute) and f.attr in ("values", "keys", "items") and not e.args and not e.keywords and isinstance(f.value, ast.Name) \
                and isinstance(st.env.get(f.value.id), DictV):
            dv = st.env[f.value.id]
            vals = [(st.env.get(r, v) if r else v) for _k, v, r in dv.entries]
            if f.attr == "values":
                return ListV(vals, True, "list")
            if f.attr == "keys":
                return ListV([k for k, _v, _r in dv.entries], True, "list")
            return ListV([ListV([k, v], True, "tuple") for (k, _v, _r), v in zip(dv.entries, vals)], True, "list")
        if isinstance(f, ast.Attribute) and f.attr == "update" and isinstance(f.value, ast.Name) and isinstance(st.env.get(f.value.id), DictV) and len(e.args) <= 1:
            # d.update(other) / d.update(k=v) with decidable keys: merged entry by entry
            cur = st.env[f.value.id]
            new_ents = []
            ok = True
            if e.args:
                ov = self.eval(e.args[0], st, fr, effects)
                if isinstance(ov, DictV):
                    new_ents += [(k, (st.env.get(r0, v) if r0 else v), None) for k, v, r0 in ov.entries]
                else:
                    ok = False
            for kw in e.keywords:
                if kw.arg is None:
                    dv2 = self.eval(kw.value, st, fr, effects)
                    if isinstance(dv2, DictV):
                        new_ents += [(k, v, None) for k, v, _r in dv2.entries]
                    else:
                        ok = False
                else:
                    new_ents.append((Const(kw.arg), self.eval(kw.value, st, fr, effects), None))
            if ok:
                ents = list(cur.entries)
                for k, v, r0 in new_ents:
                    rs = [self._equal(k, k2) for k2, _v, _r in ents]
                    if any(x is True for x in rs):
                        ents[rs.index(True)] = (ents[rs.index(True)][0], v, None)
                    elif all(x is False for x in rs):
                        ents.append((k, v, None))
                    else:
                        ok = False
                        break
            if ok:
                st.env[f.value.id] = DictV(ents)
                return NONE
        if isinstance(f, ast.Attribute) and f.attr in MUTATORS and isinstance(f.value, ast.Name) and isinstance(st.env.get(f.value.id), DictV) and f.attr != "setitem":
            # update / pop / clear ... on a local dict: its contents are no longer tracked
            for a0 in e.args:
                self.eval(a0, st, fr, effects)
            for kw in e.keywords:
                self.eval(kw.value, st, fr, effects)
            st.env[f.value.id] = Unk(f"dict~{next(self._fresh)}", ("dict", None, None))
            return Unk(f"{ast.unparse(f)[:40]}()")
        if isinstance(f, ast.Attribute) and f.attr == "get" and e.args and not e.keywords:
            dv = self.eval(f.value, st, fr)
            if type(dv) is Unk and (dv.typ is None or dv.typ[0] == "dict"):
                kv0 = self.eval(e.args[0], st, fr)
                if isinstance(kv0, Const) and isinstance(kv0.v, str):
                    return Unk(f"{dv.tag}[{kv0.v!r}]", dv.typ[2] if dv.typ and len(dv.typ) > 2 else None)
            if isinstance(dv, DictV):
                ent = self._dict_entry(dv, self.eval(e.args[0], st, fr))
                if ent is False:
                    return self.eval(e.args[1], st, fr) if len(e.args) > 1 else NONE
                if ent is not None:
                    return st.env.get(ent[2], ent[1]) if ent[2] else ent[1]
        if isinstance(f, ast.Attribute) and f.attr in MUTATORS and isinstance(f.value, ast.Call) and isinstance(f.value.func, ast.Name) and f.value.func.id == "getattr" \
                and len(f.value.args) == 2:
            nm0 = self.eval(f.value.args[1], st, fr)
            if isinstance(nm0, Const) and isinstance(nm0.v, str) and nm0.v.isidentifier():
                # getattr(x, "name").append(...) is x.name.append(...)
                f2 = ast.copy_location(ast.Attribute(value=ast.copy_location(ast.Attribute(value=f.value.args[0], attr=nm0.v, ctx=ast.Load()), f.value), attr=f.attr, ctx=ast.Load()), f)
                e2 = ast.copy_location(ast.Call(func=f2, args=e.args, keywords=e.keywords), e)
                return self.eval_call(e2, st, fr, effects)
        if isinstance(f, ast.Attribute) and f.attr in MUTATORS and isinstance(f.value, (ast.Attribute, ast.Name)):
            base_t = fr.ft.type_of(f.value)
            is_model_call = base_t is not None and base_t[0] == "obj"
            if not is_model_call:
                args = [self.eval(a, st, fr, effects) for a in e.args]
                if effects:
                    self._mut_event(f.value, f.attr, args, e, st, fr, list(e.args))
                return Unk(f"{ast.unparse(f)}()")
        fname = f.id if isinstance(f, ast.Name) else None
        if fname in self.repo.enums and len(e.args) == 1 and not e.keywords:
            av = self.eval(e.args[0], st, fr)
            iv = None
            if isinstance(av, EnumSet) and av.single() is not None:
                iv = self.repo.enums[av.cls][av.single()]
            elif isinstance(av, Poly) and av.is_const() and av.const_value().denominator == 1:
                iv = int(av.const_value())
            if iv is not None:
                ms = [m for m, val in self.repo.enums[fname].items() if val == iv]
                if ms:
                    return EnumSet(fname, [ms[0]])
        if fname in ("all", "any") and len(e.args) == 1:
            inner = self._eval_iterable(e.args[0], st, fr)
            if isinstance(inner, ListV):
                ts = [self._truth_of_value(x) for x in inner.items]
                if fname == "all":
                    if any(t is False for t in ts):
                        return FALSE
                    return TRUE if all(t is True for t in ts) else Unk(ast.unparse(e), ("prim", "bool"))
                if any(t is True for t in ts):
                    return TRUE
                return FALSE if all(t is False for t in ts) else Unk(ast.unparse(e), ("prim", "bool"))
            return Unk(ast.unparse(e), ("prim", "bool"))
        if fname in ("max", "min") and len(e.args) == 1:
            inner = self._eval_iterable(e.args[0], st, fr)
            if isinstance(inner, ListV) and inner.items:
                keyl = next((kw.value for kw in e.keywords if kw.arg == "key"), None)
                if len(inner.items) == 1:
                    return inner.items[0]
                vals = []
                for it in inner.items:
                    if isinstance(keyl, ast.Lambda) and len(keyl.args.args) == 1:
                        saved = dict(st.env)
                        st.env[keyl.args.args[0].arg] = it
                        vals.append(self.eval(keyl.body, st, fr))
                        st.env = saved
                    else:
                        vals.append(it)
                if all(isinstance(v, EnumSet) and v.single() is not None for v in vals):
                    ints = [self.repo.enums[v.cls][v.single()] for v in vals]
                    pick = max(range(len(ints)), key=lambda i: ints[i]) if fname == "max" else min(range(len(ints)), key=lambda i: ints[i])
                    return inner.items[pick]
                if all(isinstance(v, Poly) for v in vals):
                    best = 0
                    decided = True
                    for i in range(1, len(vals)):
                        lo, hi = self.interval(vals[i] - vals[best], st)
                        # ties: the chosen element has the same key value either way (callers read the key attribute)
                        if fname == "max":
                            if lo is not None and lo >= 0:
                                best = i
                            elif not (hi is not None and hi <= 0):
                                decided = False
                        else:
                            if hi is not None and hi <= 0:
                                best = i
                            elif not (lo is not None and lo >= 0):
                                decided = False
                    if decided:
                        return inner.items[best]
        if fname in ("max", "min") and len(e.args) >= 2 and not e.keywords:
            vals = [self.eval(a, st, fr) for a in e.args]
            if all(isinstance(v, Poly) and v.is_const() for v in vals):
                cs = [v.const_value() for v in vals]
                return Poly.const(max(cs) if fname == "max" else min(cs))
        if ast.unparse(f) in ("itertools.repeat", "repeat") and len(e.args) == 1 and not e.keywords:
            rp = RepeatV(f"repeat~{next(self._fresh)}", None)
            rp.node, rp.val = e.args[0], self.eval(e.args[0], st, fr, effects)
            return rp
        if fname == "iter" and len(e.args) == 1 and not e.keywords:
            iv = IterV(f"iter~{next(self._fresh)}:{ast.unparse(e.args[0])[:40]}", None)
            iv.src, iv.val = e.args[0], self.eval(e.args[0], st, fr, effects)
            return iv
        if fname == "reversed" and len(e.args) == 1 and not e.keywords:
            rv = self._eval_iterable(e.args[0], st, fr)
            if isinstance(rv, ListV):
                return ListV(list(reversed(rv.items)), True, "list")
        if fname == "range" and 1 <= len(e.args) <= 2:
            vals = [self.eval(a, st, fr) for a in e.args]
            if all(isinstance(v, Poly) and v.is_const() and v.const_value().denominator == 1 for v in vals):
                ints = [int(v.const_value()) for v in vals]
                rng = range(*ints)
                if len(rng) <= 16:
                    return ListV([Poly.const(i) for i in rng], True, "list")
        if fname == "enumerate" and len(e.args) >= 1:
            col = self._eval_iterable(e.args[0], st, fr)
            start = 0
            sn = e.args[1] if len(e.args) > 1 else next((kw.value for kw in e.keywords if kw.arg == "start"), None)
            if sn is not None:
                sv = self.eval(sn, st, fr)
                start = int(sv.const_value()) if isinstance(sv, Poly) and sv.is_const() else None
            if isinstance(col, ListV) and start is not None:
                return ListV([ListV([Poly.const(start + i), x], True, "tuple") for i, x in enumerate(col.items)], col.fresh, "list")
        if fname == "zip" and len(e.args) >= 2 and not e.keywords:
            cols = [self._eval_iterable(a, st, fr) for a in e.args]
            if all(isinstance(c, ListV) for c in cols):
                n = min(len(c.items) for c in cols)
                return ListV([ListV([c.items[i] for c in cols], True, "tuple") for i in range(n)], True, "list")
        gl = self._getter_lambda(e)
        if gl is not None:
            return FuncV(gl)
        if fname == "next" and len(e.args) in (1, 2) and not e.keywords and isinstance(e.args[0], (ast.GeneratorExp, ast.Call)):
            # next(<generator over a known table>, default): the first element that passes, else the default
            seq = self._eval_iterable(e.args[0], st, fr) if isinstance(e.args[0], ast.GeneratorExp) or \
                (isinstance(e.args[0].func, ast.Name) and e.args[0].func.id in ("iter", "filter", "map")) else None
            if isinstance(e.args[0], ast.Call) and isinstance(e.args[0].func, ast.Name) and e.args[0].func.id == "iter" and len(e.args[0].args) == 1:
                seq = self._eval_iterable(e.args[0].args[0], st, fr)
            if isinstance(seq, ListV):
                if seq.items:
                    return seq.items[0]
                if len(e.args) == 2:
                    return self.eval(e.args[1], st, fr, effects)
        if fname == "bool" and len(e.args) == 1:
            t = self.truth(e.args[0], st, fr)
            if t is not None:
                return Const(t)
            return Unk(ast.unparse(e), ("prim", "bool"))
        if fname == "sum" and len(e.args) == 1:
            inner = self._eval_iterable(e.args[0], st, fr)
            if isinstance(inner, ListV) and all(isinstance(x, Poly) for x in inner.items):
                tot = Poly()
                for x in inner.items:
                    tot = tot + x
                return tot
        if fname == "len" and len(e.args) == 1:
            v = self.eval(e.args[0], st, fr)
            if isinstance(v, ListV) and v.fresh:
                return Poly.const(len(v.items))
            key = self.path_of(v, ast.unparse(e.args[0]))
            if key in self.collections:
                return Poly.const(len(self.collections[key]))
            sym = f"len({key})"
            st.bounds.setdefault(sym, (Fraction(0), None))
            return Poly.sym(sym)
        if fname == "sorted" and len(e.args) == 1 and any(kw.arg == "key" for kw in e.keywords):
            base = self.eval(e.args[0], st, fr)
            keyv = self.eval(next(kw.value for kw in e.keywords if kw.arg == "key"), st, fr)
            revn = next((kw.value for kw in e.keywords if kw.arg == "reverse"), None)
            revv = self.eval(revn, st, fr) if revn is not None else FALSE
            if isinstance(base, CollV):
                return CollV(base.base, base.preds, base.typ, "list", cpreds=base.cpreds, penv=base.penv)  # element facts survive a permutation
            if isinstance(base, ListV) and base.items and isinstance(keyv, FuncV) and isinstance(self._truth_of_value(revv), bool) and not self._quiet_sort_off():
                # a known list and a key that evaluates to numbers (or tuples of numbers) for every item: sorted here (stable)
                keys = []
                for it in base.items:
                    call = ast.copy_location(ast.Call(func=ast.Name(id="__key__", ctx=ast.Load()), args=[ast.Name(id="__item__", ctx=ast.Load())], keywords=[]), e)
                    ast.fix_missing_locations(call)
                    saved = st.env
                    st.env = dict(saved)
                    st.env["__key__"], st.env["__item__"] = keyv, it
                    self._quiet += 1
                    try:
                        kv = self.eval_call(call, st, fr, False)
                    finally:
                        self._quiet -= 1
                        st.env = saved
                    parts = kv.items if isinstance(kv, ListV) and kv.kind == "tuple" else [kv]
                    if not all(isinstance(x, Poly) and x.is_const() for x in parts):
                        keys = None
                        break
                    keys.append(tuple(x.const_value() for x in parts))
                if keys is not None:
                    order = sorted(range(len(keys)), key=lambda i: keys[i], reverse=bool(self._truth_of_value(revv)))
                    return ListV([base.items[i] for i in order], True, "list")
            return SortedV(base, keyv, revv, e, dict(st.env))
        if fname in ("list", "tuple", "sorted", "set") and len(e.args) >= 1:
            inner = self._eval_iterable(e.args[0], st, fr)
            if isinstance(inner, CollV):
                cv = CollV(inner.base, inner.preds, inner.typ, "set" if fname == "set" else "list", cpreds=inner.cpreds, penv=inner.penv)
                if fname == "sorted" and all(kw.arg == "reverse" for kw in e.keywords):
                    cv.reverse = self._truth_of_value(self.eval(e.keywords[0].value, st, fr)) if e.keywords else False
                elif fname in ("list", "tuple"):
                    cv.reverse = inner.reverse
                return cv
            if isinstance(inner, ListV) and fname in ("list", "tuple"):
                return ListV(inner.items, True, fname)
            if isinstance(inner, ListV) and fname == "sorted" and not any(kw.arg == "key" for kw in e.keywords) and \
                    all(isinstance(x, Poly) and x.is_const() for x in inner.items):
                rev = next((kw.value for kw in e.keywords if kw.arg == "reverse"), None)
                items = sorted(inner.items, key=lambda x: x.const_value(), reverse=bool(isinstance(rev, ast.Constant) and rev.value))
                return ListV(items, True, "list")
            if fname == "set" and isinstance(inner, ListV):
                return ListV(inner.items, True, "set")
            if fname == "sorted" and len(e.args) == 1 and all(kw.arg == "reverse" for kw in e.keywords):
                u = OrderedUnk(f"{fname}~{next(self._fresh)}:{ast.unparse(e.args[0])[:40]}", fr.ft.type_of(e))
                rv = self.eval(e.keywords[0].value, st, fr) if e.keywords else FALSE
                t = self._truth_of_value(rv)
                u.reverse = t   # True / False / None (not decided)
                return u
            return Unk(f"{fname}~{next(self._fresh)}:{ast.unparse(e.args[0])[:40]}", fr.ft.type_of(e))
        if ast.unparse(f) in ("itertools.chain.from_iterable", "chain.from_iterable") and len(e.args) == 1 and not e.keywords:
            fv = self._flatten(e.args[0], st, fr)
            if fv is not None:
                return fv
        if ast.unparse(f) in ("itertools.chain", "chain") and e.args and not e.keywords:
            parts = [self._eval_iterable(a, st, fr) for a in e.args]
            if all(isinstance(x, ListV) for x in parts):
                return ListV([y for x in parts for y in x.items], all(x.fresh for x in parts), "list")
            return Unk(f"chain~{next(self._fresh)}", fr.ft.type_of(e))
        if fname == "dict" and not e.args and e.keywords and all(kw.arg for kw in e.keywords):
            # dict(a=x, b=y) == {"a": x, "b": y}
            return self.eval(ast.copy_location(ast.Dict(keys=[ast.Constant(kw.arg) for kw in e.keywords], values=[kw.value for kw in e.keywords]), e), st, fr, effects)
        if fname in ("list", "set", "dict") and not e.args:
            return ListV([], True, fname)
        if fname == "filter" and len(e.args) == 2 and self._as_lambda(e.args[0], st) is not None:
            return self._eval_iterable(e, st, fr)
        if fname in ("int", "float") and len(e.args) == 1:
            v = self.eval(e.args[0], st, fr)
            if isinstance(v, Poly):
                return v
            if isinstance(v, EnumSet) and v.single() is not None:
                return v
            return Unk(f"{fname}({self.path_of(v, ast.unparse(e.args[0]))})", ("prim", "float"))
        if fname in ("getattr", "setattr") and len(e.args) >= 2:
            nm = self.eval(e.args[1], st, fr)
            if isinstance(nm, Const) and isinstance(nm.v, str) and nm.v.isidentifier():
                # attribute access by a known name: same as the dotted form
                tgt = ast.Attribute(value=e.args[0], attr=nm.v, ctx=ast.Store() if fname == "setattr" else ast.Load())
                ast.copy_location(tgt, e)
                if fname == "getattr":
                    return self.eval(tgt, st, fr, effects)
                if len(e.args) == 3:
                    v = self.eval(e.args[2], st, fr, effects)
                    self.assign(tgt, v, st, fr, e)
                    return NONE
        if fname == "isinstance" and len(e.args) == 2:
            v = self.eval(e.args[0], st, fr)
            if isinstance(v, Obj) and v.cls and isinstance(e.args[1], ast.Name) and e.args[1].id in self.repo.classes:
                target = e.args[1].id
                if target in self.repo.mro(v.cls):
                    return TRUE
                if v.cls not in self.repo.mro(target):
                    return FALSE
            return Unk(ast.unparse(e), ("prim", "bool"))
        # generic call: evaluate args for effects, emit event
        callees, resolved = self._resolve(e, st, fr)
        if resolved and len(callees) == 1 and getattr(callees[0], "parent", None) is None and fr.depth < self.max_depth:
            # a helper the policy would follow, called where statements cannot be hoisted (a comprehension condition, a lambda):
            # interpreted on a copy; its value counts if it has no effect and every path agrees
            if hasattr(self.inline, "__dict__"):
                self.inline.caller = fr.func
            if self.inline(e, callees[0], fr.depth):
                r = self._call_pure_def(None, e, st, fr, callee=callees[0])
                if r is not None:
                    return r
        argvals = {}
        for i, a in enumerate(e.args):
            argvals[i] = self.eval(a, st, fr, effects)
        for kw in e.keywords:
            if kw.arg:
                argvals[kw.arg] = self.eval(kw.value, st, fr, effects)
            else:
                dv = self.eval(kw.value, st, fr, effects)
                if isinstance(dv, DictV):
                    for k, v, _r in dv.entries:
                        if isinstance(k, Const) and isinstance(k.v, str):
                            argvals[k.v] = v
        recv = None
        cname = ast.unparse(f)
        if isinstance(f, ast.Attribute):
            recv = self.eval(f.value, st, fr, effects)
        elif isinstance(f, ast.Name) and isinstance(st.env.get(f.id), BoundV) and st.env[f.id].func is not None:
            recv = st.env[f.id].recv
            cname = f"{recv.name}.{st.env[f.id].func.name}"
        cev = None
        if (effects or callees) and not self._quiet:
            cev = Call(cname, [c.qualname for c in callees], argvals, e, fr.func, fr.stack, False, recv)
            if callees:
                cev.facts = dict(st.facts)   # what is known to hold when the call is made
            st.trace.append(cev)
        if callees and self.havoc_on_call:
            # opaque in-package call: forget what it may write
            attrs = set()
            for c in callees:
                for g in self.eff.reachable([c], precise=False):
                    for ef in self.eff.of(g):
                        if ef.kind in ("store", "mut", "del"):
                            attrs.add(ef.attr)
            if attrs:
                for hk in [hk for hk in st.heap if hk[1] in attrs]:
                    del st.heap[hk]
                for mk in [mk for mk in st.memo if any(a in mk[1] for a in attrs)]:
                    del st.memo[mk]
                self._drop_facts(st, attrs, fr)
        ret = self._call_result(e, f, fname, callees, fr)
        if cev is not None:
            cev.ret = ret
        return ret

    def _call_result(self, e, f, fname, callees, fr):
        if callees and len(callees) == 1 and callees[0].name == "__init__" and callees[0].cls:
            return Obj(f"new{next(self._fresh)}:{callees[0].cls}", callees[0].cls)
        if fname in self.repo.classes and self.repo.classes[fname].enum_members is not None:
            return self.full_enum(fname)
        if fname in self.repo.classes:
            return Obj(f"new{next(self._fresh)}:{fname}", fname)
        t = fr.ft.type_of(e)
        return self.value_for_type(f"{ast.unparse(f)}()~{next(self._fresh)}", t) if t else Unk(f"{ast.unparse(f)}()~{next(self._fresh)}")

    def _flatten(self, a, st, fr):
        """chain.from_iterable(<the `attr` list of every element of a collection>) -> the collection of all those members, named
        "<outer path> / *.<attr>"; a condition on the outer elements becomes part of the name (the result then no longer covers every
        owner).  The argument may be map(lambda o: o.attr, C), list(...) of it, or a generator / list comprehension."""
        while isinstance(a, ast.Call) and isinstance(a.func, ast.Name) and a.func.id in ("list", "tuple", "iter") and len(a.args) == 1 and not a.keywords:
            a = a.args[0]
        outer = var = body = None
        conds = []
        if isinstance(a, ast.Call) and isinstance(a.func, ast.Name) and a.func.id == "map" and len(a.args) == 2 and not a.keywords:
            lam = self._as_lambda(a.args[0], st)
            if lam is not None and len(lam.args.args) == 1:
                var, body, outer = lam.args.args[0].arg, lam.body, a.args[1]
        elif isinstance(a, (ast.GeneratorExp, ast.ListComp)) and len(a.generators) == 1 and isinstance(a.generators[0].target, ast.Name):
            var, body, outer, conds = a.generators[0].target.id, a.elt, a.generators[0].iter, list(a.generators[0].ifs)
        if var is None or not (isinstance(body, ast.Attribute) and isinstance(body.value, ast.Name) and body.value.id == var):
            return None
        ov = self._eval_iterable(outer, st, fr)
        if isinstance(ov, ListV):
            items = []
            for o in ov.items:
                if conds:
                    return None
                lv = st.heap.get((o.name, body.attr)) if isinstance(o, Obj) else None
                if lv is None and isinstance(o, Obj):
                    lv = ListV(self.collections[f"{o.name}.{body.attr}"], False) if f"{o.name}.{body.attr}" in self.collections else None
                if not isinstance(lv, ListV):
                    return None
                items.extend(lv.items)
            return ListV(items, True, "list")
        key = self.path_of(ov, ast.unparse(outer))
        if isinstance(ov, CollV) and ov.preds:
            key += "[" + " and ".join(ast.unparse(b) for _p, b in ov.preds) + "]"
        if conds:
            key += "[if " + " and ".join(ast.unparse(c) for c in conds) + "]"
        et = ov.typ[1] if isinstance(ov, (CollV, Unk)) and ov.typ and ov.typ[0] in ("list", "set") else None
        if et is None:
            ct = fr.ft.type_of(outer)
            et = ct[1] if ct and ct[0] in ("list", "set") else None
        mt = self.types.field_type(et[1], body.attr) if et and et[0] == "obj" else None
        return CollV(f"{key} / *.{body.attr}", [], mt, "list")

    def _quiet_sort_off(self):
        return False

    def _getter_lambda(self, f):
        """`attrgetter("a")` / `operator.itemgetter(0)` written out as the lambda it stands for (None for anything else)."""
        if not (isinstance(f, ast.Call) and not f.keywords and f.args and ast.unparse(f.func) in ("attrgetter", "operator.attrgetter", "itemgetter", "operator.itemgetter")):
            return None
        memo = self.__dict__.setdefault("_lam_memo", {})
        if id(f) not in memo:
            x = "__g%d" % (f.lineno * 1000 + f.col_offset)
            attr = ast.unparse(f.func).endswith("attrgetter")
            parts = []
            for a in f.args:
                if attr and isinstance(a, ast.Constant) and isinstance(a.value, str) and all(p.isidentifier() for p in a.value.split(".")):
                    e = ast.Name(id=x, ctx=ast.Load())
                    for p in a.value.split("."):
                        e = ast.Attribute(value=e, attr=p, ctx=ast.Load())
                    parts.append(e)
                elif not attr:
                    parts.append(ast.Subscript(value=ast.Name(id=x, ctx=ast.Load()), slice=a, ctx=ast.Load()))
                else:
                    return None
            body = parts[0] if len(parts) == 1 else ast.Tuple(elts=parts, ctx=ast.Load())
            lam = ast.Lambda(args=ast.arguments(posonlyargs=[], args=[ast.arg(arg=x)], kwonlyargs=[], kw_defaults=[], defaults=[]), body=body)
            memo[id(f)] = (f, ast.fix_missing_locations(ast.copy_location(lam, f)))
        return memo[id(f)][1]

    def _as_lambda(self, f, st):
        """The function argument of map/filter as a one-parameter lambda: a lambda as written, or `lambda x: f(x)` for a
        local function value (nested def, alias of a lambda)."""
        if isinstance(f, ast.Lambda):
            return f
        g = self._getter_lambda(f)
        if g is not None:
            return g
        if isinstance(f, ast.Name) and isinstance(st.env.get(f.id), FuncV):
            memo = self.__dict__.setdefault("_lam_memo", {})
            if id(f) not in memo:
                x = "__x%d" % (f.lineno * 1000 + f.col_offset)
                lam = ast.Lambda(args=ast.arguments(posonlyargs=[], args=[ast.arg(arg=x)], kwonlyargs=[], kw_defaults=[], defaults=[]),
                                 body=ast.Call(func=ast.Name(id=f.id, ctx=ast.Load()), args=[ast.Name(id=x, ctx=ast.Load())], keywords=[]))
                memo[id(f)] = (f, ast.fix_missing_locations(ast.copy_location(lam, f)))
            return memo[id(f)][1]
        return None

    def _eval_iterable(self, e, st, fr):
        """Evaluate map/filter/list/comprehension chains over abstracted collections to ListV."""
        if isinstance(e, ast.Call) and isinstance(e.func, ast.Name):
            n = e.func.id
            if n in ("list", "tuple", "set", "sorted") and e.args:
                return self._eval_iterable(e.args[0], st, fr)
            if n in ("map", "filter") and len(e.args) == 2 and self._as_lambda(e.args[0], st) is not None:
                lam = self._as_lambda(e.args[0], st)
                src = self._eval_iterable(e.args[1], st, fr)
                if isinstance(src, ListV) and len(lam.args.args) == 1:
                    out = []
                    saved = dict(st.env)
                    p = lam.args.args[0].arg
                    for it in src.items:
                        st.env[p] = it
                        v = self.eval(lam.body, st, fr)
                        if n == "map":
                            out.append(v)
                        else:
                            t = self._truth_of_value(v)
                            if t is None:
                                st.env = saved
                                return Unk(ast.unparse(e))
                            if t:
                                out.append(it)
                    st.env = saved
                    return ListV(out, True)
                if n == "filter" and len(lam.args.args) == 1:
                    base = self.path_of(src, ast.unparse(e.args[1]))
                    preds = list(src.preds) if isinstance(src, CollV) else []
                    typ = src.typ if isinstance(src, (CollV, Unk)) else None
                    cp = (list(src.cpreds) if isinstance(src, CollV) else []) + [self.canon(lam.body, st, fr)]
                    pe = dict(src.penv) if isinstance(src, CollV) else {}
                    cap = self._capture(lam.body, lam.args.args[0].arg, st)
                    if cap:
                        pe[id(lam.body)] = cap
                    return CollV(base, preds + [(lam.args.args[0].arg, lam.body)], typ or fr.ft.type_of(e.args[1]), cpreds=cp, penv=pe)
                return Unk(ast.unparse(e))
        if isinstance(e, (ast.ListComp, ast.GeneratorExp, ast.SetComp)):
            return self._eval_comp(e, st, fr)
        v = self.eval(e, st, fr)
        if isinstance(v, ListV):
            return v
        key = self.path_of(v, ast.unparse(e))
        if key in self.collections:
            return ListV(self.collections[key], False)
        return v

    # -- truth ---------------------------------------------------------------------------------
    def _truth_of_value(self, v):
        if isinstance(v, Const):
            return bool(v.v)
        if isinstance(v, Poly) and v.is_const():
            return v.const_value() != 0
        if isinstance(v, ListV) and v.fresh:
            return len(v.items) > 0
        if isinstance(v, Obj) and not v.maybe_none:
            return True
        if isinstance(v, EnumSet) and v.single() is not None:
            if "IntEnum" not in self.repo.classes[v.cls].bases:
                return True   # members of a plain Enum are always truthy
            return self.repo.enums[v.cls].get(v.single()) != 0
        return None

    def truth(self, e, st, fr):
        """3-valued truth of a test expression in state st: True / False / None."""
        if isinstance(e, ast.Call):
            q = self._quantifier(e, st, fr)
            if q is not None:
                return self.truth(q, st, fr)
        if isinstance(e, ast.BoolOp):
            vals = [self.truth(x, st, fr) for x in e.values]
            if isinstance(e.op, ast.And):
                if any(v is False for v in vals):
                    return False
                return True if all(v is True for v in vals) else None
            if any(v is True for v in vals):
                return True
            return False if all(v is False for v in vals) else None
        if isinstance(e, ast.UnaryOp) and isinstance(e.op, ast.Not):
            v = self.truth(e.operand, st, fr)
            return None if v is None else (not v)
        if isinstance(e, ast.Compare):
            left = e.left
            res = True
            for op, right in zip(e.ops, e.comparators):
                t = self.compare(op, left, right, st, fr)
                if t is False:
                    return False
                if t is None:
                    res = None
                left = right
            return res
        v = self.eval(e, st, fr)
        t = self._truth_of_value(v)
        if t is None and isinstance(v, Unk) and id(v) in st.vknown and st.vknown[id(v)][0] is v:
            return st.vknown[id(v)][1]
        if t is None and isinstance(e, (ast.Call, ast.Name, ast.Attribute, ast.Compare)):
            k = self.canon(e, st, fr)
            if k in st.facts:
                return st.facts[k][0]
        return t

    def canon(self, e, st, fr):
        """Canonical text of a predicate: names/attribute chains that denote abstract objects are replaced by the
        object's access path, so the same predicate written over different local names is recognised."""
        def go(n):
            if isinstance(n, (ast.Name, ast.Attribute)):
                self._quiet += 1
                try:
                    v = self.eval(n, st, fr)
                finally:
                    self._quiet -= 1
                if isinstance(v, Obj):
                    return "<" + v.name + ">"
                if isinstance(v, Const):
                    return repr(v.v)
                if isinstance(v, EnumSet) and v.single():
                    return f"{v.cls}.{v.single()}"
                if isinstance(n, ast.Attribute):
                    return go(n.value) + "." + n.attr
                if isinstance(v, (Unk, Poly)) and isinstance(n, ast.Name):
                    # a local that merely names an attribute of an abstract object (`task_name = self.name`)
                    tag = v.tag if isinstance(v, Unk) else (repr(v) if len(v.terms) == 1 and v.is_linear() and not v.is_const() else "")
                    root, dot, rest = tag.rpartition(".")
                    if dot and rest.isidentifier() and (any(k[0] == root for k in st.heap) or any(isinstance(x, Obj) and x.name == root for x in st.env.values())):
                        return "<" + root + ">." + rest
                return n.id
            if isinstance(n, ast.Call):
                args = [go(a) for a in n.args] + [f"{kw.arg}={go(kw.value)}" for kw in sorted(n.keywords, key=lambda k: k.arg or "")]
                f = n.func
                fn = (go(f.value) + "." + f.attr) if isinstance(f, ast.Attribute) else ast.unparse(f)
                if isinstance(f, ast.Name) and isinstance(st.env.get(f.id), BoundV) and st.env[f.id].func is not None:
                    bv = st.env[f.id]   # local alias of a bound method: the predicate is the method's
                    fn = "<" + bv.recv.name + ">." + bv.func.name
                return fn + "(" + ", ".join(args) + ")"
            if isinstance(n, ast.Constant):
                return repr(n.value)
            if isinstance(n, ast.Compare) and len(n.ops) == 1:
                return go(n.left) + " " + type(n.ops[0]).__name__ + " " + go(n.comparators[0])
            # anything else (comprehensions, boolean operators ...): the source text with every name / attribute chain that
            # denotes an abstract object replaced by the object's access path
            bound = {x.id for c in ast.walk(n) if isinstance(c, ast.comprehension) for x in ast.walk(c.target) if isinstance(x, ast.Name)}
            bound |= {a.arg for c in ast.walk(n) if isinstance(c, ast.Lambda) for a in c.args.args}
            interp = self

            class T(ast.NodeTransformer):
                def visit_Name(self, x):
                    if x.id in bound or not isinstance(x.ctx, ast.Load):
                        return x
                    v = st.env.get(x.id)
                    if isinstance(v, Obj):
                        return ast.copy_location(ast.Name(id="<" + v.name + ">", ctx=ast.Load()), x)
                    return x

                def visit_Attribute(self, x):
                    root = x
                    while isinstance(root, ast.Attribute):
                        root = root.value
                    if isinstance(root, ast.Name) and root.id not in bound and isinstance(x.ctx, ast.Load):
                        interp._quiet += 1
                        try:
                            v = interp.eval(x, st, fr)
                        finally:
                            interp._quiet -= 1
                        if isinstance(v, Obj):
                            return ast.copy_location(ast.Name(id="<" + v.name + ">", ctx=ast.Load()), x)
                    return self.generic_visit(x)
            import copy
            return ast.unparse(T().visit(copy.deepcopy(n)))
        return go(e)

    def pred_reads(self, e, fr):
        """Attribute names a predicate expression may read (its own attribute loads + the read sets of the
        in-package callees it reaches)."""
        attrs = set()
        for n in ast.walk(e):
            if isinstance(n, ast.Attribute) and isinstance(n.ctx, ast.Load):
                attrs.add(n.attr)
            if isinstance(n, ast.Call):
                callees, _res = fr.ft.resolve_call(n)   # (local aliases of bound methods are resolved statically, too)
                for c in callees:
                    for g in self.eff.reachable([c], precise=False):
                        for ef in self.eff.of(g):
                            if ef.kind == "read":
                                attrs.add(ef.attr)
        return frozenset(attrs)

    def _drop_facts(self, st, attrs, fr=None):
        if st.facts and attrs:
            for k in [k for k, (t, deps) in st.facts.items() if deps & attrs]:
                del st.facts[k]
        if fr is not None and attrs:
            # element facts of filtered collections held in locals: a conjunct that reads a written attribute is no
            # longer known to hold for every element
            for n, v in list(st.env.items()):
                if isinstance(v, CollV) and v.preds:
                    preds, changed = [], False
                    for pn, body in v.preds:
                        for c in (body.values if isinstance(body, ast.BoolOp) and isinstance(body.op, ast.And) else [body]):
                            if self.pred_reads(c, fr) & attrs:
                                changed = True
                            else:
                                preds.append((pn, c))
                    if changed:
                        st.env[n] = CollV(v.base, preds, v.typ, v.kind, penv=v.penv)

    def _enum_val(self, v):
        return {self.repo.enums[v.cls][m] for m in v.members}

    def _const_members(self, node):
        en = self.repo.enum_of_member_expr(node)
        if en:
            return {en[1]}
        if isinstance(node, (ast.List, ast.Tuple, ast.Set)) and node.elts and all(self.repo.enum_of_member_expr(x) for x in node.elts):
            return {self.repo.enum_of_member_expr(x)[1] for x in node.elts}
        if isinstance(node, ast.Constant):
            return {repr(node.value)}
        return None

    def compare(self, op, le, re_, st, fr):
        a, b = self._cmp_sides(op, le, re_, st, fr)
        return self._compare_vals(op, a, b, re_, st, fr)

    def _cmp_sides(self, op, le, re_, st, fr):
        if self.log_reads and isinstance(op, (ast.Eq, ast.NotEq, ast.Is, ast.IsNot, ast.In, ast.NotIn)):
            cl, cr = self._const_members(le), self._const_members(re_)

            def by_value(node):
                # not written as constants, but a name / table entry whose *value* is a constant or a collection of constants
                if isinstance(node, ast.Attribute) or not isinstance(node, (ast.Name, ast.Subscript, ast.Call)):
                    return None
                self._quiet += 1
                try:
                    v = self.eval(node, st, fr)
                finally:
                    self._quiet -= 1
                vals = v.items if isinstance(v, ListV) else [v]
                out = set()
                for x in vals:
                    if isinstance(x, EnumSet) and x.single() is not None:
                        out.add(x.single())
                    elif isinstance(x, Const):
                        out.add(repr(x.v))
                    else:
                        return None
                return out or None
            if cr is None and isinstance(le, ast.Attribute):
                cr = by_value(re_)
            if cl is None and isinstance(re_, ast.Attribute):
                cl = by_value(le)
            saved = self._cmp_consts
            if cr is not None and isinstance(le, ast.Attribute):
                self._cmp_consts = cr
                a = self.eval(le, st, fr)
                self._cmp_consts = saved
                b = self.eval(re_, st, fr)
            elif cl is not None and isinstance(re_, ast.Attribute):
                a = self.eval(le, st, fr)
                self._cmp_consts = cl
                b = self.eval(re_, st, fr)
                self._cmp_consts = saved
            else:
                a = self.eval(le, st, fr)
                b = self.eval(re_, st, fr)
        else:
            a = self.eval(le, st, fr)
            b = self.eval(re_, st, fr)
        return a, b

    def _compare_vals(self, op, a, b, re_, st, fr):
        if isinstance(op, (ast.In, ast.NotIn)):
            r = self._contains(a, b, re_, st, fr)
            if r is None:
                return None
            return r if isinstance(op, ast.In) else (not r)
        eqop = isinstance(op, (ast.Eq, ast.Is))
        neop = isinstance(op, (ast.NotEq, ast.IsNot))
        if eqop or neop:
            r = self._equal(a, b)
            if r is None and isinstance(a, Poly) and isinstance(b, Poly):
                lo, hi = self.interval(a - b, st)
                if (lo is not None and lo > 0) or (hi is not None and hi < 0):
                    r = False
            if r is None:
                return None
            return r if eqop else (not r)
        # ordering
        pa = a if isinstance(a, Poly) else None
        pb = b if isinstance(b, Poly) else None
        if isinstance(a, Const) and isinstance(a.v, (int, float)) and not isinstance(a.v, bool):
            pa = Poly.const(a.v)
        if isinstance(b, Const) and isinstance(b.v, (int, float)) and not isinstance(b.v, bool):
            pb = Poly.const(b.v)
        if pa is not None and pb is not None:
            d = pa - pb
            lo, hi = self.interval(d, st)
            if isinstance(op, ast.Lt):
                if hi is not None and hi < 0:
                    return True
                if lo is not None and lo >= 0:
                    return False
            elif isinstance(op, ast.LtE):
                if hi is not None and hi <= 0:
                    return True
                if lo is not None and lo > 0:
                    return False
            elif isinstance(op, ast.Gt):
                if lo is not None and lo > 0:
                    return True
                if hi is not None and hi <= 0:
                    return False
            elif isinstance(op, ast.GtE):
                if lo is not None and lo >= 0:
                    return True
                if hi is not None and hi < 0:
                    return False
        return None

    def interval(self, p, st):
        """Interval of a linear Poly under the symbol bounds of st; (None, None) if non-linear."""
        if not p.is_linear():
            return (None, None)
        lo = hi = p.const_value()
        for k, c in p.terms.items():
            if k == ():
                continue
            blo, bhi = st.bounds.get(k[0], (None, None))
            if c > 0:
                lo = None if (lo is None or blo is None) else lo + c * blo
                hi = None if (hi is None or bhi is None) else hi + c * bhi
            else:
                lo = None if (lo is None or bhi is None) else lo + c * bhi
                hi = None if (hi is None or blo is None) else hi + c * blo
        return (lo, hi)

    def _equal(self, a, b):
        if isinstance(a, Const) and isinstance(b, Const):
            return a.v == b.v
        if type(a) is Unk and type(b) is Unk and a.tag == b.tag and not a.tag.startswith(("comp~", "dict~", "chain~", "binop~", "union~")):
            return True   # the same unknown (same access path) read twice
        for x, y in ((a, b), (b, a)):
            if isinstance(x, Const) and isinstance(x.v, str) and (isinstance(y, (Poly, DictV, EnumSet)) or (isinstance(y, ListV) and y.fresh)):
                return False   # a string never equals a number, an enum member or a container
            if isinstance(x, Const) and x.v is None and isinstance(y, (FuncV, BoundV, ClassV, DictV, RepeatV, IterV)):
                return False   # a function, a class, a dict is not None
        if isinstance(a, EnumSet) and isinstance(b, EnumSet):
            va, vb = self._enum_val(a), self._enum_val(b)
            if not (va & vb):
                return False
            if len(va) == 1 and va == vb:
                return True
            return None
        if isinstance(a, Poly) and isinstance(b, Poly):
            d = a - b
            if d.is_const():
                return d.const_value() == 0
            return None
        if isinstance(a, Poly) and a.is_const() and isinstance(b, Const) and isinstance(b.v, (int, float)):
            return a.const_value() == b.v
        if isinstance(b, Poly) and isinstance(a, Const):
            return self._equal(b, a)
        if isinstance(a, Obj) and isinstance(b, Const) and b.v is None:
            return False if not a.maybe_none else None
        if isinstance(b, Obj) and isinstance(a, Const):
            return self._equal(b, a)
        if isinstance(a, Obj) and isinstance(b, Obj):
            if a.name == b.name and not a.maybe_none:
                return True
            if self.distinct_objs and a.name != b.name:
                return False
            return None
        if isinstance(a, EnumSet) and isinstance(b, Const) and b.v is None:
            return False
        if isinstance(a, (Poly, ListV)) and isinstance(b, Const) and b.v is None:
            return False
        if isinstance(a, Const) and a.v is None and isinstance(b, (EnumSet, Poly, ListV)):
            return False
        if isinstance(a, EnumSet) and isinstance(b, Poly) and b.is_const():
            va = self._enum_val(a)
            c = b.const_value()
            if all(v != c for v in va):
                return False
            if len(va) == 1:
                return True
        if isinstance(a, ListV) and isinstance(b, ListV) and a.fresh and b.fresh:
            if len(a.items) != len(b.items):
                return False
            rs = [self._equal(x, y) for x, y in zip(a.items, b.items)]
            if any(r is False for r in rs):
                return False
            if all(r is True for r in rs):
                return True
        return None

    def _contains(self, a, b, bnode, st, fr):
        items = None
        if isinstance(b, DictV):
            b = ListV([k for k, _v, _r in b.entries], True, "tuple")
        if isinstance(b, ListV):
            items = b.items
        if items is not None:
            rs = [self._equal(a, x) for x in items]
            if any(r is True for r in rs):
                return True
            if all(r is False for r in rs) and (b.fresh or b.kind == "tuple"):
                return False
            return None
        return None

    # -- refinement ----------------------------------------------------------------------------
    def refine(self, expr, v, st, fr):
        if isinstance(expr, ast.Name):
            st.env[expr.id] = v
            return True
        if isinstance(expr, ast.Attribute):
            base = self.eval(expr.value, st, fr)
            if isinstance(base, Obj):
                st.heap[(base.name, expr.attr)] = v
                return True
        return False

    def _quantifier(self, test, st, fr):
        """`any(E(v) for v in xs)` / `all(...)` over a list whose elements are known (a tuple of states handed to a helper) is the
        disjunction / conjunction of E over them.  -> that BoolOp (its element names bound in st.env), or None."""
        if not (isinstance(test, ast.Call) and isinstance(test.func, ast.Name) and test.func.id in ("any", "all") and len(test.args) == 1 and not test.keywords
                and isinstance(test.args[0], (ast.GeneratorExp, ast.ListComp)) and len(test.args[0].generators) == 1):
            return None
        g = test.args[0].generators[0]
        if g.ifs or not isinstance(g.target, ast.Name) or isinstance(g.iter, (ast.Attribute, ast.Call)):
            return None
        self._quiet += 1
        try:
            it = self.eval(g.iter, st, fr)
        finally:
            self._quiet -= 1
        if not (isinstance(it, ListV) and 1 <= len(it.items) <= 8):
            return None
        memo = self.__dict__.setdefault("_quant_memo", {})
        key = (id(test), len(it.items))
        if key not in memo:
            import copy
            var = g.target.id
            parts = []
            for i in range(len(it.items)):
                nm = f"__q{id(test)}_{i}"

                class S(ast.NodeTransformer):
                    def visit_Name(self, n):
                        return ast.copy_location(ast.Name(id=nm, ctx=n.ctx), n) if n.id == var else n
                parts.append(S().visit(copy.deepcopy(test.args[0].elt)))
            e = parts[0] if len(parts) == 1 else ast.BoolOp(op=ast.Or() if test.func.id == "any" else ast.And(), values=parts)
            ast.copy_location(e, test)
            ast.fix_missing_locations(e)
            memo[key] = (test, e)
        for i, item in enumerate(it.items):
            st.env[f"__q{id(test)}_{i}"] = item
        return memo[key][1]

    def assume(self, test, truth, st, fr):
        """Refine st under `test == truth`.  Returns False when the assumption is contradictory."""
        q = self._quantifier(test, st, fr)
        if q is not None:
            return self.assume(q, truth, st, fr)
        cur = self.truth(test, st, fr)
        if cur is not None:
            return cur == truth
        if isinstance(test, ast.UnaryOp) and isinstance(test.op, ast.Not):
            return self.assume(test.operand, not truth, st, fr)
        if isinstance(test, ast.Compare) and len(test.ops) > 1:
            # `a < b <= c` is `a < b and b <= c` (the operands here are names / attributes / constants: evaluating b twice changes nothing)
            memo = self.__dict__.setdefault("_chain_memo", {})
            if id(test) not in memo:
                parts, left = [], test.left
                for op, right in zip(test.ops, test.comparators):
                    parts.append(ast.copy_location(ast.Compare(left=left, ops=[op], comparators=[right]), test))
                    left = right
                memo[id(test)] = (test, ast.copy_location(ast.BoolOp(op=ast.And(), values=parts), test))
            return self.assume(memo[id(test)][1], truth, st, fr)
        if isinstance(test, ast.BoolOp):
            conj = isinstance(test.op, ast.And)
            if conj == truth:
                # all operands have value `truth`
                for x in test.values:
                    if self.assume(x, truth, st, fr) is False:
                        return False
                return True
            # `x == A or x == B` known true (or `x != A and x != B` known false): x is one of A, B
            eqs = []
            for x in test.values:
                if isinstance(x, ast.Compare) and len(x.ops) == 1 and isinstance(x.ops[0], (ast.Eq, ast.Is) if not conj else (ast.NotEq, ast.IsNot)):
                    cv = self.eval(x.comparators[0], st, fr)
                    if isinstance(cv, EnumSet) and cv.single() is not None:
                        eqs.append((ast.unparse(x.left), x.left, cv))
            if len(eqs) == len(test.values) and len({e[0] for e in eqs}) == 1:
                cur_v = self.eval(eqs[0][1], st, fr)
                if isinstance(cur_v, EnumSet) and all(e[2].cls == cur_v.cls for e in eqs):
                    nv = EnumSet(cur_v.cls, cur_v.members & {e[2].single() for e in eqs})
                    if not nv.members:
                        return False
                    self.refine(eqs[0][1], nv, st, fr)
                    return True
            # at least one operand differs: if exactly one is undecided, refine it
            und = [x for x in test.values if self.truth(x, st, fr) is None]
            if len(und) == 1:
                return self.assume(und[0], truth, st, fr)
            return True
        if isinstance(test, ast.Compare) and len(test.ops) == 1:
            op, le, re_ = test.ops[0], test.left, test.comparators[0]
            a, b = self._cmp_sides(op, le, re_, st, fr)
            if isinstance(op, (ast.Eq, ast.NotEq, ast.Is, ast.IsNot)):
                pos = isinstance(op, (ast.Eq, ast.Is)) == truth
                for x, xe, y in ((a, le, b), (b, re_, a)):
                    if isinstance(x, EnumSet) and isinstance(y, EnumSet) and y.single() is not None and x.single() is None and x.cls == y.cls:
                        nv = EnumSet(x.cls, [y.single()]) if pos else EnumSet(x.cls, x.members - {y.single()})
                        if not nv.members:
                            return False
                        self.refine(xe, nv, st, fr)
                        return True
                    if isinstance(x, Obj) and x.maybe_none and isinstance(y, Const) and y.v is None:
                        self.refine(xe, NONE if pos else Obj(x.name, x.cls, False), st, fr)
                        return True
                    if isinstance(x, Unk) and isinstance(y, Const):
                        if pos:
                            self.refine(xe, y, st, fr)
                        return True
                    if isinstance(x, Poly) and isinstance(y, Poly) and y.is_const() and len(x.terms) == 1 and x.is_linear() and not x.is_const():
                        (k, c), = x.terms.items()
                        if c == 1:
                            if pos:
                                st.bounds[k[0]] = (y.const_value(), y.const_value())
                            else:
                                lo, hi = st.bounds.get(k[0], (None, None))
                                if lo is not None and lo == y.const_value():
                                    st.bounds[k[0]] = (lo + 1, hi)  # integer-valued symbols (lengths, indices)
                                elif hi is not None and hi == y.const_value():
                                    st.bounds[k[0]] = (lo, hi - 1)
                            return True
                return True
            if isinstance(op, (ast.In, ast.NotIn)):
                pos = isinstance(op, ast.In) == truth
                st.facts[self.canon(test, st, fr)] = (truth, self.pred_reads(test, fr))
                if isinstance(a, EnumSet) and isinstance(b, ListV) and all(isinstance(x, EnumSet) and x.single() for x in b.items):
                    ms = {x.single() for x in b.items if x.cls == a.cls}
                    nv = EnumSet(a.cls, (a.members & ms) if pos else (a.members - ms))
                    if not nv.members:
                        return False
                    self.refine(le, nv, st, fr)
                return True
            if isinstance(op, (ast.Lt, ast.LtE, ast.Gt, ast.GtE)):
                pa = a if isinstance(a, Poly) else None
                pb = b if isinstance(b, Poly) else None
                if pa is not None and pb is not None:
                    d = pa - pb  # d op 0
                    syms = [k for k in d.terms if k != ()]
                    if len(syms) == 1 and len(syms[0]) == 1:
                        c = d.terms[syms[0]]
                        k0 = -d.const_value() / c  # sym op' k0
                        kind = type(op)
                        if not truth:
                            kind = {ast.Lt: ast.GtE, ast.LtE: ast.Gt, ast.Gt: ast.LtE, ast.GtE: ast.Lt}[kind]
                        if c < 0:
                            kind = {ast.Lt: ast.Gt, ast.LtE: ast.GtE, ast.Gt: ast.Lt, ast.GtE: ast.LtE}[kind]
                        lo, hi = st.bounds.get(syms[0][0], (None, None))
                        integral = syms[0][0].startswith("len(") or syms[0][0] in self.integral
                        if kind is ast.Lt:
                            nh = (k0 - 1) if integral and k0.denominator == 1 else k0
                            hi = nh if hi is None or nh < hi else hi
                            if not integral:
                                st.neq.setdefault(syms[0][0], set()).add(k0)
                        elif kind is ast.LtE:
                            hi = k0 if hi is None or k0 < hi else hi
                        elif kind is ast.Gt:
                            nl = (k0 + 1) if integral and k0.denominator == 1 else k0
                            lo = nl if lo is None or nl > lo else lo
                            if not integral:
                                st.neq.setdefault(syms[0][0], set()).add(k0)
                        elif kind is ast.GtE:
                            lo = k0 if lo is None or k0 > lo else lo
                        if lo is not None and hi is not None and lo > hi:
                            return False
                        st.bounds[syms[0][0]] = (lo, hi)
                return True
            return True
        # a private one-expression predicate (`return a.has_skill(t) and is_allocated(a, t)`): assuming the call means assuming that
        # expression over its arguments -- the facts it is made of are then known under their own names
        if isinstance(test, ast.Call) and getattr(self, "_pred_depth", 0) < 3:
            try:
                callees, resolved = self._resolve(test, st, fr)
            except AnalysisError:
                callees, resolved = [], False
            c0 = callees[0] if resolved and len(callees) == 1 else None
            if c0 is not None and getattr(c0, "parent", None) is None and c0.name.startswith("_") and not (c0.name.startswith("__") and c0.name.endswith("__")) \
                    and not any(isinstance(a, ast.Starred) for a in test.args) and all(k.arg for k in test.keywords):
                body = [b for b in c0.body() if not (isinstance(b, ast.Expr) and isinstance(b.value, ast.Constant))]
                ret = body[0].value if len(body) == 1 and isinstance(body[0], ast.Return) else None
                if isinstance(ret, (ast.BoolOp, ast.Compare, ast.Call)) or (isinstance(ret, ast.UnaryOp) and isinstance(ret.op, ast.Not)):
                    self._quiet += 1
                    try:
                        args = self._bind_args(test, c0, st, fr)
                        if c0.cls and c0.params and c0.params[0] == "self" and isinstance(test.func, ast.Attribute):
                            args["self"] = self.eval(test.func.value, st, fr)
                    finally:
                        self._quiet -= 1
                    if all(p in args or p in c0.defaults for p in c0.params):
                        for p, d in c0.defaults.items():
                            if p not in args:
                                args[p] = self.eval(d, st, fr)
                        nfr = Frame(c0, self.types.ftypes(c0), fr.stack + ((fr.func.loc(test), c0.qualname),), depth=fr.depth + 1)
                        saved = st.env
                        st.env = dict(args)
                        self._pred_depth = getattr(self, "_pred_depth", 0) + 1
                        try:
                            ok = self.assume(ret, truth, st, nfr)
                        finally:
                            st.env = saved
                            self._pred_depth -= 1
                        if ok is False:
                            return False
        # bare name / attribute / call used as a condition
        v = self.eval(test, st, fr)
        if isinstance(v, Unk):
            st.vknown[id(v)] = (v, truth)
        if isinstance(v, Unk) and v.pred is not None:
            # the boolean was computed elsewhere (another statement, a helper): assuming it means assuming that comparison,
            # in the environment where it was written -- the objects it speaks about are shared through the heap
            pnode, penv, pfr = v.pred
            saved = st.env
            st.env = dict(penv)
            try:
                ok = True if pnode is test else self.assume(pnode, truth, st, pfr)
            finally:
                st.env = saved
            if ok is False:
                return False
        if isinstance(v, Unk) and (v.typ is None or v.typ == ("prim", "bool")):
            self.refine(test, Const(truth), st, fr)
        elif isinstance(v, Obj) and v.maybe_none:
            self.refine(test, Obj(v.name, v.cls, False) if truth else NONE, st, fr)
        if isinstance(test, (ast.Call, ast.Attribute, ast.Name)):
            st.facts[self.canon(test, st, fr)] = (truth, self.pred_reads(test, fr))
        return True


def _mentions(text, name):
    import re
    return re.search(r"(?<![A-Za-z0-9_])" + re.escape(name) + r"(?![A-Za-z0-9_])", text) is not None


def _same(a, b):
    try:
        return type(a) is type(b) and a == b
    except Exception:
        return False


def dump(trace, indent=0, out=None):
    """Human-readable rendering of a structured trace (debugging / replay files)."""
    out = out if out is not None else []
    for e in trace:
        out.append("  " * indent + repr(e))
        if isinstance(e, Loop):
            for i, (tr, ex) in enumerate(e.alts):
                out.append("  " * (indent + 1) + f"alt {i} exit={ex[0] if ex else 'fall'}")
                dump(tr, indent + 2, out)
    return out
