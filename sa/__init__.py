"""Static-analysis verification of pDESy's 20 semantic properties (stdlib only; see DESIGN.md)."""
