"""AST normalisation used before *table extraction* from code whose shape is the specification (the JSON reader/writer):
behaviour-preserving macro expansion, so that a refactored spelling yields the same tables.

  * a call of a nested single-expression helper (`def first(x): return [..][0]`, or a lambda bound once) is replaced by the
    helper's return expression with the arguments substituted;
  * a call through a local alias of a bound method (`get = self.workflow.get_task_list` ... `get(ID=i)`) is replaced by the call
    of the method itself;
  * `f"{x}"` is written `str(x)`;
  * `list(map(F, X))` / `list(filter(lambda e: C, X))` are written as the comprehension they abbreviate;
  * `for name in ("a", "b"): ... getattr(o, name) ... setattr(o, name, v)` is unrolled into the statements for `o.a` and `o.b`
    (also when the literal table is named first, and when its rows are tuples unpacked by the loop target).

Line numbers of the original nodes are kept, so reports still point into the source."""
import ast
import copy


def _single_return(fn):
    """The expression a helper returns: `return <expr>`, possibly after plain local assignments (each name bound once, not a
    parameter), which are substituted into it."""
    body = [s for s in fn.body if not (isinstance(s, ast.Expr) and isinstance(s.value, ast.Constant))]
    if len(body) == 1 and isinstance(body[0], ast.Return) and body[0].value is not None:
        return body[0].value
    if len(body) > 1 and isinstance(body[-1], ast.Return) and body[-1].value is not None \
            and all(isinstance(b, ast.Assign) and len(b.targets) == 1 and isinstance(b.targets[0], ast.Name) for b in body[:-1]):
        params = {a.arg for a in fn.args.args + fn.args.kwonlyargs}
        names = [b.targets[0].id for b in body[:-1]]
        if len(set(names)) != len(names) or set(names) & params:
            return None
        env = {}
        for b in body[:-1]:
            v = _Subst(env).visit(copy.deepcopy(b.value)) if env else copy.deepcopy(b.value)
            if any(isinstance(x, (ast.Call, ast.Yield, ast.Await, ast.NamedExpr)) for x in ast.walk(v)):
                return None   # (a call must not be duplicated or moved)
            env[b.targets[0].id] = v
        return _Subst(env).visit(copy.deepcopy(body[-1].value))
    return None


class _Subst(ast.NodeTransformer):
    def __init__(self, mapping):
        self.mapping = mapping

    def visit_Name(self, n):
        if isinstance(n.ctx, ast.Load) and n.id in self.mapping:
            return copy.deepcopy(self.mapping[n.id])
        return n


def _bound_names(expr):
    out = set()
    for c in ast.walk(expr):
        if isinstance(c, ast.comprehension):
            out |= {x.id for x in ast.walk(c.target) if isinstance(x, ast.Name)}
        elif isinstance(c, ast.Lambda):
            out |= {a.arg for a in c.args.args}
    return out


_ORIG = {}
_NEXT = [0]


def original(n):
    """The node of the source tree a normalised node was copied from (None for synthesised nodes)."""
    return _ORIG.get(getattr(n, "_oid", None))


def normalise_function(node, methods=None, module=None):
    """`methods`: name -> FunctionDef of the other methods of the same class; a call `self.<m>(...)` of a one-expression method
    is expanded like a nested helper.  `module`: the ast.Module the function lives in; its one-expression functions and literal
    tables are expanded like local ones."""
    for n in ast.walk(node):
        if not hasattr(n, "_oid"):
            _NEXT[0] += 1
            n._oid = _NEXT[0]      # an int survives deepcopy by value; the table maps it back to the source node
            _ORIG[n._oid] = n
    fn = copy.deepcopy(node)
    stores = {}
    for n in ast.walk(fn):
        if isinstance(n, ast.Name) and isinstance(n.ctx, ast.Store):
            stores[n.id] = stores.get(n.id, 0) + 1
        elif isinstance(n, ast.arg):
            stores[n.arg] = stores.get(n.arg, 0) + 2
    helpers, aliases, tables = {}, {}, {}
    mod_funcs = {}
    if module is not None:
        for n in module.body:
            if isinstance(n, ast.FunctionDef) and stores.get(n.name, 0) == 0:
                r = _single_return(n)
                if r is not None and not n.args.vararg and not n.args.kwarg and not (_bound_names(r) & {a.arg for a in n.args.args}):
                    mod_funcs[n.name] = (n.args, copy.deepcopy(r))
            elif isinstance(n, ast.Assign) and len(n.targets) == 1 and isinstance(n.targets[0], ast.Name) and isinstance(n.value, (ast.Tuple, ast.List)) \
                    and stores.get(n.targets[0].id, 0) == 0:
                tables[n.targets[0].id] = copy.deepcopy(n.value)
        helpers.update(mod_funcs)
    for n in ast.walk(fn):
        if isinstance(n, ast.FunctionDef) and n is not fn:
            r = _single_return(n)
            if r is not None and not n.args.vararg and not n.args.kwarg and not (_bound_names(r) & {a.arg for a in n.args.args}):
                helpers[n.name] = (n.args, r)
        elif isinstance(n, ast.Assign) and len(n.targets) == 1 and isinstance(n.targets[0], ast.Name) and stores.get(n.targets[0].id) == 1:
            if isinstance(n.value, ast.Lambda) and not n.value.args.vararg and not n.value.args.kwarg:
                helpers[n.targets[0].id] = (n.value.args, n.value.body)
            elif isinstance(n.value, ast.Attribute):
                aliases[n.targets[0].id] = n.value
            elif isinstance(n.value, ast.Name) and n.value.id in mod_funcs:
                helpers[n.targets[0].id] = mod_funcs[n.value.id]   # local alias of a module-level one-expression function
            elif isinstance(n.value, (ast.Tuple, ast.List)):
                tables[n.targets[0].id] = n.value   # a literal table named first

    stmt_helpers = {}
    for n in ast.walk(fn):
        if isinstance(n, ast.FunctionDef) and n is not fn and n.name not in helpers and not n.args.vararg and not n.args.kwarg and not n.args.kwonlyargs \
                and not any(isinstance(x, (ast.Return, ast.Yield, ast.YieldFrom)) and getattr(x, "value", None) is not None for x in ast.walk(n)) \
                and not any(isinstance(x, (ast.Nonlocal, ast.Global)) for x in ast.walk(n)):
            stmt_helpers[n.name] = n

    def _propagate(stmts, env=None):
        """Straight-line forward substitution of plain local assignments; `if <constant>:` is replaced by the branch taken (its
        statements continue the same straight line)."""
        env = dict(env or {})
        out = []
        work = list(stmts)
        while work:
            st0 = work.pop(0)
            st0 = _Subst(env).visit(st0) if env else st0
            if isinstance(st0, ast.If):
                t = st0.test
                neg = False
                while isinstance(t, ast.UnaryOp) and isinstance(t.op, ast.Not):
                    neg, t = not neg, t.operand
                if isinstance(t, ast.Constant):
                    taken = st0.body if bool(t.value) != neg else st0.orelse
                    work = list(taken) + work
                    continue
            if isinstance(st0, ast.Assign) and len(st0.targets) == 1 and isinstance(st0.targets[0], ast.Name):
                env[st0.targets[0].id] = st0.value
                continue   # the value travels to its uses
            for x in ast.walk(st0):
                if isinstance(x, ast.Name) and isinstance(x.ctx, ast.Store):
                    env.pop(x.id, None)
            out.append(st0)
        return out

    class Expand(ast.NodeTransformer):
        depth = 0

        def visit_Expr(self, e):
            # `helper(a, b)` as a statement, helper a nested def made of statements: its body with the arguments written in
            c = e.value
            if isinstance(c, ast.Call) and isinstance(c.func, ast.Name) and c.func.id in stmt_helpers and self.depth < 4 and not c.keywords \
                    and not any(isinstance(a, ast.Starred) for a in c.args):
                h = stmt_helpers[c.func.id]
                params = [a.arg for a in h.args.args]
                if len(params) == len(c.args) and all(isinstance(a, (ast.Name, ast.Attribute, ast.Constant)) for a in c.args):
                    m = dict(zip(params, c.args))
                    body = [b for b in h.body if not (isinstance(b, ast.Expr) and isinstance(b.value, ast.Constant))]
                    self.depth += 1
                    try:
                        outb = []
                        for b in body:
                            nb = _Subst(m).visit(copy.deepcopy(b))
                            res = self.visit(nb)
                            outb.extend(res if isinstance(res, list) else [res])
                    finally:
                        self.depth -= 1
                    return outb
            return self.generic_visit(e)

        def visit_Call(self, c):
            c = self.generic_visit(c)
            f = c.func
            # list(map(F, X)) == [F(e) for e in X];  list(filter(lambda e: C, X)) == [e for e in X if C]
            if isinstance(f, ast.Name) and f.id == "list" and len(c.args) == 1 and not c.keywords and isinstance(c.args[0], ast.Call) \
                    and isinstance(c.args[0].func, ast.Name) and c.args[0].func.id in ("map", "filter") and len(c.args[0].args) == 2 and not c.args[0].keywords:
                kind, (fn_, xs) = c.args[0].func.id, c.args[0].args
                var = elt = cond = None
                if isinstance(fn_, ast.Lambda) and len(fn_.args.args) == 1 and not fn_.args.vararg and not fn_.args.kwarg and not fn_.args.defaults:
                    var = fn_.args.args[0].arg
                    elt, cond = (fn_.body, None) if kind == "map" else (ast.Name(id=var, ctx=ast.Load()), fn_.body)
                elif isinstance(fn_, (ast.Name, ast.Attribute)):
                    var = "_e%d" % getattr(c, "lineno", 0)
                    app = ast.Call(func=fn_, args=[ast.Name(id=var, ctx=ast.Load())], keywords=[])
                    elt, cond = (app, None) if kind == "map" else (ast.Name(id=var, ctx=ast.Load()), app)
                if var is not None:
                    comp = ast.ListComp(elt=elt, generators=[ast.comprehension(target=ast.Name(id=var, ctx=ast.Store()), iter=xs, ifs=[cond] if cond is not None else [], is_async=0)])
                    ast.copy_location(comp, c)
                    for x in ast.walk(comp):
                        if not hasattr(x, "lineno"):
                            ast.copy_location(x, c)
                    return comp
            if isinstance(f, ast.Name) and f.id in helpers and self.depth < 6 and not any(isinstance(a, ast.Starred) for a in c.args) \
                    and all(k.arg for k in c.keywords):
                args, ret = helpers[f.id]
                params = [a.arg for a in args.args]
                m = {}
                for p, a in zip(params, c.args):
                    m[p] = a
                for k in c.keywords:
                    if k.arg in params:
                        m[k.arg] = k.value
                for p, d in zip(params[len(params) - len(args.defaults):], args.defaults):
                    m.setdefault(p, d)
                if set(params) <= set(m):
                    new = _Subst(m).visit(copy.deepcopy(ret))
                    ast.copy_location(new, c)
                    for x in ast.walk(new):
                        if not hasattr(x, "lineno"):
                            ast.copy_location(x, c)
                    self.depth += 1
                    try:
                        return self.visit(new)
                    finally:
                        self.depth -= 1
            # f(a=1, **{"b": x, "c": y}) == f(a=1, b=x, c=y) == f(a=1, **dict(b=x, c=y))
            def lit(v):
                if isinstance(v, ast.Dict) and v.keys and all(isinstance(q, ast.Constant) and isinstance(q.value, str) for q in v.keys):
                    return [(q.value, x) for q, x in zip(v.keys, v.values)]
                if isinstance(v, ast.Call) and isinstance(v.func, ast.Name) and v.func.id == "dict" and not v.args and v.keywords and all(q.arg for q in v.keywords):
                    return [(q.arg, q.value) for q in v.keywords]
                return None
            if any(k.arg is None and lit(k.value) for k in c.keywords):
                kws = []
                for k in c.keywords:
                    if k.arg is None and lit(k.value):
                        for q, v in lit(k.value):
                            kws.append(ast.copy_location(ast.keyword(arg=q, value=v), v))
                    else:
                        kws.append(k)
                if len({k.arg for k in kws if k.arg}) == len([k for k in kws if k.arg]):
                    c.keywords = kws
            if isinstance(f, ast.Name) and f.id in aliases:
                c.func = f = ast.copy_location(copy.deepcopy(aliases[f.id]), f)
            if methods and isinstance(f, ast.Attribute) and isinstance(f.value, ast.Name) and f.value.id == "self" and f.attr in methods and self.depth < 6 \
                    and not any(isinstance(a, ast.Starred) for a in c.args) and all(k.arg for k in c.keywords):
                m = methods[f.attr]
                r = _single_return(m)
                params = [a.arg for a in m.args.args]
                static = any(isinstance(d, ast.Name) and d.id == "staticmethod" for d in m.decorator_list)
                if not static and params[:1] == ["self"]:
                    params = params[1:]
                if r is not None and not m.args.vararg and not m.args.kwarg and not (_bound_names(r) & set(params)):
                    mp = dict(zip(params, c.args))
                    for k in c.keywords:
                        if k.arg in params:
                            mp[k.arg] = k.value
                    for p, d in zip(params[len(params) - len(m.args.defaults):], m.args.defaults):
                        mp.setdefault(p, d)
                    if set(params) <= set(mp):
                        new = _Subst(mp).visit(copy.deepcopy(r))
                        ast.copy_location(new, c)
                        for x in ast.walk(new):
                            if not hasattr(x, "lineno"):
                                ast.copy_location(x, c)
                        self.depth += 1
                        try:
                            return self.visit(new)
                        finally:
                            self.depth -= 1
            return c

        def visit_JoinedStr(self, js):
            # f"{x}" == str(x)   (one replacement field, no conversion, no format spec)
            js = self.generic_visit(js)
            if len(js.values) == 1 and isinstance(js.values[0], ast.FormattedValue) and js.values[0].conversion == -1 and js.values[0].format_spec is None:
                new = ast.Call(func=ast.Name(id="str", ctx=ast.Load()), args=[js.values[0].value], keywords=[])
                ast.copy_location(new, js)
                ast.copy_location(new.func, js)
                return new
            return js

        def visit_DictComp(self, dc):
            # {k: f(k) for k in ("a", "b")} over a literal table == the dict literal with one entry per row (rows may be tuples that
            # the target unpacks)
            g = dc.generators[0] if len(dc.generators) == 1 else None
            names = None
            if g is not None and not g.ifs:
                names = [g.target.id] if isinstance(g.target, ast.Name) else \
                    [t.id for t in g.target.elts] if isinstance(g.target, ast.Tuple) and all(isinstance(t, ast.Name) for t in g.target.elts) else None
            if names:
                it = g.iter
                if isinstance(it, ast.Name) and it.id in tables:
                    it = tables[it.id]

                def simple(x):
                    if isinstance(x, ast.UnaryOp) and isinstance(x.op, (ast.USub, ast.UAdd)):
                        x = x.operand   # a negative literal
                    while isinstance(x, ast.Attribute):
                        x = x.value
                    return isinstance(x, (ast.Constant, ast.Name))
                rows = None
                if isinstance(it, (ast.Tuple, ast.List)) and it.elts:
                    if isinstance(g.target, ast.Name):
                        rows = [[x] for x in it.elts]
                    elif all(isinstance(x, (ast.Tuple, ast.List)) and len(x.elts) == len(names) for x in it.elts):
                        rows = [list(x.elts) for x in it.elts]
                if rows and all(simple(x) for r in rows for x in r):
                    keys, vals = [], []
                    for r in rows:
                        m = dict(zip(names, r))
                        keys.append(self.visit(_Attr().visit(_Subst(m).visit(copy.deepcopy(dc.key)))))
                        vals.append(self.visit(_Attr().visit(_Subst(m).visit(copy.deepcopy(dc.value)))))
                    if all(isinstance(k, ast.Constant) for k in keys):
                        new = ast.copy_location(ast.Dict(keys=keys, values=vals), dc)
                        for x in ast.walk(new):
                            if not hasattr(x, "lineno"):
                                ast.copy_location(x, dc)
                        return new
            return self.generic_visit(dc)

        def visit_For(self, lp):
            it = lp.iter
            if isinstance(it, ast.Name) and it.id in tables:
                it = tables[it.id]
            names = [lp.target.id] if isinstance(lp.target, ast.Name) else \
                [t.id for t in lp.target.elts] if isinstance(lp.target, ast.Tuple) and all(isinstance(t, ast.Name) for t in lp.target.elts) else None

            def simple(x):
                if isinstance(x, ast.UnaryOp) and isinstance(x.op, (ast.USub, ast.UAdd)):
                    x = x.operand   # a negative literal
                while isinstance(x, ast.Attribute):
                    x = x.value
                return isinstance(x, (ast.Constant, ast.Name))

            rows = None
            if names and isinstance(it, (ast.Tuple, ast.List)) and it.elts and not lp.orelse:
                if isinstance(lp.target, ast.Name):
                    rows = [[x] for x in it.elts]
                elif all(isinstance(x, (ast.Tuple, ast.List)) and len(x.elts) == len(names) for x in it.elts):
                    rows = [list(x.elts) for x in it.elts]
            if rows and all(simple(x) for r in rows for x in r) \
                    and any(isinstance(x, ast.Constant) and isinstance(x.value, str) and x.value.isidentifier() for r in rows for x in r) \
                    and not any(isinstance(n, (ast.Break, ast.Continue)) for b in lp.body for n in ast.walk(b)) \
                    and not any(isinstance(n, ast.Name) and isinstance(n.ctx, ast.Store) and n.id in names for b in lp.body for n in ast.walk(b)):
                out = []
                for r in rows:
                    blk = []
                    for b in lp.body:
                        nb = _Subst(dict(zip(names, r))).visit(copy.deepcopy(b))
                        nb = _Attr().visit(nb)
                        res = self.visit(nb)
                        blk.extend(res if isinstance(res, list) else [res])
                    blk = _propagate(blk)
                    out.extend(_Attr().visit(b2) for b2 in blk)   # (setattr/getattr whose name became a constant only now)
                return out
            return self.generic_visit(lp)

    class _Attr(ast.NodeTransformer):
        def visit_Call(self, c):
            c = self.generic_visit(c)
            if isinstance(c.func, ast.Name) and c.func.id == "getattr" and len(c.args) == 2 and isinstance(c.args[1], ast.Constant) and isinstance(c.args[1].value, str):
                return ast.copy_location(ast.Attribute(value=c.args[0], attr=c.args[1].value, ctx=ast.Load()), c)
            return c

        def visit_Expr(self, e):
            e = self.generic_visit(e)
            c = e.value
            if isinstance(c, ast.Call) and isinstance(c.func, ast.Name) and c.func.id == "setattr" and len(c.args) == 3 \
                    and isinstance(c.args[1], ast.Constant) and isinstance(c.args[1].value, str):
                tgt = ast.copy_location(ast.Attribute(value=c.args[0], attr=c.args[1].value, ctx=ast.Store()), c)
                return ast.copy_location(ast.Assign(targets=[tgt], value=c.args[2], type_comment=None), e)
            return e

    # `x.a if (x := self.p) is not None else None`: a walrus that only names a plain attribute chain inside one statement
    loads = {}
    for n in ast.walk(fn):
        if isinstance(n, ast.Name) and isinstance(n.ctx, ast.Load):
            loads[n.id] = loads.get(n.id, 0) + 1
    for stmt in [n for n in ast.walk(fn) if isinstance(n, ast.stmt) and not isinstance(n, (ast.FunctionDef, ast.For, ast.While, ast.If, ast.With, ast.Try))]:
        for ne in [n for n in ast.walk(stmt) if isinstance(n, ast.NamedExpr) and isinstance(n.target, ast.Name)]:
            v = ne.value
            base = v
            while isinstance(base, ast.Attribute):
                base = base.value
            name = ne.target.id
            inside = sum(1 for n in ast.walk(stmt) if isinstance(n, ast.Name) and isinstance(n.ctx, ast.Load) and n.id == name)
            if isinstance(base, ast.Name) and stores.get(name) == 1 and inside == loads.get(name, 0):
                class W(ast.NodeTransformer):
                    def visit_NamedExpr(self, n):
                        return copy.deepcopy(v) if n is ne else self.generic_visit(n)

                    def visit_Name(self, n):
                        return ast.copy_location(copy.deepcopy(v), n) if isinstance(n.ctx, ast.Load) and n.id == name else n
                W().visit(stmt)
    fn = Expand().visit(fn)
    # a local that only names an attribute chain (`parent = self.parent_team`, bound once, the attribute not assigned in this
    # function): its uses are the chain itself
    assigned_chains = {ast.unparse(t) for n in ast.walk(fn) if isinstance(n, (ast.Assign, ast.AugAssign, ast.AnnAssign))
                       for t in (n.targets if isinstance(n, ast.Assign) else [n.target]) for t in ast.walk(t) if isinstance(t, ast.Attribute)}
    pure = {k: v for k, v in aliases.items() if ast.unparse(v) not in assigned_chains and not any(isinstance(x, (ast.Call, ast.Subscript)) for x in ast.walk(v))}
    if pure:
        class A(ast.NodeTransformer):
            def visit_Name(self, n):
                if isinstance(n.ctx, ast.Load) and n.id in pure:
                    return ast.copy_location(copy.deepcopy(pure[n.id]), n)
                return n
        fn = A().visit(fn)
    # copy propagation inside a block:  x = <expr> ; <target> = x   ->   <target> = <expr>
    for blk in ast.walk(fn):
        for field in ("body", "orelse", "finalbody"):
            stmts = getattr(blk, field, None)
            if not isinstance(stmts, list):
                continue
            for a, b in zip(stmts, stmts[1:]):
                if isinstance(a, ast.Assign) and len(a.targets) == 1 and isinstance(a.targets[0], ast.Name) and isinstance(b, ast.Assign) \
                        and isinstance(b.value, ast.Name) and b.value.id == a.targets[0].id:
                    b.value = copy.deepcopy(a.value)
    ast.fix_missing_locations(fn)
    return fn
