"""CLI: ./check <Cxx> [--tier quick|thorough] [--replay path]"""
import argparse
import importlib
import json
import os
import sys
import traceback

from .errors import AnalysisError


def build_ctx(prop, tier, seed):
    from .loader import get_repo
    from .types import TypeTable
    from .effects import Effects
    from .report import Ctx
    repo = get_repo()
    types = TypeTable(repo)
    eff = Effects(repo, types)
    return Ctx(prop, tier, seed, repo, types, eff)


def main(argv=None):
    ap = argparse.ArgumentParser()
    ap.add_argument("prop")
    ap.add_argument("--tier", default=os.environ.get("VERIF_TIER", "quick"), choices=["quick", "thorough"])
    ap.add_argument("--replay", default=None)
    a = ap.parse_args(argv)
    prop = a.prop.upper()
    try:
        seed = int(os.environ.get("VERIF_SEED", "0"))
    except ValueError:
        seed = 0
    try:
        mod = importlib.import_module(f"sa.rules.{prop}")
    except ModuleNotFoundError:
        print(f"ANALYSIS-ERROR property={prop} no such check")
        return 2
    ctx = None
    try:
        ctx = build_ctx(prop, a.tier, seed)
        if ctx.eff.stats["calls"] == 0:
            raise AnalysisError("no call sites parsed")
        if a.replay:
            return replay(mod, ctx, a.replay)
        from .guards import soundness_guards, hidden_state_rule, property_roots, identity_rule
        soundness_guards(ctx)
        mod.run(ctx)
        roots, what = property_roots(ctx, prop)
        hidden_state_rule(ctx, "R0.1", roots, what, prop=prop)
        identity_rule(ctx, "R0.2", roots, what)
        if a.tier == "thorough" and os.environ.get("VERIF_SELFTEST", "1") != "0" and ctx.repo.root == "/repo":
            ctx.informational["selftest"] = run_selftest(prop)
        from .report import finish
        cmd = f"./check {prop} --tier {a.tier}"
        ex = getattr(mod, "EXHAUSTIVE", False)
        return finish(ctx, mod.CLAIM, mod.EXPLANATION, list(getattr(mod, "ASSUMPTIONS", [])), TRUSTED_BASE, cmd,
                      exhaustive=(ex is True) or (ex == "thorough" and a.tier == "thorough"))
    except AnalysisError as e:
        # A rule that could not be evaluated gives no verdict -- but a violation another rule has already established stands on
        # its own: it is reported (exit 1), with the incomplete part named.  Without such a violation the run is exit 2.
        if ctx is not None and not a.replay:
            from .report import finish, load_known
            known = load_known()[0].get(prop, {})
            if any(f.key not in known for f in ctx.findings):
                print(f"NOTE: analysis incomplete, rules after this point were not evaluated: {e}")
                ctx._cur = None
                ctx.note(f"analysis incomplete: {e}")
                return finish(ctx, mod.CLAIM, mod.EXPLANATION, list(getattr(mod, "ASSUMPTIONS", [])), TRUSTED_BASE, f"./check {prop} --tier {a.tier}", exhaustive=False)
        print(f"ANALYSIS-ERROR property={prop} {e}")
        return 2
    except Exception as e:  # a crash of the analyser is never a verdict
        traceback.print_exc()
        print(f"ANALYSIS-ERROR property={prop} internal error: {type(e).__name__}: {e}")
        return 2


def run_selftest(prop):
    """Thorough tier only, informational: seeded faults / benign variants of this property against scratch copies.
    Never changes the exit code -- a missed seeded fault is a weakness of the checker, not a violation of pDESy."""
    import json as _json
    import subprocess
    import tempfile
    out = tempfile.mktemp(prefix="pdesy-sa-selftest-", suffix=".json")
    try:
        r = subprocess.run([sys.executable, "-B", "-m", "sa.selftest", "--only", prop, "--json", out], capture_output=True, text=True,
                           cwd=os.path.dirname(os.path.dirname(os.path.abspath(__file__))), timeout=900)
        data = _json.load(open(out))
        muts = data.get("mutants", [])
        bens = data.get("benign", [])
        c = {}
        for m in muts:
            c[m["status"]] = c.get(m["status"], 0) + 1
        return {"seeded_faults": len(muts), "by_status": c, "not_caught": [m["id"] for m in muts if m["status"] not in ("caught", "caught-other-rule", "not-applicable")],
                "benign_variants": len(bens), "false_alarms": [b["id"] for b in bens if b["status"] == "FALSE-ALARM"]}
    except Exception as e:  # informational only
        return {"error": f"{type(e).__name__}: {e}"}
    finally:
        try:
            os.remove(out)
        except OSError:
            pass


TRUSTED_BASE = [
    "CPython 3.12 ast module (parse fidelity)",
    "the analyser under /verif/sa (exercised by sa/selftest.py: seeded faults and benign variants)",
    "class-docstring field types of pDESy (cross-checked against constructor defaults)",
    "spec tables in sa/spec.py transcribing the property statements",
]


def replay(mod, ctx, path):
    """Re-evaluate the property on the current tree and show whether the recorded construct still fires."""
    rec = json.load(open(path))
    mod.run(ctx)
    hits = [f for f in ctx.findings if f.key == rec["key"]]
    print(f"replay {rec['key']} ({rec['location']}): {rec['message']}")
    if hits:
        for f in hits:
            rel, _, line = f.loc.partition(":")
            print(f"  still reported at {f.loc}: {f.message}")
            try:
                print("  | " + ctx.repo.excerpt(rel, int(line), 3).replace("\n", "\n  | "))
            except ValueError:
                pass
        print(f"VIOLATION property={ctx.prop} replay={path}")
        return 1
    print("  not reported on the current tree")
    return 0


if __name__ == "__main__":
    sys.exit(main())
