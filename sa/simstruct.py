"""Structure of one iteration of simulate()'s per-step loop: paths and phase events.

The loop body is interpreted once from an arbitrary state.  Private helpers of BaseProject that
contain no loop (today: the wrappers around update / perform / record) are inlined so that the
phases appear as calls of public methods of workflow / product / organization; everything else
stays an opaque call event.  Phases are recognised by the public method reached and, for
allocation, by its effect (the callee's closure appends to a task's allocated_worker_list).
"""
import ast

from .common import *
from .errors import AnalysisError
from .interp import NONE
from . import spec

M_MAX = 100  # concrete stand-in for max_time so that interval facts on `time` are decidable


def _has_loop(func):
    return any(isinstance(n, (ast.For, ast.While)) for n in ast.walk(func.node))


def _closure_effects(ctx, qualnames):
    out = []
    for q in qualnames:
        cls, _, name = q.partition(".")
        f = ctx.repo.lookup_method(cls, name) if name else ctx.repo.functions.get(cls)
        if f is None:
            continue
        for g in ctx.eff.reachable([f], precise=True):
            out.extend(ctx.eff.of(g))
    return out


def classify(ctx, ev):
    """Phase name of a trace event of the loop body, or None."""
    if isinstance(ev, Store) and ev.attr == "time" and (ev.cls is None or ev.cls == PROJECT):
        return "time"
    if isinstance(ev, Store) and ev.attr == "status":
        return "status"
    if isinstance(ev, Mut) and ev.attr == "cost_list" and ev.cls == PROJECT and ev.op == "append":
        return "project-cost"
    if not isinstance(ev, Call) or not ev.callees or ev.inlined:
        return None   # (an inlined wrapper is not a phase: its body follows in the trace)
    q = ev.callees[0]
    if q == f"{WORKFLOW}.check_state":
        a = ev.args.get(1, ev.args.get("state"))
        if isinstance(a, EnumSet) and a.single():
            return {"FINISHED": "finish-check", "READY": "ready-check", "WORKING": "working-check"}.get(a.single())
        return "check-state-?"
    table = {
        f"{PRODUCT}.check_state": "product-state",
        f"{PRODUCT}.check_removing_placed_workplace": "removal",
        f"{WORKFLOW}.update_PERT_data": "pert",
        f"{ORG}.add_labor_cost": "cost",
        f"{WORKFLOW}.perform": "perform",
        f"{WORKFLOW}.record": "record-workflow",
        f"{ORG}.record": "record-organization",
        f"{PRODUCT}.record": "record-product",
        f"{ORG}.check_update_state_from_absence_time_list": "resource-state",
        f"{ORG}.set_absence_state_to_all_workers_facilities": "absence-state",
    }
    if q in table:
        return table[q]
    effs = _closure_effects(ctx, [q])
    if any(e.kind == "mut" and e.op == "append" and e.attr == "allocated_worker_list" for e in effs):
        return "allocate"
    return None


STEP_PHASES = {"allocate", "cost", "perform", "record-workflow", "record-organization", "record-product",
               "resource-state", "absence-state", "project-cost"}

_CACHE = {}


def loop_paths(ctx, heap=None, collections=None, havoc_on_call=True, bind=None, key=None, inline=None, max_depth=2, keep_heap=()):
    """Paths through one iteration: list of dicts {state, exit, trace, phases:[(phase, event)]}."""
    ck = (id(ctx.repo), key)
    if key is not None and ck in _CACHE:
        return _CACHE[ck]
    f, loop = sim_loop(ctx)

    from .alloc import alloc_region
    allocator = {id(g.node) for g in alloc_region(ctx)}

    def pol(call, callee, depth):
        # private pieces of the step (update / perform / record / pay wrappers, whatever they are called) are followed; the
        # allocation phase stays one opaque call (it has its own analysis)
        if callee.cls is None and getattr(callee, "parent", None) is None and is_private_helper(callee) and id(callee.node) not in allocator:
            return True   # a private module-level helper (a lookup table's accessor ...)
        return callee.cls == PROJECT and callee.name.startswith("_") and not callee.name.endswith("__") and id(callee.node) not in allocator

    base_pol = pol
    if inline is not None:
        def pol(call, callee, depth):  # noqa: F811
            return base_pol(call, callee, depth) or inline(call, callee, depth)
    I = mk_interp(ctx, inline=pol, auto_helpers=False, collections=collections or {}, havoc_on_call=havoc_on_call, integral={"self.time"}, max_depth=max(max_depth, 3))
    st = State()
    st.env["self"] = Obj("self", PROJECT)
    ft = ctx.types.ftypes(f)
    for p in f.params:
        if p == "self":
            continue
        st.env[p] = I.value_for_type(p, ft.lookup(p, f.node))
    st.env["max_time"] = Poly.const(M_MAX)
    st.env["unit_time"] = Poly.sym("unit_time")
    st.env["task_performed_mode"] = Const("multi-workers")  # the only accepted mode (anything else raises before the loop)
    for k, v in (bind or {}).items():
        st.env[k] = v
    # Locals established before the loop (e.g. `mode`, a pre-computed set of absence steps): the prologue is interpreted
    # with the same bindings; everything it calls is opaque.  Only its local names are kept -- the heap is what the loop
    # body finds at an arbitrary iteration, i.e. unknown unless the rule seeds it.
    body = f.body()
    pre = body[: body.index(loop)] if loop in body else []
    starts = [st]
    if pre:
        pre_outs = [(s0, ex) for s0, ex in I.run_block(f, pre, st=st) if ex is None]
        if not pre_outs:
            raise AnalysisError("simulate() prologue has no normal path")
        # the prologue may branch on the options (e.g. on initialize_state_info): the loop body is analysed once per distinct
        # set of locals it can start with
        starts, seen = [], set()
        for s0, _ex in pre_outs:
            kept = {("self", a): s0.heap[("self", a)] for a in keep_heap if ("self", a) in s0.heap}
            key0 = tuple(sorted((k, repr(v)) for k, v in s0.env.items())) + tuple(sorted((k[1], repr(v)) for k, v in kept.items()))
            if key0 in seen:
                continue
            seen.add(key0)
            s_new = State()
            s_new.env = dict(s0.env)
            s_new.heap.update(kept)   # options the prologue stores on the project (asked for by the rule): what the loop finds there
            starts.append(s_new)
        if len(starts) > 8:
            raise AnalysisError(f"simulate() prologue has {len(starts)} distinct normal paths")
    res = []
    for st in starts:
        st.heap[("self", "time")] = Poly.sym("self.time")
        st.bounds["self.time"] = (0, None)
        body, post = step_stmts(ctx)
        outs = []
        for s1, ex in I.run_block(f, body, st=st, heap=heap):
            if ex is not None and ex[0] == "break":
                # the loop is left through its condition: what follows the loop (status handling) belongs to this exit
                for s2, ex2 in (I.run_block(f, post, st=s1) if post else [(s1, None)]):
                    outs.append((s2, ex2 if ex2 is not None else ("return", NONE)))
            else:
                outs.append((s1, ex))
        for s1, ex in outs:
            ph = []
            for ev in s1.trace:
                c = classify(ctx, ev)
                if c:
                    ph.append((c, ev))
            res.append({"state": s1, "exit": ex, "trace": s1.trace, "phases": ph, "interp": I})
    if key is not None:
        _CACHE[ck] = res
    return res


def working_of(path):
    """Value of the local `working` on this path: True / False / None."""
    st = path["state"]
    v = st.env.get("working")
    if isinstance(v, Const):
        return v.v
    if v is not None and id(v) in st.vknown and st.vknown[id(v)][0] is v:
        return st.vknown[id(v)][1]   # decided where the value was first tested (possibly inside a helper it was passed to)
    return None
