"""Dependency-gate accept tables, extracted by abstract interpretation of BaseWorkflow.check_state.

For each gate (READY, FINISHED) the workflow is abstracted to one gated task T plus one or two
predecessors whose (dependency kind, state) range over the full finite domains; the entry point
`check_state(time, <target>)` is interpreted (private helpers inlined) and the cell records
whether a store of <target> into T.state occurs on every / some / no path.  No idiom matching:
flag loops, `all(...)`, early `continue` etc. are all just executed abstractly.
"""
import ast
import itertools

from .common import *
from .errors import AnalysisError

_CACHE = {}


def gate_tables(ctx):
    """-> dict gate -> {'single': {(dep, st): 'must'|'may'|'no'}, 'pairs': {((d1,s1),(d2,s2)): ...},
                         'store_locs': [...], 'cells': n}"""
    key = (id(ctx.repo), ctx.thorough)
    if key in _CACHE:
        return _CACHE[key]
    repo = ctx.repo
    wf_check = repo.method(WORKFLOW, "check_state")
    deps = list(repo.enums[DEP].keys())
    states = list(repo.enums[TS].keys())
    out = {}
    for gate, pre_state in (("READY", "NONE"), ("FINISHED", "WORKING")):
        single, pairs, locs = {}, {}, set()
        cells = 0

        def run(preds):
            T = Obj("T", TASK)
            heap = {("T", "state"): E(TS, pre_state), ("T", "remaining_work_amount"): Poly.const(0),
                    ("T", "need_facility"): Const(False), ("T", "allocated_worker_list"): ListV([]),
                    ("T", "allocated_facility_list"): ListV([]), ("T", "output_task_list"): ListV([])}
            plist, colls = [], {"self.task_list": [T]}
            for i, (d, s) in enumerate(preds):
                P = Obj(f"P{i}", TASK)
                heap[(P.name, "state")] = E(TS, s)
                heap[(P.name, "remaining_work_amount")] = Poly.const(5)
                plist.append(ListV([P, E(DEP, d)], True, "list"))
                colls["self.task_list"].append(P)
            heap[("T", "input_task_list")] = ListV(plist)
            for i in range(len(preds)):
                heap[(f"P{i}", "input_task_list")] = ListV([])
            I = mk_interp(ctx, inline=lambda call, callee, depth: callee.cls == WORKFLOW, collections=colls, max_depth=3, unroll_while=4)
            outs = I.run_function(wf_check, bind={"state": E(TS, gate), "time": Poly.sym("t"), "__defaults__": True}, heap=heap)
            hit, total = 0, 0
            for st, ex in outs:
                if ex is not None and ex[0] == "raise":
                    continue
                total += 1
                ss = [e for e in stores_of(st.trace, attr="state") if isinstance(e.recv, Obj) and e.recv.name == "T"]
                good = [e for e in ss if isinstance(e.value, EnumSet) and e.value.single() == gate]
                for e in good:
                    locs.add((e.func.qualname, e.loc))
                if good:
                    hit += 1
            if total == 0:
                raise AnalysisError(f"gate {gate}: no normal path through check_state for predecessors {preds}")
            return "must" if hit == total else ("may" if hit else "no")

        base = run([])
        cells += 1
        for d in deps:
            for s in states:
                single[(d, s)] = run([(d, s)])
                cells += 1
        combos = list(itertools.product(deps, states))
        for a in combos:
            for b in combos:
                pairs[(a, b)] = run([a, b])
                cells += 1
        out[gate] = {"single": single, "pairs": pairs, "store_locs": sorted(locs), "cells": cells, "empty": base}
    _CACHE[key] = out
    return out


def accept_set(table, dep, mode="may"):
    ok = ("must", "may") if mode == "may" else ("must",)
    return {s for (d, s), v in table["single"].items() if d == dep and v in ok}
