"""Dependency-gate accept tables, extracted by abstract interpretation of BaseWorkflow.check_state.

For each gate (READY, FINISHED) the workflow is abstracted to one gated task T plus one or two
predecessors whose (dependency kind, state) range over the full finite domains; the entry point
`check_state(time, <target>)` is interpreted (private helpers inlined) and the cell records
whether a store of <target> into T.state occurs on every / some / no path.  No idiom matching:
flag loops, `all(...)`, early `continue` etc. are all just executed abstractly.
"""
import ast
import itertools

from .common import *
from .errors import AnalysisError

_CACHE = {}


def gate_tables(ctx):
    """-> dict gate -> {'single': {(dep, st): 'must'|'may'|'no'}, 'pairs': {((d1,s1),(d2,s2)): ...},
                         'store_locs': [...], 'cells': n}"""
    key = (id(ctx.repo), ctx.thorough)
    if key in _CACHE:
        return _CACHE[key]
    repo = ctx.repo
    wf_check = repo.method(WORKFLOW, "check_state")
    deps = list(repo.enums[DEP].keys())
    states = list(repo.enums[TS].keys())
    out = {}
    for gate, pre_state in (("READY", "NONE"), ("FINISHED", "WORKING")):
        single, pairs, locs = {}, {}, set()
        foreign = {}
        cells = 0

        def run(preds):
            T = Obj("T", TASK)
            heap = {("T", "state"): E(TS, pre_state), ("T", "remaining_work_amount"): Poly.const(0),
                    ("T", "need_facility"): Const(False), ("T", "allocated_worker_list"): ListV([]),
                    ("T", "allocated_facility_list"): ListV([]), ("T", "output_task_list"): ListV([])}
            plist, colls = [], {"self.task_list": [T]}
            for i, (d, s) in enumerate(preds):
                P = Obj(f"P{i}", TASK)
                heap[(P.name, "state")] = E(TS, s)
                # READY gate: any value -- the gate must not depend on how much work a predecessor has left (positive, zero, an
                # overshoot); FINISHED gate: a predecessor with work left (with none it would be a finish candidate of the same pass,
                # which is the closure table R6.4's business)
                heap[(P.name, "remaining_work_amount")] = Poly.sym(f"rem_P{i}") if gate == "READY" else Poly.const(5)
                plist.append(ListV([P, E(DEP, d)], True, "list"))
                colls["self.task_list"].append(P)
            heap[("T", "input_task_list")] = ListV(plist)
            for i in range(len(preds)):
                heap[(f"P{i}", "input_task_list")] = ListV([])
            I = mk_interp(ctx, inline=lambda call, callee, depth: callee.cls == WORKFLOW, collections=colls, max_depth=3, unroll_while=4)
            outs = I.run_function(wf_check, bind={"state": E(TS, gate), "time": Poly.sym("t"), "__defaults__": True}, heap=heap)
            hit, total = 0, 0
            for st, ex in outs:
                if ex is not None and ex[0] == "raise":
                    continue
                total += 1
                # every collection the gate iterates is part of the model (task_list, the task's input_task_list): a loop
                # the interpreter had to summarise runs over something else -- a copy or cache of the dependencies
                for e in flatten(st.trace):
                    if isinstance(e, Loop):
                        foreign.setdefault((e.func.qualname, e.loc), (e.iter_text, repr(e.coll)))
                ss = [e for e in stores_of(st.trace, attr="state") if isinstance(e.recv, Obj) and e.recv.name == "T"]
                good = [e for e in ss if isinstance(e.value, EnumSet) and e.value.single() == gate]
                for e in good:
                    locs.add((e.func.qualname, e.loc))
                if good:
                    hit += 1
            if total == 0:
                raise AnalysisError(f"gate {gate}: no normal path through check_state for predecessors {preds}")
            return "must" if hit == total else ("may" if hit else "no")

        base = run([])
        cells += 1
        for d in deps:
            for s in states:
                single[(d, s)] = run([(d, s)])
                cells += 1
        combos = list(itertools.product(deps, states))
        for a in combos:
            for b in combos:
                pairs[(a, b)] = run([a, b])
                cells += 1
        out[gate] = {"single": single, "pairs": pairs, "store_locs": sorted(locs), "cells": cells, "empty": base, "foreign": foreign}
    _CACHE[key] = out
    return out


def accept_set(table, dep, mode="may"):
    ok = ("must", "may") if mode == "may" else ("must",)
    return {s for (d, s), v in table["single"].items() if d == dep and v in ok}


def finish_closure(ctx, max_chain=3):
    """Closure of the finish check over small dependency chains: tasks T0 <- T1 <- ... (each depends on the next
    by FF or SF), all WORKING with zero remaining work, presented in every order of task_list.  One call of
    check_state(FINISHED) must leave all of them FINISHED (the first finisher enables the next one).
    -> list of (order, kinds, final_states, ok)."""
    import itertools as it
    wf_check = ctx.repo.method(WORKFLOW, "check_state")
    out = []
    for n in range(2, max_chain + 1):
        for kinds in it.product(("FF", "SF"), repeat=n - 1):
            for order in it.permutations(range(n)):
                tasks = [Obj(f"T{i}", TASK) for i in range(n)]
                heap = {}
                for i, t in enumerate(tasks):
                    heap[(t.name, "state")] = E(TS, "WORKING")
                    heap[(t.name, "remaining_work_amount")] = Poly.const(0)
                    heap[(t.name, "need_facility")] = Const(False)
                    heap[(t.name, "allocated_worker_list")] = ListV([])
                    heap[(t.name, "allocated_facility_list")] = ListV([])
                    # T_i depends on T_{i+1}
                    heap[(t.name, "input_task_list")] = ListV([ListV([tasks[i + 1], E(DEP, kinds[i])], True, "list")] if i + 1 < n else [])
                I = mk_interp(ctx, inline=lambda call, callee, depth: callee.cls == WORKFLOW,
                              collections={"self.task_list": [tasks[i] for i in order]}, max_depth=3, unroll_while=n + 2)
                outs = I.run_function(wf_check, bind={"state": E(TS, "FINISHED"), "time": Poly.sym("t"), "__defaults__": True}, heap=heap)
                for st, ex in outs:
                    finals = []
                    for t in tasks:
                        v = st.heap.get((t.name, "state"))
                        finals.append(v.single() if isinstance(v, EnumSet) else None)
                    out.append((order, kinds, finals, all(f == "FINISHED" for f in finals)))
    return out
