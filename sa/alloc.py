"""Analysis of the allocation phase: allocation sites with the facts that hold at each of them."""
import ast

from .common import *
from .errors import AnalysisError
from .interp import LocalSet

_CACHE = {}


def alloc_func(ctx):
    """The allocation phase: the function the step loop calls whose own code -- or a private helper of its class that it is split
    into -- appends to a task's allocated_worker_list."""
    key = ("alloc_func", id(ctx.repo))
    if key in _CACHE:
        return _CACHE[key]

    def appends(g):
        return any(e.kind == "mut" and e.attr == "allocated_worker_list" and e.op == "append" for e in ctx.eff.of(g))
    holders = [g for g in sim_reach(ctx) if appends(g)]
    if not holders:
        raise AnalysisError("anchor: no simulation-reachable function appends to allocated_worker_list")
    # the phase is the function the step loop itself calls: the outermost private function of the holder's class whose private
    # call closure contains a holder
    def closure(g):
        out, todo = [], [g]
        while todo:
            h = todo.pop()
            if any(h.node is x.node for x in out):
                continue
            out.append(h)
            for cs in ctx.eff.calls_of(h):
                for c in cs.callees:
                    if cs.resolved and c.cls == g.cls and c.name.startswith("_") and not c.name.endswith("__"):
                        todo.append(c)
        return out
    sf, loop = sim_loop(ctx)
    direct = []
    for cs in ctx.eff.calls_of(sf):
        if cs.resolved and any(cs.node is n for n in ast.walk(loop)):
            direct.extend(cs.callees)
    tops = []
    for g in direct:
        if any(any(h.node is x.node for x in closure(g)) for h in holders) and not any(g.node is t.node for t in tops):
            tops.append(g)
    if not tops:
        tops = holders
    # a wrapper around the phase (e.g. "refresh resources, then allocate") is not the phase: descend to the function that holds the
    # per-task loop -- as long as exactly one private callee still reaches every holder
    def has_task_loop(g):
        ft = ctx.types.ftypes(g)
        for n in ast.walk(g.node):
            if isinstance(n, ast.For):
                t = ft.type_of(n.iter)
                if t and t[0] in ("list", "set") and t[1] == ("obj", TASK):
                    return True
        return False
    if len(tops) == 1:
        cur, hops = tops[0], 0
        while not has_task_loop(cur) and hops < 4:
            hops += 1
            nxt = []
            for cs in ctx.eff.calls_of(cur):
                for c in cs.callees:
                    if cs.resolved and c.cls == cur.cls and c.name.startswith("_") and not c.name.endswith("__") and c.node is not cur.node \
                            and all(any(h.node is x.node for x in closure(c)) for h in holders) and not any(c.node is x.node for x in nxt):
                        nxt.append(c)
            if len(nxt) != 1:
                break
            cur = nxt[0]
        if has_task_loop(cur):
            tops = [cur]
    if len(tops) != 1:
        raise AnalysisError(f"anchor: expected exactly one allocation phase (function appending to allocated_worker_list), found {[g.qualname for g in tops]}")
    _CACHE[key] = tops[0]
    return tops[0]


def _is_predicate(callee):
    """Does every `return` of the function give a truth value (comparison, boolean operator, any()/all()/isinstance(), True/False)?"""
    nested = {id(n) for d in ast.walk(callee.node) if isinstance(d, (ast.FunctionDef, ast.Lambda)) and d is not callee.node for n in ast.walk(d)}
    rets = [r for r in ast.walk(callee.node) if isinstance(r, ast.Return) and id(r) not in nested]
    if not rets:
        return False

    def truthy(v):
        if v is None:
            return False
        if isinstance(v, (ast.Compare, ast.BoolOp)) or (isinstance(v, ast.UnaryOp) and isinstance(v.op, ast.Not)):
            return True
        if isinstance(v, ast.Constant) and isinstance(v.value, bool):
            return True
        if isinstance(v, ast.Call) and isinstance(v.func, ast.Name) and v.func.id in ("any", "all", "isinstance", "bool"):
            return True
        if isinstance(v, ast.IfExp):
            return truthy(v.body) and truthy(v.orelse)
        return False
    return all(truthy(r.value) for r in rets)


def helper_with_effects(ctx, f, callee):
    """A private helper of the allocator's class that is a *piece of the allocator*: it changes something, or it hands back what the
    allocator works on (the candidate lists).  Pure predicates are not pieces: their truth is tracked as a fact."""
    from .common import is_private_helper
    if callee.cls is None:
        # a private module-level helper (of the allocator's module or of a private module of the package): a piece when it is not a
        # predicate
        if not is_private_helper(callee):
            return False
    elif callee.cls != f.cls or not callee.name.startswith("_") or callee.name.endswith("__"):
        return False
    if any(e.kind in ("store", "mut", "del") for g in ctx.eff.reachable([callee], precise=True) for e in ctx.eff.of(g)):
        return True
    return not _is_predicate(callee)


def alloc_inline(ctx, extra=None):
    """Inline policy for interpreting the allocator on a small model: its effectful private helpers (+ what `extra` accepts)."""
    f = alloc_func(ctx)

    def pol(call, callee, depth):
        return helper_with_effects(ctx, f, callee) or (extra is not None and extra(call, callee, depth))
    return pol


def alloc_region(ctx):
    """The allocator and the private helpers it is split into (the functions whose AST the order-provenance rules read)."""
    f = alloc_func(ctx)
    out, todo = [], [f]
    while todo:
        g = todo.pop()
        if any(g.node is x.node for x in out):
            continue
        out.append(g)
        for cs in ctx.eff.calls_of(g):
            for c in cs.callees:
                if cs.resolved and helper_with_effects(ctx, f, c):
                    todo.append(c)
    return out


def permutation_sorters(ctx):
    """Module-level sort functions that return a sorted permutation of their first parameter for every rule member (R11.1)."""
    from .sorters import is_permutation_sorter, mode_param
    out = {}
    for name, f in ctx.repo.functions.items():
        if not name.startswith("sort_") or len(f.params) < 2 or mode_param(f) not in f.defaults:
            continue
        out[name] = is_permutation_sorter(ctx, name)
    return out


def alloc_trace(ctx):
    key = id(ctx.repo)
    if key in _CACHE:
        return _CACHE[key]
    f = alloc_func(ctx)
    sorters = permutation_sorters(ctx)

    def hook(I, call, st, fr):
        # a verified permutation sorter returns its first argument's elements (R11.1): keep the element facts
        if isinstance(call.func, ast.Name) and sorters.get(call.func.id) and call.args:
            return I.eval(call.args[0], st, fr)
        return None

    def pol(call, callee, depth):
        # private helpers of the allocator's class that *do* something (a block of the allocator extracted into a method) are
        # followed; pure predicates (the targeting helpers) stay opaque: their truth is tracked as a fact
        return helper_with_effects(ctx, f, callee)

    I = mk_interp(ctx, inline=pol, auto_helpers=False, call_hook=hook, max_paths=6000)
    outs = I.run_function(f, bind={"__defaults__": True})
    normal = [st for st, ex in outs if ex is None or ex[0] == "return" and not any(isinstance(e, Loop) and any(x is not None and x[0] == "return" for _t, x in e.alts) for e in st.trace)]
    if not normal:
        raise AnalysisError("allocation function has no normal path")
    I.all_traces = [(st.trace, ex) for st, ex in outs]
    allocating = [st for st in normal if any(isinstance(e, Mut) and e.attr == "allocated_worker_list" and e.op == "append" for e in flatten(st.trace))]
    res = (f, (allocating or normal)[0].trace, I)
    _CACHE[key] = res
    return res


class Site:
    def __init__(self, alt_trace, ctx_loops, ctx_events, exit_):
        self.trace = alt_trace
        self.loops = ctx_loops      # enclosing Loop events, outermost first
        self.before = ctx_events    # events preceding this alt on the nesting path
        self.exit = exit_
        self.task = self.worker = self.facility = None
        self.ev = {}
        self.task_loop = self.facility_loop = self.worker_loop = None
        self.pick = self.worker_name = self.cand_name = None


def walk_alts(trace, loops=(), before=()):
    """Yield (alt_trace, enclosing loops, preceding events, exit) for every alternative at every depth."""
    pre = list(before)
    for ev in trace:
        if isinstance(ev, Loop):
            for tr, ex in ev.alts:
                yield (tr, loops + (ev,), tuple(pre), ex)
                yield from walk_alts(tr, loops + (ev,), tuple(pre))
        pre.append(ev)


def allocation_sites(ctx):
    f, trace, I = alloc_trace(ctx)
    sites = []
    for tr, loops, before, ex in walk_alts(trace):
        apps = [e for e in tr if isinstance(e, Mut) and e.op in ("append", "insert", "extend") and e.attr in ("allocated_worker_list", "allocated_facility_list", "assigned_task_list")]
        if not apps:
            continue
        s = Site(tr, loops, before, ex)
        for e in apps:
            if e.attr == "allocated_worker_list":
                s.task, s.worker = e.recv, (e.args[0] if e.args else None)
                s.ev["task<-worker"] = e
            elif e.attr == "allocated_facility_list":
                s.task, s.facility = e.recv, (e.args[0] if e.args else None)
                s.ev["task<-facility"] = e
            elif e.attr == "assigned_task_list" and e.cls == WORKER:
                s.ev["worker<-task"] = e
            elif e.attr == "assigned_task_list" and e.cls == FACILITY:
                s.ev["facility<-task"] = e
        _roles(f, s)
        sites.append(s)
    return f, sites


def _roles(f, s):
    """Which enclosing loop iterates the task / the facility / the worker of a site.  The worker may also be *picked*
    (`w = candidates[<const>]`) instead of being a loop variable: then `worker_loop` is None and `pick` describes it."""
    def loop_of(v):
        return next((lp for lp in s.loops if v is not None and lp.var == v), None)
    s.task_loop, s.facility_loop, s.worker_loop = loop_of(s.task), loop_of(s.facility), loop_of(s.worker)
    s.pick = None
    s.worker_name = s.cand_name = None
    s.cand_coll = s.worker_loop.coll if s.worker_loop is not None else None
    ew = s.ev.get("task<-worker")
    call = ew.node if ew is not None else None
    if isinstance(call, ast.Expr):
        call = call.value
    if isinstance(call, ast.Call) and call.args and isinstance(call.args[0], ast.Name):
        s.worker_name = call.args[0].id
    if s.worker_loop is not None:
        if isinstance(s.worker_loop.node.target, ast.Name):
            s.worker_name = s.worker_loop.node.target.id
        s.cand_name = s.worker_loop.node.iter.id if isinstance(s.worker_loop.node.iter, ast.Name) else None
    elif s.worker is not None:
        # picked by position: the interpreter logged where the element came from
        from .interp import Pick
        for e in list(s.before) + list(s.trace):
            if isinstance(e, Pick) and e.result == s.worker:
                sub = e.node
                s.pick = {"node": sub, "index": e.index, "text": ast.unparse(sub), "func": e.func, "coll": e.coll}
                s.cand_coll = e.coll
                s.cand_name = sub.value.id if isinstance(sub, ast.Subscript) and isinstance(sub.value, ast.Name) else None
