#!/venv/bin/python
"""tools/update_design.py -- regenerate the generated tables of DESIGN.md (seed table, rule inventory) in place."""
import re, subprocess
p = "/verif/DESIGN.md"
s = open(p).read()
for name, cmd in (("seed-table", "tools/seed_table.py"), ("rule-inventory", "tools/rule_inventory.py")):
    out = subprocess.run(["/venv/bin/python", "/verif/" + cmd], capture_output=True, text=True).stdout.rstrip("\n")
    a = s.index(f"<!-- BEGIN {name}")
    a = s.index("\n", a) + 1
    b = s.index(f"<!-- END {name} -->")
    s = s[:a] + out + "\n" + s[b:]
open(p, "w").write(s)
print("DESIGN.md tables regenerated")
