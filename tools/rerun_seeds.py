#!/venv/bin/python
"""tools/rerun_seeds.py [--all-checks] [seed-id ...] -- re-apply every stored seeded change (seeded/<id>/patch.diff) to a
scratch worktree of /repo and run the check of its own property (or all 20) against it.  A seed that is no longer caught
is reported.  /repo itself is never touched; the scratch worktree is removed at the end."""
import json, os, subprocess, sys, tempfile
from concurrent.futures import ThreadPoolExecutor
V = "/verif"
args = [a for a in sys.argv[1:] if not a.startswith("--")]
allchecks = "--all-checks" in sys.argv
seeds = sorted(d for d in os.listdir(f"{V}/seeded") if os.path.exists(f"{V}/seeded/{d}/patch.diff") and (not args or d in args))
props = [json.loads(l)["id"] for l in open(f"{V}/properties.jsonl")]


def sh(cmd, cwd=None, env=None):
    r = subprocess.run(cmd, shell=True, cwd=cwd, capture_output=True, text=True, env=dict(os.environ, **(env or {})))
    return r.returncode, r.stdout + r.stderr


def one(sid):
    meta = json.load(open(f"{V}/seeded/{sid}/meta.json"))
    prop = meta["property"]
    wt = tempfile.mkdtemp(prefix=f"seedwt-{sid}-", dir="/tmp")
    os.rmdir(wt)
    rc, out = sh(f"git -C /repo worktree add -q --detach {wt} HEAD")
    try:
        rc, out = sh(f"git apply {V}/seeded/{sid}/patch.diff", wt)
        if rc != 0:
            return sid, prop, "PATCH-DOES-NOT-APPLY", out.strip()[:200]
        res = {}
        for p in (props if allchecks else [prop]):
            c, o = sh(f"./check {p}", V, {"PDESY_SRC": wt, "VERIF_EVIDENCE_DIR": f"/tmp/seed-ev-{sid}"})
            res[p] = c
        own = res[prop]
        others = sorted(p for p, c in res.items() if c != 0 and p != prop)
        return sid, prop, {0: "MISSED", 1: "caught", 2: "ANALYSIS-ERROR"}.get(own, str(own)), ",".join(others)
    finally:
        sh(f"git -C /repo worktree remove --force {wt}")
        sh(f"rm -rf /tmp/seed-ev-{sid}")


bad = 0
with ThreadPoolExecutor(8) as ex:
    for sid, prop, verdict, extra in ex.map(one, seeds):
        print(f"{sid:8} {prop} {verdict:15} {extra}")
        if verdict != "caught":
            bad += 1
print(f"{len(seeds)} seeds, {bad} not caught by the check of their own property")
sys.exit(1 if bad else 0)
