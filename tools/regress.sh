#!/bin/sh
# tools/regress.sh -- everything that must stay true after a change of the machinery: clean tree quiet, all mutants caught,
# all stored seeds caught by the check of their property, all stored refactorings quiet.
cd /verif || exit 2
fail=0
for p in C01 C02 C03 C04 C05 C06 C07 C08 C09 C10 C11 C12 C13 C14 C15 C16 C17 C18 C19 C20; do
  ./check $p > /tmp/regress-$p.out 2>&1 || { echo "CLEAN TREE FAILS: $p"; grep -E "^  rule|ANALYSIS" /tmp/regress-$p.out | head -3; fail=1; }
done
/venv/bin/python -m sa.selftest --jobs 16 > /tmp/regress-selftest.out 2>&1
grep -v "^caught \|^quiet " /tmp/regress-selftest.out | cut -c1-260
tools/rerun_seeds.py > /tmp/regress-seeds.out 2>&1; grep -v " caught " /tmp/regress-seeds.out
tools/rerun_benign.py "$@" > /tmp/regress-benign.out 2>&1; grep -v " quiet " /tmp/regress-benign.out | cut -c1-260
exit $fail
