#!/venv/bin/python
"""tools/keep_seed.py <worktree> <seed-id> <property> -- confirm an independently written seeded change and file it under
/verif/seeded/<seed-id>/ (patch.diff, demo.py, notes.md, meta.json).  Never touches /repo: the patch is applied in the
scratch worktree, and the checks are pointed at it with PDESY_SRC."""
import json, os, shutil, subprocess, sys
wt, sid, prop = sys.argv[1], sys.argv[2], sys.argv[3]
V = "/verif"
def sh(cmd, cwd=None, env=None):
    r = subprocess.run(cmd, shell=True, cwd=cwd, capture_output=True, text=True, env=dict(os.environ, **(env or {})))
    return r.returncode, (r.stdout + r.stderr)
sh("git checkout -q -- pDESy", wt)
rc0, out0 = sh(f"PYTHONPATH={wt} timeout 300 /venv/bin/python _seed/demo.py", wt)
rc, out = sh("git apply _seed/patch.diff", wt)
assert rc == 0, out
_, stat = sh("git diff --stat -- pDESy | tail -1", wt)
rct, outt = sh("/venv/bin/python -m pytest -q -p no:cacheprovider 2>&1 | tail -1", wt)
rc1, out1 = sh(f"PYTHONPATH={wt} timeout 300 /venv/bin/python _seed/demo.py", wt)
checks = {}
for line in open(os.path.join(V, "properties.jsonl")):
    p = json.loads(line)["id"]
    c, o = sh(f"./check {p}", V, {"PDESY_SRC": wt, "VERIF_EVIDENCE_DIR": "/tmp/seed-ev"})
    if c != 0:
        checks[p] = {"exit": c, "first": next((l.strip() for l in o.splitlines() if l.strip().startswith("rule ") or "ANALYSIS-ERROR" in l), "")[:400]}
ok = rc0 == 0 and rc1 != 0 and "passed" in outt and "failed" not in outt
d = os.path.join(V, "seeded", sid)
os.makedirs(d, exist_ok=True)
for fn in ("patch.diff", "demo.py", "notes.md"):
    if os.path.exists(os.path.join(wt, "_seed", fn)):
        shutil.copy(os.path.join(wt, "_seed", fn), os.path.join(d, fn))
_, head = sh("git -C /repo log --format=%h -1")
meta = {
    "seed_id": sid, "property": prop, "author": "fresh sub-agent given only the property text and a scratch worktree",
    "base_commit": head.strip(), "diff_stat": stat.strip(),
    "needs_to_manifest": "see notes.md (written by the author of the change)",
    "confirmed": {"tests_with_change": outt.strip(), "demo_exit_on_original": rc0, "demo_exit_with_change": rc1,
                  "demo_tail_with_change": out1.strip().splitlines()[-3:]},
    "what_i_ran": ["git checkout -- pDESy; demo.py (original)", "git apply _seed/patch.diff; pytest -q; demo.py (with change)",
                   "PDESY_SRC=<worktree> ./check Cxx for all 20 properties"],
    "caught_by": {k: v for k, v in checks.items() if v["exit"] == 1},
    "analysis_errors": {k: v for k, v in checks.items() if v["exit"] == 2},
    "caught_by_own_property_check": checks.get(prop, {}).get("exit") == 1,
    "kept": ok,
}
json.dump(meta, open(os.path.join(d, "meta.json"), "w"), indent=1)
print(sid, "kept" if ok else "NOT CONFIRMED", "own:", meta["caught_by_own_property_check"], "caught by:", sorted(meta["caught_by"]), "errors:", sorted(meta["analysis_errors"]))
