#!/bin/sh
# tools/try_seed.sh <worktree> [props...]  -- confirm a seeded change (taken from <worktree>/_seed/patch.diff) and run the checks against it.
# git stash is shared between worktrees, so it is never used here: the worktree is reset and the patch applied explicitly.
WT="$1"; shift
PROPS="${*:-C01 C02 C03 C04 C05 C06 C07 C08 C09 C10 C11 C12 C13 C14 C15 C16 C17 C18 C19 C20}"
cd "$WT" || exit 2
git checkout -q -- pDESy
echo "== demo on original (expect success)"; PYTHONPATH="$WT" timeout 300 /venv/bin/python _seed/demo.py > /tmp/demo_without.out 2>&1; echo "exit=$?"; tail -2 /tmp/demo_without.out
git apply _seed/patch.diff || { echo "patch does not apply"; exit 2; }
echo "== diff stat"; git diff --stat -- pDESy | tail -3
echo "== tests with change"; /venv/bin/python -m pytest -q -p no:cacheprovider -x 2>&1 | tail -1
echo "== demo with change (expect failure)"; PYTHONPATH="$WT" timeout 300 /venv/bin/python _seed/demo.py > /tmp/demo_with.out 2>&1; echo "exit=$?"; tail -3 /tmp/demo_with.out
echo "== checks against the change"
cd /verif || exit 2
for p in $PROPS; do
  out=$(PDESY_SRC="$WT" VERIF_EVIDENCE_DIR=/tmp/seed-ev ./check $p 2>&1); rc=$?
  if [ $rc -ne 0 ]; then echo "$p exit=$rc"; echo "$out" | grep -E "^  rule |ANALYSIS-ERROR" | head -3; fi
done
echo "== done"
