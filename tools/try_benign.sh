#!/bin/sh
# tools/try_benign.sh <worktree>  -- a behaviour-preserving refactoring: every check must stay at exit 0 (known findings aside)
WT="$1"
cd "$WT" || exit 2
git checkout -q -- pDESy
git apply _seed/patch.diff || { echo "patch does not apply"; exit 2; }
echo "== diff stat"; git diff --stat -- pDESy | tail -1
echo "== tests"; /venv/bin/python -m pytest -q -p no:cacheprovider -x 2>&1 | tail -1
cd /verif || exit 2
bad=0
for p in C01 C02 C03 C04 C05 C06 C07 C08 C09 C10 C11 C12 C13 C14 C15 C16 C17 C18 C19 C20; do
  out=$(PDESY_SRC="$WT" VERIF_EVIDENCE_DIR=/tmp/seed-ev ./check $p 2>&1); rc=$?
  if [ $rc -ne 0 ]; then bad=1; echo "FALSE-ALARM? $p exit=$rc"; echo "$out" | grep -E "^  rule |ANALYSIS-ERROR" | head -4; fi
done
[ $bad -eq 0 ] && echo "all 20 checks quiet"
