#!/venv/bin/python
"""Regenerate /verif/MANIFEST.json from the rule modules (CLAIM / ASSUMPTIONS / TECHNIQUE / DESIGN_REF)."""
import importlib, json, os, sys
ROOT = os.path.dirname(os.path.dirname(os.path.abspath(__file__)))
sys.path.insert(0, ROOT)
props = [json.loads(l)["id"] for l in open(os.path.join(ROOT, "properties.jsonl"))]
NA = json.load(open(os.path.join(ROOT, "tools", "not_applicable.json")))
checks, na = [], []
for p in props:
    try:
        m = importlib.import_module(f"sa.rules.{p}")
    except ModuleNotFoundError:
        na.append({"property_id": p, "reason": NA.get(p, "check not built yet (work in progress; see DESIGN.md section 4)")})
        continue
    if p in NA:
        na.append({"property_id": p, "reason": NA[p]})
        continue
    checks.append({
        "property_id": p,
        "quick_cmd": f"./check {p} --tier quick",
        "thorough_cmd": f"./check {p} --tier thorough",
        "evidence_file": f"/verif/evidence/{p}.json",
        "replay_cmd_template": "./check " + p + " --replay {path}",
        "engine": "sa",
        "level_claimed": {"category": "other", "text": m.CLAIM, "design_ref": f"DESIGN.md section 4, {p}"},
        "level_note": "Static analysis only: exit 0 means every armed rule instance held on everything enumerated, not that the "
                      "behaviour was observed. Trusted: CPython ast, the analyser in /verif/sa, pDESy's class-docstring field types, "
                      "the spec tables in sa/spec.py. Assumes: " + "; ".join(getattr(m, "ASSUMPTIONS", [])),
        "technique": m.TECHNIQUE,
    })
man = {
    "version": 1,
    "setup_cmd": "/venv/bin/python -m compileall -q sa",
    "hooks": {
        "guard": "PDESY_VERIF",
        "enable": "no hooks: the checks parse /repo's working tree with ast and execute nothing of it",
        "baseline_off_cmd": "cd /repo && /venv/bin/python -m pytest -ra -q -p no:cacheprovider --timeout=900 --continue-on-collection-errors",
        "source_commits": [],
        "add_only": True,
    },
    "engines": [{"name": "sa", "path": "/verif/sa", "serves_properties": [c["property_id"] for c in checks],
                 "kind_free_text": "repo-specific static analyser: ast loader, docstring-typed call graph, effect sets, "
                                   "path-enumerating abstract interpreter over finite enum domains, polynomial normal forms"}],
    "checks": checks,
    "not_applicable": na,
    "notes": "All checks are static (family fixed by the brief). `./check Cxx --tier quick|thorough`; exit 2 + ANALYSIS-ERROR when an "
             "anchor vanished or an idiom is not recognised. Known findings: KNOWN_FINDINGS.txt. Self-test: /venv/bin/python -m sa.selftest.",
}
json.dump(man, open(os.path.join(ROOT, "MANIFEST.json"), "w"), indent=1)
print(f"{len(checks)} checks, {len(na)} not_applicable")
