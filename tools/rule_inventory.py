#!/venv/bin/python
"""Print the as-built rule inventory (from evidence/*.json) as markdown for DESIGN.md section 10."""
import glob, json, os
V = os.path.dirname(os.path.dirname(os.path.abspath(__file__)))
print("| property | rule | what it decides | instances on today's tree | floor |")
print("|---|---|---|---|---|")
for f in sorted(glob.glob(os.path.join(V, "evidence", "C*.json"))):
    e = json.load(open(f))
    for rid, r in e["coverage"]["rules"].items():
        print(f"| {e['property_id']} | {rid} | {r['text']} | {r['instances']} ({r['cells_or_paths']} cells/paths) | {r['floor']} |")
