#!/venv/bin/python
"""Print the markdown table of independently written seeded changes (seeded/*/meta.json) for DESIGN.md section 9.5."""
import glob, json, os, re
rows = []
for f in sorted(glob.glob(os.path.join(os.path.dirname(os.path.dirname(os.path.abspath(__file__))), "seeded", "*", "meta.json"))):
    m = json.load(open(f))
    d = os.path.dirname(f)
    notes = open(os.path.join(d, "notes.md")).read() if os.path.exists(os.path.join(d, "notes.md")) else ""
    stat = m.get("diff_stat", "")
    own = m["property"]
    first = m["caught_by"].get(own, {}).get("first", "")
    rule = re.search(r"rule (R[\d.]+[a-z]?)", first)
    others = [k for k in sorted(m["caught_by"]) if k != own]
    rows.append(f"| {m['seed_id']} | {stat.split('|')[0].strip() if '|' in stat else stat} | {own} {rule.group(1) if rule else '?'} | {', '.join(others) or '-'} |")
print("| seed | size | caught by (own property, first rule) | also caught by |")
print("|---|---|---|---|")
print("\n".join(rows))
