#!/venv/bin/python
"""tools/rerun_benign.py [id ...] -- apply every stored behaviour-preserving refactoring (benign/<id>/patch.diff, written by
fresh sub-agents that saw only a property text) to a scratch worktree of /repo and run all 20 checks against it: every
check must stay at exit 0.  /repo itself is never touched."""
import json, os, subprocess, sys, tempfile
from concurrent.futures import ThreadPoolExecutor
V = "/verif"
args = [a for a in sys.argv[1:] if not a.startswith("--")]
ids = sorted(d for d in os.listdir(f"{V}/benign") if os.path.exists(f"{V}/benign/{d}/patch.diff") and (not args or any(d == a or (a.endswith("*") and d.startswith(a[:-1])) for a in args)))
props = [json.loads(l)["id"] for l in open(f"{V}/properties.jsonl")]


def sh(cmd, cwd=None, env=None):
    r = subprocess.run(cmd, shell=True, cwd=cwd, capture_output=True, text=True, env=dict(os.environ, **(env or {})))
    return r.returncode, r.stdout + r.stderr


def one(bid):
    wt = tempfile.mkdtemp(prefix=f"benignwt-{bid}-", dir="/tmp")
    os.rmdir(wt)
    sh(f"git -C /repo worktree add -q --detach {wt} HEAD")
    try:
        rc, out = sh(f"git apply {V}/benign/{bid}/patch.diff", wt)
        if rc != 0:
            return bid, "PATCH-DOES-NOT-APPLY", out.strip()[:200]
        bad = []
        for p in props:
            c, o = sh(f"./check {p}", V, {"PDESY_SRC": wt, "VERIF_EVIDENCE_DIR": f"/tmp/benign-ev-{bid}"})
            if c != 0:
                first = next((l.strip() for l in o.splitlines() if l.strip().startswith("rule ") or "ANALYSIS-ERROR" in l), "")[:160]
                bad.append(f"{p}(exit {c}): {first}")
        return bid, "quiet" if not bad else "ALARM", "\n      ".join(bad)
    finally:
        sh(f"git -C /repo worktree remove --force {wt}")
        sh(f"rm -rf /tmp/benign-ev-{bid}")


n = 0
with ThreadPoolExecutor(6) as ex:
    for bid, verdict, extra in ex.map(one, ids):
        print(f"{bid:6} {verdict:8} {extra}")
        n += verdict != "quiet"
print(f"{len(ids)} refactorings, {n} raise an alarm")
sys.exit(1 if n else 0)
